package checks

// C18 phase B: JSON round trips of blocks and momentums, and a pooled user block
// published as JSON on a follower node.

import (
	"bytes"
	"encoding/base64"
	"encoding/hex"
	"encoding/json"
	"fmt"
	"math/big"
	"strings"

	"github.com/zenon-network/go-zenon/chain/nom"
	"github.com/zenon-network/go-zenon/common/types"
	"github.com/zenon-network/go-zenon/rpc/api"
)

func c18JSON(v any) (out []byte, err error, p *c18Panic) {
	p = c18Safe(func() { out, err = json.Marshal(v) })
	return
}

func c18Unjson(data []byte, v any) (err error, p *c18Panic) {
	p = c18Safe(func() { err = json.Unmarshal(data, v) })
	return
}

// roundTripBlock returns "" or the first discrepancy.
func (c *c18) roundTripBlock(want *nom.AccountBlock, ab *api.AccountBlock) string {
	// 1. ledger block JSON
	j1, err, p := c18JSON(want)
	if p != nil {
		return fmt.Sprintf("marshal of ledger block panicked: %v", p.v)
	}
	if err != nil {
		return "marshal of ledger block: " + err.Error()
	}
	nb := new(nom.AccountBlock)
	if err, p := c18Unjson(j1, nb); p != nil || err != nil {
		return fmt.Sprintf("ledger block JSON does not parse back: %v %v; json %s", err, p, c18Clip(j1))
	}
	if nb.ComputeHash() != want.Hash || c18Ser(nb) != c18Ser(want) {
		return fmt.Sprintf("ledger block JSON parses to a different block: hash %v (want %v) serialization %s (want %s); json %s", nb.ComputeHash(), want.Hash, c18Ser(nb), c18Ser(want), c18Clip(j1))
	}
	if j2, _, _ := c18JSON(nb); !bytes.Equal(j1, j2) {
		return "ledger block JSON is not stable under parse+print"
	}
	// documented field shapes
	var m map[string]any
	dec := json.NewDecoder(bytes.NewReader(j1))
	dec.UseNumber()
	if err := dec.Decode(&m); err != nil {
		return "ledger block JSON is not an object: " + err.Error()
	}
	if s, ok := m["amount"].(string); !ok || s != want.Amount.String() {
		return fmt.Sprintf("amount must be the decimal string %q, JSON has %v (%T)", want.Amount.String(), m["amount"], m["amount"])
	}
	if s, ok := m["nonce"].(string); !ok || s != hex.EncodeToString(want.Nonce.Data[:]) {
		return fmt.Sprintf("nonce must be 16 hex digits %q, JSON has %v", hex.EncodeToString(want.Nonce.Data[:]), m["nonce"])
	}
	if s, ok := m["data"].(string); (len(want.Data) > 0 || m["data"] != nil) && (!ok || s != base64.StdEncoding.EncodeToString(want.Data)) {
		return fmt.Sprintf("data must be base64 %q, JSON has %v", base64.StdEncoding.EncodeToString(want.Data), m["data"])
	}
	if s, ok := m["hash"].(string); !ok || s != want.Hash.String() {
		return fmt.Sprintf("hash field %v", m["hash"])
	}
	if s, ok := m["address"].(string); !ok || s != want.Address.String() {
		return fmt.Sprintf("address field %v", m["address"])
	}
	if n, ok := m["height"].(json.Number); !ok || n.String() != fmt.Sprint(want.Height) {
		return fmt.Sprintf("height field %v", m["height"])
	}
	if l, ok := m["descendantBlocks"].([]any); !ok || len(l) != len(want.DescendantBlocks) {
		return fmt.Sprintf("descendantBlocks field has %v, block has %d", m["descendantBlocks"], len(want.DescendantBlocks))
	}
	if ab == nil {
		return ""
	}
	// 2. API block JSON
	a1, err, p := c18JSON(ab)
	if p != nil {
		return fmt.Sprintf("marshal of API block panicked: %v", p.v)
	}
	if err != nil {
		return "marshal of API block: " + err.Error()
	}
	ab2 := new(api.AccountBlock)
	if err, p := c18Unjson(a1, ab2); p != nil || err != nil {
		return fmt.Sprintf("API block JSON does not parse back: %v %v; json %s", err, p, c18Clip(a1))
	}
	h, err := ab2.ComputeHash()
	if err != nil || *h != want.Hash || c18Ser(&ab2.AccountBlock) != c18Ser(want) {
		return fmt.Sprintf("API block JSON parses to a different block: hash %v (want %v); json %s", h, want.Hash, c18Clip(a1))
	}
	if s := c.tr.judgeBlock(ab2, want, true); s != "" {
		return "API block after JSON round trip: " + s
	}
	if a2, _, _ := c18JSON(ab2); !bytes.Equal(a1, a2) {
		return fmt.Sprintf("API block JSON is not stable under parse+print: %s vs %s", c18Clip(a1), c18Clip(a2))
	}
	return ""
}

func c18Clip(b []byte) string {
	if len(b) > 600 {
		return string(b[:600]) + "…"
	}
	return string(b)
}

func (c *c18) phaseRoundTrip() {
	t, tr, L := c.r.T, c.tr, c.apis.Ledger
	// candidates: prefer blocks with descendants, data, or in the pool
	var plain, rich, pooled, desc []*nom.AccountBlock
	for _, a := range tr.accounts {
		for i, b := range tr.chain[a] {
			switch {
			case len(b.DescendantBlocks) > 0:
				desc = append(desc, b)
			case i >= tr.confirmed[a]:
				pooled = append(pooled, b)
			case len(b.Data) > 0 || b.Difficulty != 0:
				rich = append(rich, b)
			default:
				plain = append(plain, b)
			}
		}
	}
	pick := func(l []*nom.AccountBlock) *nom.AccountBlock {
		if len(l) == 0 {
			return nil
		}
		return l[t.Choose(len(l))]
	}
	for i := 0; i < 8; i++ {
		t.Span(func() {
			b := pick([][]*nom.AccountBlock{desc, rich, pooled, plain}[i%4])
			if b == nil {
				return
			}
			var ab *api.AccountBlock
			if _, conf := tr.confAt[b.Hash]; conf {
				if p := c18Safe(func() { ab, _ = L.GetAccountBlockByHash(b.Hash) }); p != nil {
					return // reported by phase A
				}
			} else if p := c18Safe(func() {
				if l, err := L.GetUnconfirmedBlocksByAddress(b.Address, 0, api.RpcMaxPageSize); err == nil {
					for _, x := range l.List {
						if x.Hash == b.Hash {
							ab = x
						}
					}
				}
			}); p != nil {
				return
			}
			c.r.Probe("json-roundtrip")
			if len(b.DescendantBlocks) > 0 {
				c.r.Probe("json-roundtrip-with-descendants")
			}
			if s := c.roundTripBlock(b, ab); s != "" {
				c.note("roundtrip block %v MISMATCH", b.Hash)
				c.report("json-roundtrip", "account-block", "block %v (type %d, height %d of %v): %s", b.Hash, b.BlockType, b.Height, b.Address, s)
				return
			}
			c.compared++
			c.note("roundtrip block %v ok", b.Hash)
		})
	}
	for i := 0; i < 3; i++ {
		t.Span(func() {
			want := tr.moms[t.Choose(len(tr.moms))]
			if i == 0 { // the momentum with the most account blocks
				for _, m := range tr.moms {
					if len(m.Content) > len(want.Content) {
						want = m
					}
				}
			}
			var am *api.Momentum
			if p := c18Safe(func() { am, _ = L.GetMomentumByHash(want.Hash) }); p != nil || am == nil {
				return
			}
			c.r.Probe("json-roundtrip")
			bad := func() string {
				j1, err, p := c18JSON(am)
				if p != nil || err != nil {
					return fmt.Sprintf("marshal failed: %v %v", err, p)
				}
				am2 := new(api.Momentum)
				if err, p := c18Unjson(j1, am2); p != nil || err != nil {
					return fmt.Sprintf("JSON does not parse back: %v %v; json %s", err, p, c18Clip(j1))
				}
				if am2.Momentum == nil || am2.ComputeHash() != want.Hash || c18SerMom(am2.Momentum) != c18SerMom(want) || am2.Producer != types.PubKeyToAddress(want.PublicKey) {
					return fmt.Sprintf("JSON parses to a different momentum; json %s", c18Clip(j1))
				}
				if j2, _, _ := c18JSON(am2); !bytes.Equal(j1, j2) {
					return "JSON is not stable under parse+print"
				}
				var m map[string]any
				dec := json.NewDecoder(bytes.NewReader(j1))
				dec.UseNumber()
				if err := dec.Decode(&m); err != nil {
					return err.Error()
				}
				if n, ok := m["timestamp"].(json.Number); !ok || n.String() != fmt.Sprint(want.TimestampUnix) {
					return fmt.Sprintf("timestamp field %v", m["timestamp"])
				}
				if l, ok := m["content"].([]any); !ok || len(l) != len(want.Content) {
					return fmt.Sprintf("content field has %v entries, momentum has %d", m["content"], len(want.Content))
				}
				return ""
			}()
			if bad != "" {
				c.note("roundtrip momentum %d MISMATCH", want.Height)
				c.report("json-roundtrip", "momentum", "momentum %d %v: %s", want.Height, want.Hash, bad)
				return
			}
			c.compared++
			c.note("roundtrip momentum %d ok", want.Height)
		})
	}
	// a whole page of blocks through AccountBlockList's own JSON code
	t.Span(func() {
		a := tr.accounts[t.Choose(len(tr.accounts))]
		var l *api.AccountBlockList
		var err error
		if p := c18Safe(func() { l, err = L.GetAccountBlocksByPage(a, 0, uint32(1+t.Choose(20))) }); p != nil || err != nil || l == nil {
			return
		}
		c.r.Probe("json-roundtrip")
		bad := func() string {
			j1, err, p := c18JSON(l)
			if p != nil || err != nil {
				return fmt.Sprintf("marshal failed: %v %v", err, p)
			}
			l2 := new(api.AccountBlockList)
			if err, p := c18Unjson(j1, l2); p != nil || err != nil {
				return fmt.Sprintf("JSON does not parse back: %v %v; json %s", err, p, c18Clip(j1))
			}
			if l2.Count != l.Count || l2.More != l.More || len(l2.List) != len(l.List) {
				return fmt.Sprintf("count/more/length change: %d/%v/%d -> %d/%v/%d", l.Count, l.More, len(l.List), l2.Count, l2.More, len(l2.List))
			}
			for i, b := range l2.List {
				want := tr.blockBy[l.List[i].Hash]
				if want == nil {
					return "page holds a block that is not in the ledger"
				}
				if h, err := b.ComputeHash(); err != nil || *h != want.Hash {
					return fmt.Sprintf("element %d parses to a block with hash %v, want %v", i, h, want.Hash)
				}
				if s := tr.judgeBlock(b, want, true); s != "" {
					return fmt.Sprintf("element %d after JSON round trip: %s", i, s)
				}
			}
			if j2, _, _ := c18JSON(l2); !bytes.Equal(j1, j2) {
				return "JSON is not stable under parse+print"
			}
			return ""
		}()
		if bad != "" {
			c.note("roundtrip block list of %v MISMATCH", a)
			c.report("json-roundtrip", "account-block-list", "first page of %v: %s", a, bad)
			return
		}
		c.compared++
		c.note("roundtrip block list of %v ok (%d blocks)", a, len(l.List))
	})
	t.Span(func() { c.publishOnFollower() })
}

// publishOnFollower syncs a fresh follower to P's confirmed chain and feeds it
// the JSON of P's pooled user blocks through PublishRawTransaction.
func (c *c18) publishOnFollower() {
	t, tr := c.r.T, c.tr
	var cands []*nom.AccountBlock
	for _, a := range tr.accounts {
		if types.IsEmbeddedAddress(a) || len(tr.chain[a]) == tr.confirmed[a] {
			continue
		}
		b := tr.chain[a][tr.confirmed[a]]
		if tr.unknownToken(b) {
			// PublishRawTransaction deliberately refuses token standards that do not
			// exist (checkTokenIdValid), although the ledger itself accepts them
			c.r.Skip("pooled-block-names-unknown-token")
			continue
		}
		if b.BlockType == nom.BlockTypeUserSend || b.BlockType == nom.BlockTypeUserReceive {
			cands = append(cands, b)
		}
	}
	if len(cands) == 0 {
		c.r.Skip("no-pooled-user-block")
		return
	}
	f := c.w.AddNode("F", nil, false)
	f.OnBlock, f.OnMomentum = nil, nil
	if h := c.p.Height(); h >= 2 {
		for start := uint64(2); start <= h; start += 64 {
			end := start + 63
			if end > h {
				end = h
			}
			if _, err := f.Bridge.InsertChain(c.p.Batch(start, end)); err != nil {
				c.r.Fail("harness", "follower-sync", "follower could not adopt P's chain [%d..%d]: %v", start, end, err)
			}
		}
	}
	if f.Frontier().Hash != tr.frontier.Hash {
		c.r.Fail("harness", "follower-sync", "follower frontier differs after sync")
	}
	FL := api.NewLedgerApi(&c18Zenon{f})
	n := 1 + t.Choose(3)
	for i := 0; i < n && i < len(cands); i++ {
		b := cands[(t.Choose(len(cands))+i)%len(cands)]
		if x, _ := f.Chain.GetFrontierAccountStore(b.Address).ByHash(b.Hash); x != nil {
			continue
		}
		var ab *api.AccountBlock
		if p := c18Safe(func() {
			if l, err := c.apis.Ledger.GetUnconfirmedBlocksByAddress(b.Address, 0, 1); err == nil && len(l.List) == 1 {
				ab = l.List[0]
			}
		}); p != nil || ab == nil || ab.Hash != b.Hash {
			c.r.Skip("pooled-block-not-served")
			continue
		}
		js, err, p := c18JSON(ab)
		if err != nil || p != nil {
			c.report("json-roundtrip", "publish-raw", "pooled block %v does not marshal: %v %v", b.Hash, err, p)
			return
		}
		// tampered copies must be refused and leave no trace
		tam := strings.Replace(string(js), `"amount":"`+b.Amount.String()+`"`, `"amount":"`+new(big.Int).Add(b.Amount, big.NewInt(1)).String()+`"`, 1)
		for _, bad := range []string{tam, strings.Replace(string(js), `"height":`+fmt.Sprint(b.Height), `"height":`+fmt.Sprint(b.Height+1), 1)} {
			if bad == string(js) {
				continue
			}
			blk := new(api.AccountBlock)
			if err, p := c18Unjson([]byte(bad), blk); err != nil || p != nil {
				continue
			}
			var perr error
			if p := c18Safe(func() { perr = FL.PublishRawTransaction(blk) }); p != nil {
				c.r.Probe("publish-raw-tampered-panicked")
				perr = fmt.Errorf("panic %v", p.v)
			}
			front, _ := f.Chain.GetFrontierAccountStore(b.Address).Frontier()
			if perr == nil || (front != nil && front.Height >= b.Height) {
				c.report("publish-raw", "tampered-block-accepted", "block %v with one field changed after signing was accepted by PublishRawTransaction (err=%v)", b.Hash, perr)
				return
			}
			c.r.Probe("publish-raw-tampered-refused")
		}
		blk := new(api.AccountBlock)
		if err, p := c18Unjson(js, blk); err != nil || p != nil {
			c.report("json-roundtrip", "publish-raw", "JSON of pooled block %v does not parse: %v %v", b.Hash, err, p)
			return
		}
		before := f.OwnBlockErrs
		var perr error
		if p := c18Safe(func() { perr = FL.PublishRawTransaction(blk) }); p != nil {
			c.report("api-panic", "publish-raw", "PublishRawTransaction panicked on a valid block: %v at %s", p.v, c18Short(p.stack))
			return
		}
		c.r.Probe("publish-raw-on-follower")
		c.compared++
		if perr != nil || f.OwnBlockErrs != before {
			c.note("publish %v on follower REFUSED %v", b.Hash, perr)
			c.report("publish-raw", "valid-block-refused", "pooled block %v (type %d height %d of %v), valid on P, was refused on a follower with the same chain when fed back as JSON: %v", b.Hash, b.BlockType, b.Height, b.Address, perr)
			return
		}
		got, _ := f.Chain.GetFrontierAccountStore(b.Address).ByHash(b.Hash)
		if got == nil {
			c.report("publish-raw", "not-stored", "block %v accepted by PublishRawTransaction but not in the follower's pool", b.Hash)
			return
		}
		w1, _ := b.Serialize()
		w2, _ := got.Serialize()
		if !bytes.Equal(w1, w2) {
			c.report("publish-raw", "stored-differs", "block %v stored on the follower differs from the original: %s vs %s", b.Hash, c18Ser(got), c18Ser(b))
			return
		}
		c.note("publish %v on follower ok", b.Hash)
	}
}
