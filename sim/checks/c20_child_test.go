package checks

// Child side of C20's fresh-process comparison: the parent re-executes the test binary with
// VERIF_C20_CHILD=<genesis json>; this test builds the genesis and a real chain database in
// this new process and prints one line the parent compares with its own results.

import (
	"encoding/json"
	"fmt"
	"os"
	"testing"

	"github.com/zenon-network/go-zenon/chain"
	"github.com/zenon-network/go-zenon/chain/genesis"
	"github.com/zenon-network/go-zenon/common/db"

	"verif/sim/oracle"
	"verif/sim/simnode"
)

func TestC20Child(t *testing.T) {
	file := os.Getenv("VERIF_C20_CHILD")
	if file == "" {
		t.Skip("not a C20 child")
	}
	raw, err := os.ReadFile(file)
	if err != nil {
		t.Fatal(err)
	}
	cfg := new(genesis.GenesisConfig)
	if err := json.Unmarshal(raw, cfg); err != nil {
		t.Fatal(err)
	}
	simnode.Quiet()
	b, err := c20Build(cfg)
	if err != nil {
		t.Fatal(err)
	}
	dir := os.Getenv("VERIF_C20_DIR")
	mgr := db.NewLevelDBManager(dir)
	ch := chain.NewChain(mgr, genesis.NewGenesis(cfg))
	if err := ch.Init(); err != nil {
		t.Fatal(err)
	}
	state := oracle.Digest(oracle.Dump(mgr.Frontier()))
	ch.Stop()
	fmt.Fprintf(simnode.Out(), "C20CHILD %s state=%s\n", b.String(), state)
}
