//go:build verifshims

package checks

// C15, lower layers: the real rlpx transport (encryption handshake, framing,
// MAC) over in-memory pipes with a byte-level fault injector in the middle, and
// the real discovery protocol over an injected packet connection. Reached
// through shims added to package p2p and p2p/discover by the build overlay.

import (
	"bytes"
	"crypto/ecdsa"
	"crypto/elliptic"
	"fmt"
	"io"
	"math/big"
	"net"
	"sync"
	"testing/synctest"
	"time"

	"github.com/ethereum/go-ethereum/crypto"

	"github.com/zenon-network/go-zenon/p2p"
	"github.com/zenon-network/go-zenon/p2p/discover"

	"verif/sim/simnode"
	"verif/sim/simrt"
)

func init() { c15Lower = runC15Lower }

func runC15Lower(r *simrt.Run) {
	simnode.Quiet()
	if r.T.Bool() {
		c15Rlpx(r)
	} else {
		c15Discovery(r)
	}
}

// keyFromTape derives a secp256k1 key from tape bytes (no crypto/rand).
func keyFromTape(r *simrt.Run) *ecdsa.PrivateKey {
	for {
		d := new(big.Int).SetBytes(r.T.Bytes(32))
		n := crypto.S256().Params().N
		if d.Sign() == 0 || d.Cmp(n) >= 0 {
			continue
		}
		k := new(ecdsa.PrivateKey)
		k.PublicKey.Curve = crypto.S256()
		k.D = d
		k.PublicKey.X, k.PublicKey.Y = crypto.S256().ScalarBaseMult(d.Bytes())
		return k
	}
}

var _ = elliptic.P256

type sentMsg struct {
	code uint64
	data []byte
}

// ---- rlpx: delivered messages are a prefix of the sent ones, anything else is an error ----

func c15Rlpx(r *simrt.Run) {
	t := r.T
	nodeKey, peerKey := keyFromTape(r), keyFromTape(r)
	// peer <-> (pa | pb) injector (qa | qb) <-> node
	pa, pb := net.Pipe()
	qa, qb := net.Pipe()
	// fault plan, decided up front
	type fault struct {
		dir  int // 0 peer->node, 1 node->peer
		kind int // 0 flip bit, 1 truncate (close), 2 duplicate a chunk, 3 drop a chunk, 4 swap two chunks
		at   int // byte offset in that direction's stream
		n    int
	}
	handshakeBytes := 600 // auth is 307 bytes, the reply 210
	var faults []fault
	nf := t.Choose(3)
	phase := t.Choose(3) // 0 none in handshake, 1 in handshake, 2 anywhere
	for i := 0; i < nf; i++ {
		at := handshakeBytes + t.Choose(4000)
		if phase == 1 || (phase == 2 && t.Bool()) {
			at = t.Choose(handshakeBytes)
		}
		faults = append(faults, fault{dir: 0, kind: t.Choose(5), at: at, n: 1 + t.Choose(64)})
	}
	for _, f := range faults {
		r.Fault(fmt.Sprintf("frame-fault-%s", []string{"bit-flip", "truncate", "duplicate", "drop", "swap"}[f.kind]))
	}
	var wg sync.WaitGroup
	pump := func(dir int, src, dst net.Conn) {
		defer wg.Done()
		defer dst.Close()
		off := 0
		buf := make([]byte, 4096)
		var held []byte
		for {
			n, err := src.Read(buf)
			if n > 0 {
				chunk := append([]byte(nil), buf[:n]...)
				out := chunk
				for _, f := range faults {
					if f.dir != dir || f.at < off || f.at >= off+n {
						continue
					}
					i := f.at - off
					if i >= len(out) {
						continue // an earlier fault in the same chunk already shortened it
					}
					switch f.kind {
					case 0:
						out[i] ^= 1 << uint(f.n%8)
					case 1:
						dst.Write(out[:i])
						return
					case 2:
						e := i + f.n
						if e > len(out) {
							e = len(out)
						}
						out = append(append(append([]byte(nil), out[:e]...), out[i:e]...), out[e:]...)
					case 3:
						e := i + f.n
						if e > len(out) {
							e = len(out)
						}
						out = append(append([]byte(nil), out[:i]...), out[e:]...)
					case 4:
						held = append([]byte(nil), out[i:]...)
						out = out[:i]
					}
				}
				off += n
				if _, werr := dst.Write(out); werr != nil {
					return
				}
				if held != nil && len(out) == len(chunk) {
					dst.Write(held)
					held = nil
				}
			}
			if err != nil {
				if held != nil {
					dst.Write(held)
				}
				return
			}
		}
	}
	wg.Add(2)
	go pump(0, pb, qa)
	go pump(1, qa, pb)

	// what the peer will send
	var plan []sentMsg
	for i := 0; i < 3+t.Choose(12); i++ {
		sz := []int{0, 1, 15, 16, 17, 100, 1000, 5000}[t.Choose(8)]
		plan = append(plan, sentMsg{code: uint64(t.Choose(40)), data: t.Bytes(sz)})
	}
	var delivered []sentMsg
	var nodeErr, peerErr error
	var hsNodeErr, hsPeerErr error
	wg.Add(2)
	go func() { // node side: receiver handshake, then read until error
		defer wg.Done()
		defer qb.Close()
		rw, _, err := p2p.VerifRLPX(qb, nodeKey, nil)
		if err != nil {
			hsNodeErr = err
			return
		}
		for {
			m, err := rw.ReadMsg()
			if err != nil {
				nodeErr = err
				return
			}
			b, err := io.ReadAll(m.Payload)
			if err != nil {
				nodeErr = err
				return
			}
			delivered = append(delivered, sentMsg{m.Code, b})
		}
	}()
	go func() { // peer side: initiator handshake, then send the plan
		defer wg.Done()
		defer pa.Close()
		dial := &discover.Node{ID: discover.PubkeyID(&nodeKey.PublicKey)}
		rw, _, err := p2p.VerifRLPX(pa, peerKey, dial)
		if err != nil {
			hsPeerErr = err
			return
		}
		for _, m := range plan {
			if err := rw.WriteMsg(p2p.Msg{Code: m.code, Size: uint32(len(m.data)), Payload: bytes.NewReader(m.data)}); err != nil {
				peerErr = err
				return
			}
		}
		// keep the connection open until the node has read everything or given up
		time.Sleep(40 * time.Second)
	}()
	done := make(chan struct{})
	go func() { wg.Wait(); close(done) }()
	select {
	case <-done:
	case <-time.After(3 * time.Minute):
		r.Fail("transport-stalled", "rlpx", "rlpx endpoints did not finish within 3 simulated minutes (handshake and frame timeouts are 5 s / 30 s)")
	}
	// the event log (and with it the digest) carries the plan, which is a function of the tape; HOW the two
	// real endpoint goroutines fail on a damaged stream (which side notices first, how many frames got through
	// before) was seen to differ once between two executions of one seed on a heavily loaded machine - it is
	// judged below but kept out of the digest
	r.Logf("rlpx: %d faults planned, %d messages planned", len(faults), len(plan))
	r.Sample["rlpx_outcome"] = fmt.Sprintf("handshake errors node=%v peer=%v, delivered %d of %d, node error=%v", hsNodeErr != nil, hsPeerErr != nil, len(delivered), len(plan), nodeErr != nil)
	// never a message that was not sent: delivered must be a prefix of the plan
	if len(delivered) > len(plan) {
		r.Fail("frame-forged-delivery", "extra", "the transport delivered %d messages, %d were sent", len(delivered), len(plan))
	}
	for i, d := range delivered {
		if d.code != plan[i].code || !bytes.Equal(d.data, plan[i].data) {
			r.Fail("frame-forged-delivery", "content", "message #%d delivered as code %d / %d bytes, sent as code %d / %d bytes (faults %v)", i, d.code, len(d.data), plan[i].code, len(plan[i].data), faults)
		}
	}
	if len(faults) == 0 {
		if hsNodeErr != nil || hsPeerErr != nil || len(delivered) != len(plan) {
			r.Fail("transport-broken-without-faults", "rlpx", "without injected faults: handshake errors %v / %v, delivered %d of %d, read error %v", hsNodeErr, hsPeerErr, len(delivered), len(plan), nodeErr)
		}
		r.Probe("rlpx-fault-free-session")
	} else if len(delivered) < len(plan) {
		r.Probe("rlpx-corruption-rejected")
	} else {
		r.Probe("rlpx-fault-outside-traffic")
	}
	r.NonTrivial = true
	r.Finger = "rlpx-" + r.Digest()
	r.Sample["layer"] = "rlpx"
	r.Sample["faults"] = len(faults)
	r.Sample["delivered_of"] = []int{len(delivered), len(plan)}
	_ = peerErr
}

// ---- discovery over an injected packet connection ----

type fakeUDP struct {
	mu     sync.Mutex
	in     chan inPkt
	out    []outPkt
	closed chan struct{}
	local  *net.UDPAddr
}
type inPkt struct {
	b    []byte
	from *net.UDPAddr
}
type outPkt struct {
	b  []byte
	to *net.UDPAddr
}

func (c *fakeUDP) ReadFromUDP(b []byte) (int, *net.UDPAddr, error) {
	select {
	case p := <-c.in:
		return copy(b, p.b), p.from, nil
	case <-c.closed:
		return 0, nil, io.EOF
	}
}
func (c *fakeUDP) WriteToUDP(b []byte, a *net.UDPAddr) (int, error) {
	c.mu.Lock()
	c.out = append(c.out, outPkt{append([]byte(nil), b...), a})
	c.mu.Unlock()
	return len(b), nil
}
func (c *fakeUDP) Close() error {
	select {
	case <-c.closed:
	default:
		close(c.closed)
	}
	return nil
}
func (c *fakeUDP) LocalAddr() net.Addr { return c.local }
func (c *fakeUDP) drain() []outPkt {
	c.mu.Lock()
	defer c.mu.Unlock()
	o := c.out
	c.out = nil
	return o
}

func c15Discovery(r *simrt.Run) {
	t := r.T
	nodeKey := keyFromTape(r)
	conn := &fakeUDP{in: make(chan inPkt), closed: make(chan struct{}), local: &net.UDPAddr{IP: net.IP{10, 0, 0, 1}, Port: 30303}}
	tab, closeFn := discover.VerifNewUDP(nodeKey, conn)
	r.Cleanup(func() { closeFn(); tab.Close() })
	nodeAddr := conn.local
	honestKey, advKey := keyFromTape(r), keyFromTape(r)
	honestAddr := &net.UDPAddr{IP: net.IP{10, 0, 0, 2}, Port: 30303}
	advAddr := &net.UDPAddr{IP: net.IP{10, 0, 0, 66}, Port: 30303}
	future := func() uint64 { return uint64(time.Now().Add(20 * time.Second).Unix()) }
	deliver := func(b []byte, from *net.UDPAddr) {
		select {
		case conn.in <- inPkt{b, from}:
		case <-time.After(time.Minute):
			r.Fail("discovery-stalled", "read-loop", "the discovery read loop did not take a packet within a simulated minute")
		}
		synctest.Wait()
	}
	// answer the node's bonding pings like a live peer does
	answerPings := func(key *ecdsa.PrivateKey, addr *net.UDPAddr) (pongs, neigh, nNodes int) {
		for _, o := range conn.drain() {
			typ, _, n := discover.VerifPacketType(o.b)
			if !o.to.IP.Equal(addr.IP) {
				continue
			}
			switch typ {
			case 1:
				if b, err := discover.VerifEncodePong(key, nodeAddr, o.b[:32], future()); err == nil {
					deliver(b, addr)
				}
			case 2:
				pongs++
			case 4:
				neigh++
				nNodes += n
			}
		}
		return
	}
	sizeBefore := discover.VerifTableSize(tab)
	hostile := 0
	steps := 6 + t.Choose(20)
	for i := 0; i < steps; i++ {
		t.Span(func() {
			valid, _ := discover.VerifEncodePing(advKey, discover.Version, advAddr, nodeAddr, future())
			var pkt []byte
			class := ""
			switch t.Choose(11) {
			case 10:
				// a correctly hashed and signed datagram whose signed body is cut short: no type byte at
				// all (97 bytes), only the type byte, or part of the payload
				class = "authenticated-short-body"
				body := valid[97:]
				switch t.Choose(3) {
				case 0:
					body = nil
				case 1:
					body = body[:1]
				default:
					body = body[:t.Choose(len(body))]
				}
				sig, err := crypto.Sign(crypto.Keccak256(body), advKey)
				if err != nil {
					return
				}
				pkt = append(append(make([]byte, 32), sig...), body...)
				copy(pkt, crypto.Keccak256(pkt[32:]))
			case 0:
				class, pkt = "random-bytes", t.Bytes(1+t.Choose(300))
			case 1:
				class, pkt = "truncated", valid[:t.Choose(len(valid))]
			case 2:
				class = "hash-corrupted"
				pkt = append([]byte(nil), valid...)
				pkt[t.Choose(32)] ^= 1
			case 3:
				class = "signature-corrupted"
				pkt = append([]byte(nil), valid...)
				pkt[32+t.Choose(65)] ^= 1
				copy(pkt, crypto.Keccak256(pkt[32:]))
			case 4:
				class = "expired-ping"
				pkt, _ = discover.VerifEncodePing(advKey, discover.Version, advAddr, nodeAddr, uint64(time.Now().Add(-time.Duration(1+t.Choose(100))*time.Second).Unix()))
			case 5:
				class = "wrong-version-ping"
				pkt, _ = discover.VerifEncodePing(advKey, uint(t.Choose(4)), advAddr, nodeAddr, future())
			case 6:
				class = "unbonded-findnode"
				k := keyFromTape(r) // a sender the node never bonded with
				pkt, _ = discover.VerifEncodeFindnode(k, discover.PubkeyID(&advKey.PublicKey), future())
			case 7:
				class = "unsolicited-neighbors"
				ids := []discover.NodeID{}
				for j := 0; j < 1+t.Choose(12); j++ {
					ids = append(ids, discover.PubkeyID(&keyFromTape(r).PublicKey))
				}
				pkt, _ = discover.VerifEncodeNeighbors(advKey, ids, net.IP{10, 9, 9, 9}, future())
			case 8:
				class = "unsolicited-pong"
				pkt, _ = discover.VerifEncodePong(advKey, nodeAddr, t.Bytes(32), future())
			case 9:
				class = "oversized"
				pkt = append(append([]byte(nil), valid...), t.Bytes(1280+t.Choose(3000))...)
				copy(pkt, crypto.Keccak256(pkt[32:]))
			}
			r.Fault("discovery-" + class)
			hostile++
			func() {
				defer func() {
					if p := recover(); p != nil {
						r.Fail("discovery-panic", class, "%v", p)
					}
				}()
				deliver(pkt, advAddr)
			}()
			// what did the node send to the adversary because of it?
			for _, o := range conn.drain() {
				if !o.to.IP.Equal(advAddr.IP) {
					continue
				}
				typ, _, n := discover.VerifPacketType(o.b)
				switch class {
				case "random-bytes", "truncated", "authenticated-short-body", "hash-corrupted", "expired-ping", "wrong-version-ping", "unbonded-findnode", "unsolicited-neighbors", "unsolicited-pong":
					r.Fail("discovery-answered-invalid-packet", class, "the node answered a %s packet with a packet of type %d (%d nodes)", class, typ, n)
				case "signature-corrupted", "oversized":
					// a different but valid signature recovers another sender id: a pong to it is legitimate
				}
			}
			if sz := discover.VerifTableSize(tab); sz > sizeBefore {
				r.Fail("discovery-unverified-node-added", class, "a %s packet added a node to the table (%d -> %d)", class, sizeBefore, sz)
			}
		})
	}
	// the node still serves an honest peer: ping -> pong, bond, findnode -> neighbors
	ping, _ := discover.VerifEncodePing(honestKey, discover.Version, honestAddr, nodeAddr, future())
	deliver(ping, honestAddr)
	pongs, _, _ := answerPings(honestKey, honestAddr)
	for i := 0; i < 5 && pongs == 0; i++ {
		time.Sleep(500 * time.Millisecond)
		synctest.Wait()
		p2, _, _ := answerPings(honestKey, honestAddr)
		pongs += p2
	}
	if pongs == 0 {
		r.Fail("discovery-honest-peer-not-served", "ping", "after %d hostile packets a valid ping from another peer got no pong", hostile)
	}
	// complete the bond (the node pings back; answered above), then ask for neighbours
	for i := 0; i < 6; i++ {
		time.Sleep(300 * time.Millisecond)
		synctest.Wait()
		answerPings(honestKey, honestAddr)
	}
	fn, _ := discover.VerifEncodeFindnode(honestKey, discover.PubkeyID(&honestKey.PublicKey), future())
	deliver(fn, honestAddr)
	time.Sleep(200 * time.Millisecond)
	synctest.Wait()
	_, neigh, _ := answerPings(honestKey, honestAddr)
	if neigh == 0 {
		r.Probe("discovery-findnode-unanswered-after-bond")
	} else {
		r.Probe("discovery-honest-findnode-answered")
	}
	r.Probe("discovery-honest-ping-answered")
	r.NonTrivial = hostile >= 5
	r.Finger = "discovery-" + r.Digest()
	r.Sample["layer"] = "discovery"
	r.Sample["hostile_packets"] = hostile
}
