package checks

import (
	"fmt"
	"math/big"

	"github.com/zenon-network/go-zenon/chain/nom"
	"github.com/zenon-network/go-zenon/common/types"
	"github.com/zenon-network/go-zenon/vm/constants"
	"github.com/zenon-network/go-zenon/vm/embedded/definition"
	"github.com/zenon-network/go-zenon/wallet"

	"verif/sim/golden"
	"verif/sim/nomsim"
	"verif/sim/oracle"
	"verif/sim/simrt"
	"verif/sim/tape"
)

func init() { register("C12", runC12) }

func contractABIs() []oracle.ContractABI {
	var out []oracle.ContractABI
	for _, c := range nomsim.Contracts {
		out = append(out, oracle.ContractABI{Name: c.Name, Addr: c.Addr, ABI: c.ABI})
	}
	return out
}

// searchNonce looks for a nonce whose proof-of-work meets difficulty d, trying
// at most `tries` candidates derived from the tape.
func searchNonce(t *tape.Tape, addr types.Address, prev types.Hash, d uint64, tries int) ([8]byte, bool) {
	var n [8]byte
	copy(n[:], t.Bytes(8))
	for i := 0; i < tries; i++ {
		if golden.PoWOK(addr, prev, n, d) {
			return n, true
		}
		for j := 0; j < 8; j++ {
			n[j]++
			if n[j] != 0 {
				break
			}
		}
	}
	return n, false
}

var interestingDifficulties = []uint64{1, 2, 1499, 1500, 1501, 3000, 31500000 - 1, 31500000, 94500 * 1500, 94500*1500 + 1,
	1 << 32, 1 << 40, 1<<62 - 1, 1 << 62, 1<<63 - 1, 1 << 63, 1<<63 + 12345, 1<<64 - 1}

type c12Nonce struct {
	prev  types.Hash
	nonce [8]byte
	d     uint64
}

func runC12(r *simrt.Run) {
	r.WatchLocks() // a lock of the node that is never released is a violation, not a hang
	t := r.T
	mode := nomsim.SporkMode(t.Choose(3))
	w := nomsim.NewWorld(r, nomsim.MockGenesis(mode))
	w.EnforceReceiverRule(0)
	p := w.AddNode("P", nomsim.MockPillars(), false)
	wl := nomsim.NewWorkload(w, mode)
	wl.MaxOps = 1 + t.Choose(4)
	abis := contractABIs()
	genesisOffset := oracle.GenesisFusionOffset(w.Gen.PlasmaConfig.Fusions)
	slots := 10 + t.Choose(40)
	if r.Tier == "thorough" {
		slots = 30 + t.Choose(200)
	}
	w.AckDepth = func() int { return []int{0, 0, 1, 3}[t.Choose(4)] }
	// half of the runs let fusions expire after a few momentums: what is fused for an account SHRINKS while
	// it has unconfirmed blocks that were paid with it
	shrink := t.Bool()
	if shrink {
		o := constants.FuseExpiration
		constants.FuseExpiration = uint64(1 + t.Choose(6))
		w.OnClose(func() { constants.FuseExpiration = o })
		r.Probe("knob-short-fusion-expiry")
	}
	var lastUser *wallet.KeyPair

	tried, accepted, powAccepted := 0, 0, 0
	lastNonce := map[types.Address]c12Nonce{}
	attempt := func() {
		u := w.Users[t.Choose(len(w.Users))]
		if lastUser != nil && t.Choose(3) == 0 {
			u = lastUser // several blocks of one account inside one slot
		}
		lastUser = u
		if shrink && t.Choose(4) == 0 {
			// the account cancels one of its fusions (own entries of this run, by id)
			if list, _, err := definition.GetFusionInfoListByOwner(p.Chain.GetFrontierMomentumStore().GetAccountStore(types.PlasmaContract).Storage(), u.Address); err == nil && len(list) > 0 {
				e := list[t.Choose(len(list))]
				if _, err := w.Send(p, u.Address, types.PlasmaContract, types.ZnnTokenStandard, big.NewInt(0), definition.ABIPlasma.PackMethodPanic(definition.CancelFuseMethodName, e.Id)); err == nil {
					r.Probe("cancel-fuse-sent")
				}
			}
		}
		// a user with little or no fused plasma is more interesting half of the time
		accounts := oracle.Accounts(p.Mgr.Frontier())
		tmpl := &nom.AccountBlock{Address: u.Address}
		switch t.Choose(4) {
		case 0: // receive
			hs := w.Unreceived(p, u.Address, 5)
			if len(hs) == 0 {
				return
			}
			tmpl.BlockType = nom.BlockTypeUserReceive
			tmpl.FromBlockHash = hs[t.Choose(len(hs))]
		case 1: // plain send with data
			tmpl.BlockType = nom.BlockTypeUserSend
			tmpl.ToAddress = w.Users[t.Choose(len(w.Users))].Address
			tmpl.TokenStandard = types.ZnnTokenStandard
			tmpl.Amount = big.NewInt(int64(t.Choose(3)))
			tmpl.Data = t.Bytes([]int{0, 1, 10, 100}[t.Choose(4)])
		case 2: // contract call (fuse for somebody / cancel)
			tmpl.BlockType = nom.BlockTypeUserSend
			tmpl.ToAddress = types.PlasmaContract
			tmpl.TokenStandard = types.QsrTokenStandard
			tmpl.Amount = big.NewInt(int64(10+t.Choose(50)) * 100000000)
			tmpl.Data = definition.ABIPlasma.PackMethodPanic(definition.FuseMethodName, w.Users[t.Choose(len(w.Users))].Address)
		case 3: // other contract calls with different base costs
			tmpl.BlockType = nom.BlockTypeUserSend
			tmpl.ToAddress = types.PillarContract
			tmpl.TokenStandard = types.ZnnTokenStandard
			tmpl.Amount = big.NewInt(0)
			if t.Bool() {
				tmpl.Data = definition.ABIPillars.PackMethodPanic(definition.DelegateMethodName, "TEST-pillar-1")
			} else {
				tmpl.Data = definition.ABICommon.PackMethodPanic(definition.CollectRewardMethodName)
			}
		}
		// where the block will sit
		fr := p.Chain.GetFrontierAccountStore(u.Address).Identifier()
		tmpl.PreviousHash, tmpl.Height = fr.Hash, fr.Height+1
		ack := p.Frontier().Identifier()
		if depth := uint64([]int{0, 0, 1, 3, 6}[t.Choose(5)]); depth > 0 && ack.Height > depth+1 {
			// the block acknowledges an older momentum (not older than its predecessor's): what is fused
			// for the account, and what counts as unconfirmed, is judged against THAT momentum
			target := ack.Height - depth
			if prev, err := p.Chain.GetFrontierAccountStore(u.Address).Frontier(); err == nil && prev != nil && prev.MomentumAcknowledged.Height > target {
				target = prev.MomentumAcknowledged.Height
			}
			if m, err := p.Chain.GetFrontierMomentumStore().GetMomentumByHeight(target); err == nil && m != nil {
				ack = m.Identifier()
				r.Probe("attempt-acknowledging-older-momentum")
			}
		}
		tmpl.MomentumAcknowledged = ack
		ms := p.Chain.GetMomentumStore(ack)
		base, baseOK := oracle.GoldenBaseCost(ms, tmpl, abis)
		fusedQsr := oracle.FusedQsrFor(ms, accounts, u.Address)
		if off := genesisOffset[u.Address]; off != nil {
			fusedQsr.Add(fusedQsr, off)
		}
		unc, uncOK := oracle.UncommittedFused(p, tmpl)
		if !uncOK {
			return
		}
		avail := int64(golden.FusedPlasma(fusedQsr)) - int64(unc)
		if avail < 0 {
			avail = 0
		}
		// choose fused plasma and difficulty around the boundaries
		var fused uint64
		switch t.Choose(8) {
		case 0:
			fused = uint64(avail)
		case 1:
			fused = uint64(avail) + 1
		case 2:
			if avail > 0 {
				fused = uint64(avail) - 1
			}
		case 3:
			fused = base
		case 4:
			if base > 0 {
				fused = base - uint64(1+t.Choose(3))
			}
		case 5:
			fused = 0
		case 6:
			fused = golden.MaxPlasmaPerBlock - uint64(t.Choose(2))
		default:
			fused = base + uint64(t.Choose(1000))
		}
		var d uint64
		validNonce := false
		switch t.Choose(6) {
		case 0:
			d = 0
		case 1, 2:
			// exactly enough / one short, small enough to search a nonce
			if base > fused && base-fused <= 40 {
				d = (base - fused) * golden.DifficultyPerPlasma
				if t.Bool() {
					d--
				}
			} else {
				d = uint64(1+t.Choose(20)) * golden.DifficultyPerPlasma
			}
		case 3:
			d = interestingDifficulties[t.Choose(len(interestingDifficulties))]
		case 4:
			d = uint64(1) << uint(t.Choose(64))
			if t.Bool() {
				d += uint64(t.Choose(3)) - 1
			}
		default:
			d = t.Uint64()
		}
		tmpl.FusedPlasma, tmpl.Difficulty = fused, d
		reused := false
		if ln, ok := lastNonce[u.Address]; ok && ln.prev == tmpl.PreviousHash && t.Choose(3) == 0 {
			// the nonce of an earlier attempt on the same previous block (valid for a small difficulty)
			// comes back under a large claimed difficulty
			tmpl.Nonce.Data = ln.nonce
			d = []uint64{base * golden.DifficultyPerPlasma, ln.d * uint64(2+t.Choose(1000)), 1 << 40}[t.Choose(3)]
			if d == 0 {
				d = 1 << 30
			}
			tmpl.Difficulty = d
			validNonce = golden.PoWOK(u.Address, tmpl.PreviousHash, tmpl.Nonce.Data, d)
			reused = true
			r.Probe("attempt-with-reused-nonce")
		}
		if t.Choose(3) == 0 {
			// the informational accounting fields arrive pre-filled (they are outside hash and signature)
			tmpl.BasePlasma = uint64(1 + t.Choose(int(base)+1))
			if t.Bool() {
				tmpl.TotalPlasma = uint64(t.Choose(int(golden.MaxPlasmaPerBlock) + 1))
			}
			r.Probe("attempt-with-prefilled-plasma-fields")
		}
		if d != 0 && !reused {
			if d <= 200000 && t.Choose(4) != 0 {
				tmpl.Nonce.Data, validNonce = searchNonce(t, u.Address, tmpl.PreviousHash, d, int(8*d))
			} else {
				copy(tmpl.Nonce.Data[:], t.Bytes(8))
				validNonce = golden.PoWOK(u.Address, tmpl.PreviousHash, tmpl.Nonce.Data, d)
			}
		}
		if validNonce && !reused && d != 0 && d <= 200000 {
			lastNonce[u.Address] = c12Nonce{prev: tmpl.PreviousHash, nonce: tmpl.Nonce.Data, d: d}
		}
		tried++
		b, err := w.Submit(p, tmpl)
		r.Logf("attempt %s/%d type %d to %s fused=%d (avail %d, base %d) difficulty=%d nonceOK=%v -> accepted=%v", u.Address.String()[:10], tmpl.Height, tmpl.BlockType, tmpl.ToAddress.String()[:10], fused, avail, base, d, validNonce, err == nil)
		if err != nil {
			return
		}
		accepted++
		// the node fills in the base cost when a template asks for neither fused plasma nor PoW
		fused, d = b.FusedPlasma, b.Difficulty
		if d != 0 {
			powAccepted++
		}
		cls := func(c string) string {
			switch {
			case d >= 1<<63:
				return c + "-difficulty>=2^63"
			case d != 0:
				return c + "-with-pow"
			}
			return c
		}
		// (i) proof of work
		if d != 0 && !golden.PoWOK(b.Address, b.PreviousHash, b.Nonce.Data, d) {
			r.Report("plasma-unpaid", cls("pow-threshold"), "block accepted with difficulty %d but its nonce %x does not hash above 2^64-2^64/d", d, b.Nonce.Data)
			if !r.Known["plasma-unpaid|"+cls("pow-threshold")] {
				r.Abort()
			}
			return
		}
		// (ii) total plasma pays the golden base cost
		if !baseOK {
			r.Fail("plasma-unpaid", "no-golden-cost", "accepted a call the pinned tables know no cost for: to %v data %x", b.ToAddress, b.Data[:min(len(b.Data), 4)])
		}
		total := fused + golden.PoWPlasma(d)
		if total < base {
			r.Fail("plasma-unpaid", cls("below-base-cost"), "accepted with fused %d + pow %d = %d below the base cost %d of this block kind", fused, golden.PoWPlasma(d), total, base)
		}
		// (iii) fused part covered by fused QSR minus plasma of unconfirmed blocks
		if int64(fused) > avail {
			r.Fail("plasma-unpaid", "fused-exceeds-available", "accepted with fused plasma %d but fused QSR %v gives %d and %d is committed to unconfirmed blocks", fused, fusedQsr, golden.FusedPlasma(fusedQsr), unc)
		}
		// (iv) cap, and the stored accounting fields
		if total > golden.MaxPlasmaPerBlock {
			r.Fail("plasma-unpaid", "cap", "accepted with total plasma %d above the cap", total)
		}
		if b.TotalPlasma != total || b.BasePlasma != base {
			r.Fail("plasma-fields", "stored", "stored base/total plasma %d/%d differ from the reference %d/%d", b.BasePlasma, b.TotalPlasma, base, total)
		}
	}

	for s := 0; s < slots; s++ {
		t.Span(func() {
			wl.G.RefreshTokens(p)
			wl.Ops(p)
			t.Loop(3, 4, 8, attempt)
			if t.Choose(4) != 0 {
				w.StepSlot()
			}
		})
	}
	r.Probes["attempts"] += tried
	r.Probes["attempts-accepted"] += accepted
	r.Probes["attempts-accepted-with-pow"] += powAccepted
	r.NonTrivial = tried >= 10 && accepted >= 2
	r.Finger = fmt.Sprintf("%s-%d-%d", p.Frontier().Hash.String()[:16], tried, accepted)
	r.Sample["height"] = p.Height()
	r.Sample["tried_accepted_pow"] = []int{tried, accepted, powAccepted}
}
