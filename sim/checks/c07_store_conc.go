package checks

// C07, concurrency part: free-running reader goroutines against one writer
// goroutine on the same manager, inside the synctest bubble.
//
// Interleaving at operation granularity is what the sequential part of the check
// already does (many open views, reads interleaved by the tape with Add/Pop).
// This phase adds real goroutines.  Everything the goroutines do is decided by the
// tape BEFORE they start (reader scripts, writer script), so the event log only
// contains tape-decided things; the actual interleaving is never logged.
//
// What is demanded is schedule-independent:
//   - a reader's pinned views (opened before the phase at versions that stay on the
//     chain during the whole phase) must keep returning model(X) + own writes;
//   - while the writer only adds (mode "adds"), readers also open fresh views at
//     versions below the starting frontier, and frontier views: whatever identifier a
//     frontier view reports must be one of the versions the writer's script produces
//     and its content must be the model state of exactly that identifier;
//   - the manager-level history (Add / Pop by the writer, frontier-identifier reads
//     by the readers, stamped with a global sequence number at invoke and return) must
//     be linearizable against a stack-of-versions model (porcupine; a timeout counts
//     as skipped, never as a violation).
//
// Deliberately NOT done while the writer pops: opening new views or calling
// Frontier() for content. LevelDB Pop does not take the manager lock, so such a
// reader could observe a half-rolled-back store; that is a race the harness cannot
// schedule deterministically at this granularity (see the report), and a check must
// not be flaky. MemDB Frontier() is not called at all while the writer pops (it
// reads the identifier and the version under two separate lock sections).

import (
	"fmt"
	"runtime"
	"runtime/debug"
	"sort"
	"strings"
	"sync"
	"sync/atomic"
	"testing/synctest"
	"time"

	"github.com/anishathalye/porcupine"

	"github.com/zenon-network/go-zenon/common/db"
	"github.com/zenon-network/go-zenon/common/types"
)

const (
	c07ropLookup = iota
	c07ropScan
	c07ropFreshOpen
	c07ropFrontierFull
	c07ropFrontierID
)

type c07rop struct {
	kind  int
	view  int
	key   string
	ver   *c07ver
	yield bool
}

type c07hin struct {
	kind       string // add | pop | frontier
	parent, id string
}

type c07hout struct {
	ok bool
	id string
}

type c07reader struct {
	pins   []*c07view
	ops    []c07rop
	rounds int

	fail     *c07mis
	failView *c07view
	d8, d12  *c07mis
	hist     []porcupine.Operation
	done     int
}

type c07wstep struct {
	pop    bool
	plan   *c07plan
	writes []c07patchOp
	ver    *c07ver // version produced by an add
	parent *c07ver
	yield  bool
}

func c07panicSite(st string) string {
	for _, l := range strings.Split(st, "\n") {
		l = strings.TrimSpace(l)
		if i := strings.Index(l, "/common/db/"); i >= 0 && strings.Contains(l, ".go:") {
			s := l[i+1:]
			if j := strings.Index(s, ".go:"); j >= 0 {
				return s[:j+3]
			}
		}
	}
	return "unknown"
}

func (c *c07) concurrentPhase() {
	t := c.t
	c.concPhases++
	if c.needReopen {
		c.reopen(false)
	}
	nReaders := 1 + t.Choose(3)
	withPops := t.Bool()
	nSteps := 2 + t.Choose(7)
	if withPops && (c.popPolicy != c07PopPolicyFree || len(c.chain) < 2) {
		withPops = false
	}

	// ---- writer script and the versions it will produce --------------------------
	sim := append([]*c07ver(nil), c.chain...)
	minLen := len(sim)
	var initStack []string
	for _, v := range c.chain {
		initStack = append(initStack, c07id(v.id))
	}
	var script []*c07wstep
	for i := 0; i < nSteps; i++ {
		t.Span(func() {
			st := &c07wstep{yield: t.Bool()}
			if withPops && len(sim) > 1 && t.Choose(5) < 2 {
				st.pop = true
				sim = sim[:len(sim)-1]
				if len(sim) < minLen {
					minLen = len(sim)
				}
			} else {
				top := sim[len(sim)-1]
				n := 1 + t.Choose(3)
				ov := map[string]c07w{}
				for j := 0; j < n; j++ {
					k := c.genKey()
					if t.Choose(4) == 3 {
						st.writes = append(st.writes, c07patchOp{k, c07w{del: true}})
						ov[k] = c07w{del: true}
					} else {
						val := c.genValue()
						st.writes = append(st.writes, c07patchOp{k, c07w{val: val}})
						ov[k] = c07w{val: val}
					}
				}
				st.plan = c.planCommit(top.id, 1)
				st.parent = top
				st.ver = c07makeVersion(top, st.plan, c07apply(top.state, ov))
				sim = append(sim, st.ver)
			}
			script = append(script, st)
		})
	}
	allowed := map[types.HashHeight]*c07ver{}
	for _, v := range c.chain {
		allowed[v.id] = v
	}
	for _, st := range script {
		if st.ver != nil {
			allowed[st.ver.id] = st.ver
		}
	}
	mode := "adds"
	if withPops {
		mode = "adds+pops"
	}
	var sdesc []string
	for _, st := range script {
		if st.pop {
			sdesc = append(sdesc, "pop")
		} else {
			sdesc = append(sdesc, fmt.Sprintf("add %s{%s}", c07id(st.ver.id), c07ops(st.writes)))
		}
	}
	c.logf("concurrent phase %d: %d readers, writer %s [%s]; versions below chain index %d stay on the chain", c.concPhases, nReaders, mode, strings.Join(sdesc, "; "), minLen)

	// ---- readers: pinned views (opened now) and scripts ---------------------------
	// Fresh historical opens are only scripted when no Pop has happened since the LevelDB
	// manager was opened: the manager does not invalidate its rollback caches on Pop, so
	// after a Pop the content of a view opened while the writer re-commits depends on
	// whether the open happens before or after the re-commit (the sequential part reports
	// that finding deterministically; here it would make the verdict schedule-dependent).
	freshOK := !withPops && !(c.kind == c07LevelDB && c.popsInGen > 0)
	frontierIDOK := !withPops || c.kind == c07LevelDB
	readers := make([]*c07reader, nReaders)
	for ri := range readers {
		rd := &c07reader{rounds: 1 + t.Choose(4)}
		readers[ri] = rd
		np := 1 + t.Choose(3)
		for j := 0; j < np; j++ {
			t.Span(func() {
				idx := minLen - 1 - t.Choose(min(minLen, 6))
				ver := c.chain[idx]
				if ver.id.IsZero() && c.kind == c07MemDB && idx != 0 {
					ver = c.chain[0]
				}
				v := c.openAt(ver, t.Bool())
				nw := t.Choose(3)
				for k := 0; k < nw; k++ {
					t.Span(func() { c.write(v) })
				}
				c.logf("  reader %d pins %s", ri, v)
				c.fullCompare(v, t.Choose(3) == 0) // correct before the phase starts
				rd.pins = append(rd.pins, v)
			})
		}
		nops := 2 + t.Choose(8)
		for j := 0; j < nops; j++ {
			t.Span(func() {
				op := c07rop{yield: t.Choose(3) != 0, view: t.Choose(len(rd.pins))}
				op.kind = t.Pick([]int{4, 4, 2, 2, 2})
				switch op.kind {
				case c07ropLookup:
					pv := rd.pins[op.view]
					if t.Bool() {
						op.key = c.genKey()
					} else if ex := pv.expected(""); len(ex) > 0 {
						op.key = ex[t.Choose(len(ex))].k
					}
					if !c.lookupAllowed(pv, op.key) {
						op.kind = c07ropScan
						op.key = ""
					}
				case c07ropScan:
					op.key = c.genPrefix()
				case c07ropFreshOpen:
					// a version strictly below the starting frontier: historical for the whole phase
					idx := 0
					if len(c.chain) > 1 {
						idx = len(c.chain) - 2 - t.Choose(min(len(c.chain)-1, 8))
					}
					op.ver = c.chain[idx]
					op.key = c.genPrefix()
					if !freshOK || len(c.chain) < 2 || (op.ver.id.IsZero() && c.kind == c07MemDB && idx != 0) {
						op.kind = c07ropScan
					}
				case c07ropFrontierFull:
					if !freshOK {
						op.kind = c07ropScan
					}
				case c07ropFrontierID:
					if !frontierIDOK {
						op.kind = c07ropScan
					}
				}
				rd.ops = append(rd.ops, op)
			})
		}
		var od []string
		for _, op := range rd.ops {
			switch op.kind {
			case c07ropLookup:
				od = append(od, fmt.Sprintf("lookup(pin%d,%q)", op.view, op.key))
			case c07ropScan:
				od = append(od, fmt.Sprintf("scan(pin%d,%q)", op.view, op.key))
			case c07ropFreshOpen:
				od = append(od, fmt.Sprintf("open(%s)+scan(%q)", c07id(op.ver.id), op.key))
			case c07ropFrontierFull:
				od = append(od, "frontier-content")
			case c07ropFrontierID:
				od = append(od, "frontier-id")
			}
		}
		c.logf("  reader %d: %d rounds of [%s]", ri, rd.rounds, strings.Join(od, " "))
	}

	// ---- run ----------------------------------------------------------------
	var seq atomic.Int64
	var wg sync.WaitGroup
	start := make(chan struct{})
	mgr := c.m
	kind := c.kind
	startFrontierHeight := c.frontier().id.Height

	record := func(rd *c07reader, v *c07view, m *c07mis) (stop bool) {
		switch {
		case m == nil:
		case m.d12:
			if rd.d12 == nil {
				rd.d12 = m
			}
		case m.d8:
			if rd.d8 == nil {
				rd.d8 = m
			}
		default:
			rd.fail, rd.failView = m, v
			return true
		}
		return false
	}
	for ri, rd := range readers {
		wg.Add(1)
		go func(ri int, rd *c07reader) {
			defer wg.Done()
			defer func() {
				if p := recover(); p != nil {
					rd.fail = &c07mis{clause: "panic-in-concurrent-phase", what: "reader:" + c07panicSite(string(debug.Stack())), detail: fmt.Sprintf("reader %d: %v", ri, p)}
				}
			}()
			<-start
			for round := 0; round < rd.rounds; round++ {
				for _, op := range rd.ops {
					switch op.kind {
					case c07ropLookup:
						pv := rd.pins[op.view]
						if record(rd, pv, c07cmpLookup(pv, op.key)) {
							return
						}
					case c07ropScan:
						pv := rd.pins[op.view]
						if record(rd, pv, c07cmpScan(pv, op.key)) {
							return
						}
					case c07ropFreshOpen:
						d := mgr.Get(op.ver.id)
						hist := kind == c07LevelDB && !op.ver.id.IsZero()
						class := "memdb"
						if hist {
							class = "historical"
						} else if kind == c07LevelDB {
							class = "zero"
						}
						fv := &c07view{id: -1 - ri, d: d, n: &c07node{base: op.ver, overlay: map[string]c07w{}, hist: hist, class: class}}
						if d == nil {
							rd.fail, rd.failView = &c07mis{clause: "open-view", what: "nil-for-version-on-chain", detail: fmt.Sprintf("reader %d: Get(%s) returned nil while a writer was adding commits", ri, c07id(op.ver.id))}, fv
							return
						}
						if record(rd, fv, c07cmpScan(fv, op.key)) || record(rd, fv, c07cmpScan(fv, "")) {
							return
						}
					case c07ropFrontierFull:
						d := mgr.Frontier()
						if d == nil {
							rd.fail = &c07mis{clause: "concurrent-frontier", what: "nil", detail: fmt.Sprintf("reader %d: Frontier() returned nil while a writer was adding commits", ri)}
							return
						}
						id := db.GetFrontierIdentifier(d)
						ver := allowed[id]
						if ver == nil || ver.id.Height < startFrontierHeight {
							rd.fail = &c07mis{clause: "concurrent-frontier", what: "unknown-identifier", detail: fmt.Sprintf("reader %d: a frontier view reports identifier %s which is none of the versions the writer produces", ri, c07id(id))}
							return
						}
						class := "frontier"
						if kind == c07MemDB {
							class = "memdb"
						}
						fv := &c07view{id: -1 - ri, d: d, n: &c07node{base: ver, overlay: map[string]c07w{}, class: class}}
						if record(rd, fv, c07cmpScan(fv, "")) {
							return
						}
					case c07ropFrontierID:
						call := seq.Add(1)
						d := mgr.Frontier()
						out := c07hout{id: "nil"}
						if d != nil {
							out.id = c07id(db.GetFrontierIdentifier(d))
						}
						ret := seq.Add(1)
						rd.hist = append(rd.hist, porcupine.Operation{ClientId: ri + 1, Input: c07hin{kind: "frontier"}, Call: call, Output: out, Return: ret})
					}
					rd.done++
					if op.yield {
						runtime.Gosched()
					}
				}
			}
		}(ri, rd)
	}
	var wfail *c07mis
	var whist []porcupine.Operation
	wg.Add(1)
	go func() {
		defer wg.Done()
		defer func() {
			if p := recover(); p != nil {
				wfail = &c07mis{clause: "panic-in-concurrent-phase", what: "writer:" + c07panicSite(string(debug.Stack())), detail: fmt.Sprintf("writer: %v", p)}
			}
		}()
		<-start
		for i, st := range script {
			if st.yield {
				runtime.Gosched()
			}
			if st.pop {
				call := seq.Add(1)
				err := mgr.Pop()
				ret := seq.Add(1)
				whist = append(whist, porcupine.Operation{ClientId: 0, Input: c07hin{kind: "pop"}, Call: call, Output: c07hout{ok: err == nil}, Return: ret})
				if err != nil {
					wfail = &c07mis{clause: "pop", what: "error", detail: fmt.Sprintf("writer step %d: Pop returned %v", i, err)}
					return
				}
				continue
			}
			f := mgr.Frontier()
			if f == nil {
				wfail = &c07mis{clause: "concurrent-frontier", what: "nil", detail: fmt.Sprintf("writer step %d: Frontier() returned nil", i)}
				return
			}
			for _, w := range st.writes {
				var err error
				if w.w.del {
					err = f.Delete([]byte(w.key))
				} else {
					err = f.Put([]byte(w.key), w.w.val)
				}
				if err != nil {
					wfail = &c07mis{clause: "view-write", what: "error", detail: fmt.Sprintf("writer step %d: %v", i, err)}
					return
				}
			}
			p, err := f.Changes()
			if err != nil {
				wfail = &c07mis{clause: "changes", what: "error", detail: fmt.Sprintf("writer step %d: %v", i, err)}
				return
			}
			if st.yield {
				runtime.Gosched()
			}
			call := seq.Add(1)
			err = mgr.Add(st.plan.tx(p))
			ret := seq.Add(1)
			whist = append(whist, porcupine.Operation{ClientId: 0, Input: c07hin{kind: "add", parent: c07id(st.parent.id), id: c07id(st.ver.id)}, Call: call, Output: c07hout{ok: err == nil}, Return: ret})
			if err != nil {
				wfail = &c07mis{clause: "add-on-frontier", what: "refused-" + c.kindName(), detail: fmt.Sprintf("writer step %d: Add of %s on the frontier %s returned %v", i, c07id(st.ver.id), c07id(st.parent.id), err)}
				return
			}
		}
	}()
	// Quiesce before the goroutines start: goleveldb delays a write by time.Sleep(1ms) while
	// too many level-0 tables wait for compaction (every reopen adds one). Inside the bubble
	// that sleep ends only when every goroutine is durably blocked, and a reader waiting for
	// the manager's sync.Mutex (held by the sleeping writer) is not — the phase would hang.
	// After Wait() the compaction goroutines are idle, and the phase's few small writes
	// cannot create new tables.
	synctest.Wait()
	close(start)
	wg.Wait()

	// ---- verdicts (deterministic order: writer, then readers by index) --------------
	if wfail != nil {
		c.r.Fail(wfail.clause, wfail.what, "concurrent phase (%s): %s", mode, wfail.detail)
	}
	for _, rd := range readers {
		if rd.d12 != nil {
			c.settle(nil, rd.d12)
		}
		if rd.d8 != nil {
			c.settle(nil, rd.d8)
		}
	}
	for ri, rd := range readers {
		if rd.fail == nil {
			continue
		}
		m := rd.fail
		m.detail = fmt.Sprintf("concurrent phase (%s), reader %d: %s", mode, ri, m.detail)
		if rd.failView != nil {
			c.viewMismatch(rd.failView, m.clause, "concurrent-"+m.what, "%s", m.detail)
		}
		c.r.Fail(m.clause, m.what, "%s", m.detail)
	}
	// the model follows the writer's script
	for _, st := range script {
		if st.pop {
			c.modelPop()
			c.r.Probe("pop")
		} else {
			c.pushVer(st.ver, st.plan)
		}
	}
	total := 0
	for _, rd := range readers {
		total += rd.done
		c.histReads += rd.done
	}
	c.r.Probes["concurrent-reader-ops"] += total
	c.r.Probe("concurrent-phase-" + mode)

	// ---- linearizability of the manager-level history ------------------------------
	var ops []porcupine.Operation
	ops = append(ops, whist...)
	nReads := 0
	for _, rd := range readers {
		ops = append(ops, rd.hist...)
		nReads += len(rd.hist)
	}
	if nReads > 0 {
		init := initStack
		model := porcupine.Model{
			Init: func() interface{} { return strings.Join(init, ",") },
			Step: func(state, input, output interface{}) (bool, interface{}) {
				s := state.(string)
				in := input.(c07hin)
				out := output.(c07hout)
				top := s
				if i := strings.LastIndex(s, ","); i >= 0 {
					top = s[i+1:]
				}
				switch in.kind {
				case "add":
					if in.parent == top {
						return out.ok, s + "," + in.id
					}
					return !out.ok, s
				case "pop":
					if i := strings.LastIndex(s, ","); i >= 0 {
						return out.ok, s[:i]
					}
					return !out.ok, s
				default:
					return out.id == top, s
				}
			},
			DescribeOperation: func(input, output interface{}) string {
				return fmt.Sprintf("%+v -> %+v", input, output)
			},
		}
		sort.SliceStable(ops, func(i, j int) bool { return ops[i].Call < ops[j].Call })
		res := porcupine.CheckOperationsTimeout(model, ops, 10*time.Second)
		switch res {
		case porcupine.Unknown:
			c.r.Skip("porcupine-timeout")
		case porcupine.Illegal:
			var hd []string
			for _, o := range ops {
				hd = append(hd, fmt.Sprintf("[%d,%d] client %d %+v -> %+v", o.Call, o.Return, o.ClientId, o.Input, o.Output))
			}
			c.r.Fail("manager-history", "not-linearizable-"+c.kindName(), "concurrent phase (%s): the history of Add/Pop/frontier-identifier reads is not linearizable against a stack of versions starting from [%s]:\n%s", mode, strings.Join(init, ","), strings.Join(hd, "\n"))
		default:
			c.r.Probe("porcupine-history-checked")
			c.r.Probes["porcupine-operations"] += len(ops)
		}
	}

	// ---- after the phase: the frontier and the pinned views, sequentially -------------
	c.logf("concurrent phase %d done: frontier %s, chain length %d", c.concPhases, c07id(c.frontier().id), len(c.chain))
	c.checkFrontier(true)
	for _, rd := range readers {
		for _, pv := range rd.pins {
			c.fullCompare(pv, false)
			c.track(pv)
		}
	}
}
