// Package checks holds one run function per property plus the worker that
// executes them.
package checks

import "verif/sim/simrt"

type Prop struct {
	ID      string
	Run     func(r *simrt.Run)
	wrapped bool
}

// wrapC15 is installed by c15_lower_hook.go; the worker calls it before dispatch.
var wrapC15 func()

var Registry = map[string]*Prop{}

func register(id string, run func(r *simrt.Run)) {
	Registry[id] = &Prop{ID: id, Run: run}
}
