package checks

// Ground truth for C18 and the generic page/range judge. Nothing in this file
// calls rpc/api: the ledger is read with store primitives (account chains by
// ByHeight, momentums by GetMomentumByHeight, momentum contents) and contract
// storage with the definition.* iterators; every slice bound is computed in
// 64-bit arithmetic with explicit overflow checks.

import (
	"bytes"
	"crypto/sha256"
	"encoding/hex"
	"fmt"
	"math/big"
	"runtime/debug"
	"sort"
	"strings"

	"github.com/zenon-network/go-zenon/chain/nom"
	"github.com/zenon-network/go-zenon/chain/store"
	"github.com/zenon-network/go-zenon/common/db"
	"github.com/zenon-network/go-zenon/common/types"
	"github.com/zenon-network/go-zenon/rpc/api"
	"github.com/zenon-network/go-zenon/vm/embedded/definition"

	"verif/sim/simnode"
	"verif/sim/simrt"
)

type c18Truth struct {
	p        *simnode.Node
	ms       store.Momentum
	frontier *nom.Momentum
	moms     []*nom.Momentum // moms[h-1] has height h
	momBy    map[types.Hash]*nom.Momentum

	accounts  []types.Address                       // every address with at least one block (pool view), sorted
	chain     map[types.Address][]*nom.AccountBlock // pool view, ascending height
	confirmed map[types.Address]int                 // length of the confirmed prefix
	blockBy   map[types.Hash]*nom.AccountBlock      // pool view
	confAt    map[types.Hash]uint64                 // block hash -> height of the confirming momentum
	recvOf    map[types.Hash]*nom.AccountBlock      // send hash -> confirmed block that receives it
	nBlocks   int
	nPool     int

	tokens  []*definition.TokenInfo // storage order
	tokenBy map[types.ZenonTokenStandard]*definition.TokenInfo

	lastEpochMax int64
}

func c18Ser(b *nom.AccountBlock) string {
	d, err := b.Serialize()
	if err != nil {
		return "serialize-error:" + err.Error()
	}
	s := sha256.Sum256(d)
	return hex.EncodeToString(s[:12])
}

func c18SerMom(m *nom.Momentum) string {
	d, err := m.Serialize()
	if err != nil {
		return "serialize-error:" + err.Error()
	}
	s := sha256.Sum256(d)
	return hex.EncodeToString(s[:12])
}

func buildC18Truth(r *simrt.Run, p *simnode.Node) *c18Truth {
	tr := &c18Truth{p: p, ms: p.Chain.GetFrontierMomentumStore(), momBy: map[types.Hash]*nom.Momentum{},
		chain: map[types.Address][]*nom.AccountBlock{}, confirmed: map[types.Address]int{}, blockBy: map[types.Hash]*nom.AccountBlock{},
		confAt: map[types.Hash]uint64{}, recvOf: map[types.Hash]*nom.AccountBlock{}, tokenBy: map[types.ZenonTokenStandard]*definition.TokenInfo{},
		lastEpochMax: -1}
	tr.frontier = p.Frontier()
	var prev *nom.Momentum
	for h := uint64(1); h <= tr.frontier.Height; h++ {
		m, err := tr.ms.GetMomentumByHeight(h)
		if err != nil || m == nil {
			r.Fail("truth", "momentum-missing", "no momentum at height %d below frontier %d: %v", h, tr.frontier.Height, err)
		}
		if m.Height != h || (prev != nil && m.PreviousHash != prev.Hash) || m.ComputeHash() != m.Hash {
			r.Fail("truth", "momentum-chain-broken", "momentum at height %d does not link to its predecessor or its hash is wrong", h)
		}
		tr.moms = append(tr.moms, m)
		tr.momBy[m.Hash] = m
		for _, hd := range m.Content {
			tr.confAt[hd.Hash] = h
		}
		prev = m
	}
	accs := poolAccounts(p)
	sort.Slice(accs, func(i, j int) bool { return bytes.Compare(accs[i][:], accs[j][:]) < 0 })
	for _, a := range accs {
		as := p.Chain.GetFrontierAccountStore(a)
		var list []*nom.AccountBlock
		for h := uint64(1); ; h++ {
			b, err := as.ByHeight(h)
			if err != nil {
				r.Fail("truth", "account-chain-unreadable", "%v height %d: %v", a, h, err)
			}
			if b == nil {
				break
			}
			if b.Height != h || b.Address != a {
				r.Fail("truth", "account-chain-broken", "%v: block stored at height %d says height %d address %v", a, h, b.Height, b.Address)
			}
			list = append(list, b)
			tr.blockBy[b.Hash] = b
		}
		if len(list) == 0 {
			continue
		}
		conf := int(tr.ms.GetAccountStore(a).Identifier().Height)
		if conf > len(list) {
			r.Fail("truth", "pool-behind-ledger", "%v: confirmed height %d above pool frontier %d", a, conf, len(list))
		}
		for i, b := range list {
			_, isConf := tr.confAt[b.Hash]
			if isConf != (i < conf) {
				r.Fail("truth", "confirmation-index", "%v height %d: listed in a momentum=%v but confirmed prefix is %d", a, b.Height, isConf, conf)
			}
			if i < conf && (b.BlockType == nom.BlockTypeUserReceive || b.BlockType == nom.BlockTypeContractReceive) {
				tr.recvOf[b.FromBlockHash] = b
			}
		}
		tr.accounts = append(tr.accounts, a)
		tr.chain[a] = list
		tr.confirmed[a] = conf
		tr.nBlocks += len(list)
		tr.nPool += len(list) - conf
	}
	toks, err := definition.GetTokenInfoList(tr.confirmedStorage(types.TokenContract))
	if err != nil {
		r.Fail("truth", "token-list", "%v", err)
	}
	tr.tokens = toks
	for _, tk := range toks {
		tr.tokenBy[tk.TokenStandard] = tk
	}
	return tr
}

// storage is the storage of an embedded contract at the contract account's
// frontier, i.e. including the contract receives that are still in the pool:
// this is the view the embedded APIs document ("frontier context").
func (tr *c18Truth) storage(contract types.Address) db.DB {
	return tr.p.Chain.GetFrontierAccountStore(contract).Storage()
}

// confirmedStorage is the contract storage as of the frontier momentum.
func (tr *c18Truth) confirmedStorage(contract types.Address) db.DB {
	return tr.ms.GetAccountStore(contract).Storage()
}

// unreceived lists the confirmed sends addressed to a that no block of a's
// chain receives. For user accounts the pool view of a's chain counts (a wallet
// must not be offered a send it has already received in a pooled block). For
// embedded contracts, whose receives are produced by the pillars, the confirmed
// view counts: a receive that is only pooled leaves the send unreceived "at the
// frontier", and either reading satisfies the statement.
func (tr *c18Truth) unreceived(a types.Address) []*nom.AccountBlock {
	got := map[types.Hash]bool{}
	for i, b := range tr.chain[a] {
		if types.IsEmbeddedAddress(a) && i >= tr.confirmed[a] {
			break
		}
		if b.BlockType == nom.BlockTypeUserReceive || b.BlockType == nom.BlockTypeContractReceive {
			got[b.FromBlockHash] = true
		}
	}
	var out []*nom.AccountBlock
	for _, from := range tr.accounts {
		for i, b := range tr.chain[from] {
			if i >= tr.confirmed[from] {
				break
			}
			if nom.IsSendBlock(b.BlockType) && b.ToAddress == a && !got[b.Hash] {
				out = append(out, b)
			}
		}
	}
	sort.Slice(out, func(i, j int) bool { return bytes.Compare(out[i].Hash[:], out[j].Hash[:]) < 0 })
	return out
}

func c18Token(t *definition.TokenInfo) string {
	return fmt.Sprintf("%v|%q|%q|%q|%v|%v|%d|%v|%v%v%v", t.TokenStandard, t.TokenName, t.TokenSymbol, t.TokenDomain, t.TotalSupply, t.MaxSupply, t.Decimals, t.Owner, t.IsBurnable, t.IsMintable, t.IsUtility)
}

func c18ApiToken(t *api.Token) string {
	if t == nil {
		return "<nil>"
	}
	return fmt.Sprintf("%v|%q|%q|%q|%v|%v|%d|%v|%v%v%v", t.ZenonTokenStandard, t.TokenName, t.TokenSymbol, t.TokenDomain, t.TotalSupply, t.MaxSupply, t.Decimals, t.Owner, t.IsBurnable, t.IsMintable, t.IsUtility)
}

// judgeBlock compares one API account block (ledger part, token, confirmation
// detail, paired block) with the truth block. Empty string = equal.
func (tr *c18Truth) judgeBlock(got *api.AccountBlock, want *nom.AccountBlock, deep bool) string {
	if got == nil {
		return "nil element"
	}
	if got.Hash != want.Hash || c18Ser(&got.AccountBlock) != c18Ser(want) {
		return fmt.Sprintf("ledger fields differ: got %v h%d (%s) want %v h%d (%s)", got.Hash, got.Height, c18Ser(&got.AccountBlock), want.Hash, want.Height, c18Ser(want))
	}
	if want.TokenStandard != types.ZeroTokenStandard && tr.tokenBy[want.TokenStandard] != nil {
		if got.TokenInfo == nil || c18ApiToken(got.TokenInfo) != c18Token(tr.tokenBy[want.TokenStandard]) {
			return fmt.Sprintf("token info of %v: got %s want %s", want.Hash, c18ApiToken(got.TokenInfo), c18Token(tr.tokenBy[want.TokenStandard]))
		}
	} else if got.TokenInfo != nil {
		return fmt.Sprintf("token info present for non-existent token %v", want.TokenStandard)
	}
	if at, ok := tr.confAt[want.Hash]; ok {
		m := tr.moms[at-1]
		d := got.ConfirmationDetail
		if d == nil || d.MomentumHeight != at || d.MomentumHash != m.Hash || d.MomentumTimestamp != int64(m.TimestampUnix) || d.NumConfirmations != tr.frontier.Height-at+1 {
			return fmt.Sprintf("confirmation detail of %v: got %+v want momentum %d %v ts %d confirmations %d", want.Hash, d, at, m.Hash, m.TimestampUnix, tr.frontier.Height-at+1)
		}
	} else if got.ConfirmationDetail != nil {
		return fmt.Sprintf("confirmation detail %+v on unconfirmed block %v", got.ConfirmationDetail, want.Hash)
	}
	if !deep || want.BlockType == nom.BlockTypeGenesisReceive {
		return ""
	}
	pair := tr.pairOf(want)
	if pair == nil {
		if got.PairedAccountBlock != nil {
			return fmt.Sprintf("paired block %v reported for %v but the ledger has none", got.PairedAccountBlock.Hash, want.Hash)
		}
		return ""
	}
	if got.PairedAccountBlock == nil {
		return fmt.Sprintf("paired block of %v missing (ledger has %v)", want.Hash, pair.Hash)
	}
	if s := tr.judgeBlock(got.PairedAccountBlock, pair, false); s != "" {
		return "paired block: " + s
	}
	return ""
}

func (tr *c18Truth) judgeMomentum(got *api.Momentum, want *nom.Momentum) string {
	if got == nil || got.Momentum == nil {
		return "nil element"
	}
	if got.Hash != want.Hash || c18SerMom(got.Momentum) != c18SerMom(want) {
		return fmt.Sprintf("momentum differs: got %v h%d want %v h%d", got.Hash, got.Height, want.Hash, want.Height)
	}
	if got.Producer != types.PubKeyToAddress(want.PublicKey) {
		return fmt.Sprintf("producer of %v: got %v", want.Hash, got.Producer)
	}
	return ""
}

// ---------------------------------------------------------------------------
// the page judge

// window returns [lo,hi) = truth[index*size : min((index+1)*size, n)] computed
// without overflow.
func c18Window(index, size, n uint64) (uint64, uint64) {
	start := new(big.Int).Mul(new(big.Int).SetUint64(index), new(big.Int).SetUint64(size))
	if start.Cmp(new(big.Int).SetUint64(n)) >= 0 {
		return n, n
	}
	lo := start.Uint64()
	if size >= n-lo {
		return lo, n
	}
	return lo, lo + size
}

// rangeWindow returns the indices [lo,hi) into a 1-based sequence of n
// elements covered by heights height .. height+count-1 (no wrap-around: heights
// above 2^64-1 do not exist).
func c18RangeWindow(height, count, n uint64) (uint64, uint64) {
	if height == 0 || height > n || count == 0 {
		return 0, 0
	}
	lo := height - 1
	if count >= n-lo {
		return lo, n
	}
	return lo, lo + count
}

type c18Elem struct {
	ID  string // identity (used for "each element exactly once")
	Key string // documented sort key; elements with equal keys may appear in any relative order
	Val string // full canonical value
	// Odd marks ledger content that is valid but unusual (a block that names a
	// token standard no token was ever issued under): when a query over such
	// content is refused, the refusal is reported under its own signature.
	Odd string
}

func c18Odd(es []c18Elem) string {
	for _, e := range es {
		if e.Odd != "" {
			return e.Odd
		}
	}
	return ""
}

// refused reports an error answer to a request whose parameters are within the
// advertised limits.
func (c *c18) refused(clause, class, odd, format string, a ...any) {
	msg := fmt.Sprintf(format, a...)
	for _, e := range []error{api.ErrPageSizeParamTooBig, api.ErrPageIndexParamTooBig, api.ErrCountParamTooBig, api.ErrHeightParamIsZero} {
		if strings.Contains(msg, e.Error()) {
			odd = "" // a complaint about the parameters cannot be blamed on the content
		}
	}
	if odd != "" {
		c.r.Report("query-refused", odd, "%s — the requested window contains valid ledger content of kind %q and the whole query fails because of it", fmt.Sprintf(format, a...), odd)
		return
	}
	c.r.Report(clause, "in-range-request-refused/"+class, format, a...)
}

// unknownToken: the block names a non-zero token standard that does not exist.
func (tr *c18Truth) unknownToken(b *nom.AccountBlock) bool {
	return b != nil && b.TokenStandard != types.ZeroTokenStandard && tr.tokenBy[b.TokenStandard] == nil
}

func (tr *c18Truth) pairOf(b *nom.AccountBlock) *nom.AccountBlock {
	if b.BlockType == nom.BlockTypeGenesisReceive {
		return nil
	}
	if nom.IsSendBlock(b.BlockType) {
		return tr.recvOf[b.Hash]
	}
	if s := tr.blockBy[b.FromBlockHash]; s != nil {
		if _, ok := tr.confAt[s.Hash]; ok {
			return s
		}
	}
	return nil
}

func (tr *c18Truth) odd(b *nom.AccountBlock) string {
	if tr.unknownToken(b) || tr.unknownToken(tr.pairOf(b)) {
		return "block-with-unknown-token"
	}
	return ""
}

type c18List struct {
	API      string // e.g. "embedded.token.getAll"
	Class    string // stable class used in violation signatures
	Limit    uint64 // advertised maximum page size (0 = none advertised)
	MaxIndex uint64 // page index must be below this (0 = unlimited)
	Truth    []c18Elem
	Total    int64 // expected total; <0 = not judged
	Call     func(index, size uint32) ([]c18Elem, int64, error)
	// WholeListScope: see oddScope
	WholeListScope bool
}

// oddScope: which elements a refusal may be blamed on. Implementations are free
// to materialise the whole list before slicing it, so for unordered lists the
// whole list is in scope, for ordered ones the requested window.
func (l *c18List) oddScope(window []c18Elem) []c18Elem {
	if l.WholeListScope {
		return l.Truth
	}
	return window
}

type c18Panic struct {
	v     any
	stack string
}

func c18Safe(f func()) (p *c18Panic) {
	defer func() {
		if v := recover(); v != nil {
			p = &c18Panic{v, string(debug.Stack())}
		}
	}()
	f()
	return nil
}

func c18Short(st string) string {
	lines := strings.Split(st, "\n")
	var keep []string
	for _, l := range lines {
		if strings.Contains(l, "/rpc/") || strings.Contains(l, "/chain/") || strings.Contains(l, "/vm/") || strings.Contains(l, "/common/") {
			keep = append(keep, strings.TrimSpace(l))
		}
		if len(keep) >= 6 {
			break
		}
	}
	return strings.Join(keep, " <- ")
}

func (c *c18) boundaryUsed(vs ...uint64) {
	for _, v := range vs {
		if v >= 1<<16 {
			c.r.Probe("boundary-param-used")
			return
		}
	}
}

// page judges one paged call.
func (c *c18) page(l *c18List, index, size uint32) {
	r := c.r
	r.Probe("api." + l.API)
	c.boundaryUsed(uint64(index), uint64(size))
	var (
		items []c18Elem
		total int64
		err   error
	)
	n := uint64(len(l.Truth))
	lo, hi := c18Window(uint64(index), uint64(size), n)
	want := l.Truth[lo:hi]
	overLimit := l.Limit > 0 && uint64(size) > l.Limit
	overIndex := l.MaxIndex > 0 && uint64(index) >= l.MaxIndex
	if p := c18Safe(func() { items, total, err = l.Call(index, size) }); p != nil {
		c.note("%s(index=%d,size=%d) PANIC %v", l.API, index, size, p.v)
		if overLimit || overIndex || (len(want) == 0 && index != 0) {
			// The server turns a panic of the method into the error answer "method
			// handler crashed" (callback.call); for parameters outside the advertised
			// limits an error answer is all the statement asks for. Phase C checks
			// that the recover is really there.
			r.Probe("handler-panic-on-out-of-range-params." + l.API)
			return
		}
		r.Report("api-panic", l.Class, "%s(pageIndex=%d, pageSize=%d) panicked: %v at %s", l.API, index, size, p.v, c18Short(p.stack))
		return
	}
	if err != nil {
		c.note("%s(index=%d,size=%d) n=%d -> error %v", l.API, index, size, n, err)
		if strings.HasPrefix(err.Error(), "C18-TOTALS") {
			r.Report("paging", "wrong-total/"+l.Class, "%s(pageIndex=%d, pageSize=%d): aggregate amounts differ from the sum over the entries in storage: %v", l.API, index, size, err)
		} else if overLimit || overIndex {
			// the documented refusal
		} else if len(want) == 0 && index != 0 {
			r.Probe("error-for-page-beyond-end." + l.API) // not wrong data; tolerated
		} else {
			c.refused("paging", l.Class, c18Odd(l.oddScope(want)), "%s(pageIndex=%d, pageSize=%d) over a list of %d elements returned error %q although both parameters are within the advertised limits (size<=%d)", l.API, index, size, n, err, l.Limit)
		}
		return
	}
	c.note("%s(index=%d,size=%d) n=%d -> %d items total %d", l.API, index, size, n, len(items), total)
	c.compared++
	if overLimit || overIndex {
		r.Probe("over-limit-accepted." + l.API)
	}
	if l.Limit > 0 && uint64(len(items)) > l.Limit {
		r.Report("bounded", "more-than-limit/"+l.Class, "%s(pageIndex=%d, pageSize=%d) returned %d elements, advertised limit %d", l.API, index, size, len(items), l.Limit)
		return
	}
	if len(items) != len(want) {
		if len(want) == 0 {
			r.Report("paging", "far-page-returns-data/"+l.Class, "%s(pageIndex=%d, pageSize=%d): the list has %d elements, so elements [%d·%d, …) do not exist and the page must be empty, but %d elements were returned (first: %s)", l.API, index, size, n, index, size, len(items), items[0].Val)
		} else {
			r.Report("paging", "wrong-page-length/"+l.Class, "%s(pageIndex=%d, pageSize=%d): list of %d elements, page must hold elements [%d,%d) = %d elements, got %d", l.API, index, size, n, lo, hi, len(want), len(items))
		}
		return
	}
	for i := range want {
		if items[i].Key != want[i].Key {
			r.Report("paging", "wrong-page-content/"+l.Class, "%s(pageIndex=%d, pageSize=%d): element %d of the page (list position %d) has sort key %q, ground truth %q (value got %s want %s)", l.API, index, size, i, lo+uint64(i), items[i].Key, want[i].Key, items[i].Val, want[i].Val)
			return
		}
	}
	if !c18SameMultiset(items, want) {
		// only conclusive when the window has no ties with elements outside it
		if c18NoOutsideTies(l.Truth, lo, hi) {
			r.Report("paging", "wrong-page-content/"+l.Class, "%s(pageIndex=%d, pageSize=%d): page elements differ from ground truth [%d,%d): got %s want %s", l.API, index, size, lo, hi, c18Vals(items), c18Vals(want))
			return
		}
	}
	if l.Total >= 0 && total != l.Total {
		r.Report("paging", "wrong-total/"+l.Class, "%s(pageIndex=%d, pageSize=%d): total/count %d, the list has %d elements", l.API, index, size, total, l.Total)
	}
}

func c18Vals(e []c18Elem) string {
	var s []string
	for i, x := range e {
		if i >= 6 {
			s = append(s, "…")
			break
		}
		s = append(s, x.Val)
	}
	return "[" + strings.Join(s, "; ") + "]"
}

func c18SameMultiset(a, b []c18Elem) bool {
	if len(a) != len(b) {
		return false
	}
	m := map[string]int{}
	for _, x := range a {
		m[x.ID+"\x00"+x.Val]++
	}
	for _, x := range b {
		m[x.ID+"\x00"+x.Val]--
	}
	for _, v := range m {
		if v != 0 {
			return false
		}
	}
	return true
}

func c18NoOutsideTies(truth []c18Elem, lo, hi uint64) bool {
	if lo >= hi {
		return true
	}
	if lo > 0 && truth[lo-1].Key == truth[lo].Key {
		return false
	}
	if hi < uint64(len(truth)) && truth[hi].Key == truth[hi-1].Key {
		return false
	}
	return true
}

// sweep pages through the whole list with a fixed size and requires every
// element exactly once, in the documented order, then one empty page.
func (c *c18) sweep(l *c18List, size uint32) {
	r := c.r
	if size == 0 || (l.Limit > 0 && uint64(size) > l.Limit) {
		return
	}
	n := uint64(len(l.Truth))
	var all []c18Elem
	pages := n/uint64(size) + 2
	if l.MaxIndex > 0 && pages > l.MaxIndex {
		pages = l.MaxIndex
	}
	for idx := uint64(0); idx < pages; idx++ {
		var (
			items []c18Elem
			err   error
		)
		if p := c18Safe(func() { items, _, err = l.Call(uint32(idx), size) }); p != nil {
			r.Report("api-panic", l.Class, "%s(pageIndex=%d, pageSize=%d) panicked during a sweep: %v at %s", l.API, idx, size, p.v, c18Short(p.stack))
			return
		}
		if err != nil {
			c.refused("paging", l.Class, c18Odd(l.Truth), "%s(pageIndex=%d, pageSize=%d) failed during a sweep over %d elements: %v", l.API, idx, size, n, err)
			return
		}
		if uint64(len(items)) > uint64(size) {
			r.Report("bounded", "more-than-page-size/"+l.Class, "%s(pageIndex=%d, pageSize=%d) returned %d elements", l.API, idx, size, len(items))
			return
		}
		all = append(all, items...)
	}
	c.note("%s sweep size=%d n=%d -> %d elements", l.API, size, n, len(all))
	c.compared++
	reach := pages * uint64(size)
	want := l.Truth
	if reach < n {
		want = want[:reach]
	}
	seen := map[string]int{}
	for _, e := range all {
		seen[e.ID]++
	}
	for _, e := range want {
		switch seen[e.ID] {
		case 1:
		case 0:
			r.Report("paging", "sweep-element-missing/"+l.Class, "%s paged with size %d over %d elements: element %s never appeared", l.API, size, n, e.Val)
			return
		default:
			r.Report("paging", "sweep-element-duplicated/"+l.Class, "%s paged with size %d over %d elements: element %s appeared %d times", l.API, size, n, e.Val, seen[e.ID])
			return
		}
	}
	if len(all) != len(want) {
		inTruth := map[string]bool{}
		for _, e := range want {
			inTruth[e.ID] = true
		}
		var extra []c18Elem
		for _, e := range all {
			if !inTruth[e.ID] {
				extra = append(extra, e)
			}
		}
		r.Report("paging", "sweep-extra-elements/"+l.Class, "%s paged with size %d: %d elements returned in total, the list has %d; not in ground truth: %s", l.API, size, len(all), len(want), c18Vals(extra))
		return
	}
	for i := range want {
		if all[i].Key != want[i].Key {
			r.Report("paging", "sweep-order/"+l.Class, "%s paged with size %d: position %d has sort key %q, documented order requires %q", l.API, size, i, all[i].Key, want[i].Key)
			return
		}
	}
	r.Probe("paging-sweep-complete")
}

// ---------------------------------------------------------------------------
// parameter generators (tape driven; 0 = simplest)

var c18Bounds32 = []uint64{0, 1, 2, 1023, 1024, 1025, 1 << 16, 1 << 22, 1<<31 - 1, 1 << 31, 1<<32 - 1}
var c18Bounds64 = []uint64{0, 1, 2, 1023, 1024, 1025, 1 << 16, 1 << 22, 1<<31 - 1, 1 << 31, 1<<32 - 1, 1 << 32, 1<<63 - 1, 1 << 63, 1<<64 - 1024, 1<<64 - 2, 1<<64 - 1}

// pagePair draws (pageIndex, pageSize) for a list of n elements with the given
// advertised limit.
func (c *c18) pagePair(n int, limit uint64) (uint32, uint32) {
	t := c.r.T
	if limit == 0 {
		limit = 1024
	}
	small := func() uint32 { return uint32(t.Choose(6)) }
	switch t.Choose(7) {
	case 0:
		return small(), uint32(1 + t.Choose(8))
	case 1: // around the end of the list
		size := uint32(1 + t.Choose(5))
		return uint32(n)/size + uint32(t.Choose(3)), size
	case 2: // size around the limit
		return small(), uint32(limit) - 1 + uint32(t.Choose(3))
	case 3:
		return uint32(c18Bounds32[t.Choose(len(c18Bounds32))]), []uint32{1, 2, uint32(limit), 3, 7, 0}[t.Choose(6)]
	case 4:
		return uint32(c18Bounds32[t.Choose(len(c18Bounds32))]), uint32(c18Bounds32[t.Choose(len(c18Bounds32))])
	case 5: // products at and just above 2^32
		k := 1 + t.Choose(10)
		return uint32(1)<<(32-k) + uint32(t.Choose(3)), uint32(1) << k
	default:
		return uint32(c18Bounds32[t.Choose(len(c18Bounds32))]) + uint32(t.Choose(3)), 0
	}
}

// heightCount draws (height, count) for a 1-based sequence of n elements.
func (c *c18) heightCount(n int) (uint64, uint64) {
	t := c.r.T
	near := func() uint64 {
		v := int64(n) - 2 + int64(t.Choose(5))
		if v < 0 {
			v = 0
		}
		return uint64(v)
	}
	switch t.Choose(6) {
	case 0:
		return uint64(1 + t.Choose(n+1)), uint64(1 + t.Choose(8))
	case 1:
		return near(), uint64(t.Choose(5))
	case 2:
		return uint64(1 + t.Choose(3)), 1023 + uint64(t.Choose(3))
	case 3:
		return c18Bounds64[t.Choose(len(c18Bounds64))], uint64(1 + t.Choose(6))
	case 4:
		return c18Bounds64[t.Choose(len(c18Bounds64))], c18Bounds64[t.Choose(len(c18Bounds64))]
	default: // heights whose end wraps past 2^64
		return ^uint64(0) - uint64(t.Choose(4)), uint64(2 + t.Choose(1023))
	}
}

func (c *c18) randomHash() types.Hash {
	var h types.Hash
	copy(h[:], c.r.T.Bytes(types.HashSize))
	return h
}

func (c *c18) unknownAddress() types.Address {
	var a types.Address
	copy(a[:], c.r.T.Bytes(types.AddressSize))
	a[0] = 0
	return a
}

// address picks: 0 the "best" address for the query at hand (most elements),
// then other known users, contracts, the zero address, unknown addresses.
func (c *c18) address(best types.Address) types.Address {
	t := c.r.T
	switch t.Choose(6) {
	case 0, 1:
		return best
	case 2:
		return c.w.Users[t.Choose(len(c.w.Users))].Address
	case 3:
		return c.tr.accounts[t.Choose(len(c.tr.accounts))]
	case 4:
		return types.EmbeddedContracts[t.Choose(len(types.EmbeddedContracts))]
	default:
		if t.Bool() {
			return types.ZeroAddress
		}
		return c.unknownAddress()
	}
}
