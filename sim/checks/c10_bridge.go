package checks

import (
	"bytes"
	"encoding/base64"
	"encoding/hex"
	"fmt"
	"math/big"
	"strings"

	ecrypto "github.com/ethereum/go-ethereum/crypto"
	"golang.org/x/crypto/sha3"

	"github.com/zenon-network/go-zenon/chain/nom"
	"github.com/zenon-network/go-zenon/chain/store"
	"github.com/zenon-network/go-zenon/common"
	"github.com/zenon-network/go-zenon/common/types"
	"github.com/zenon-network/go-zenon/vm/embedded/definition"

	"verif/sim/simrt"
)

// C10, bridge part. "A locked amount is released ... for a bridge unwrap, to the recipient named in
// the signed request after its delay — never earlier than its lock allows and never twice."
//
// The model is built from the ledger only: every successful receive of a call to the bridge contract
// (and of the mint orders the bridge sends to the token contract) is read in confirmed order.
//   UnwrapToken          registers the request (txHash, logIndex) -> recipient, amount, token address,
//                        at the momentum height the receive acknowledges; the request must carry a
//                        signature of the configured TSS key over exactly these fields (verified here
//                        with an own encoding of the message)
//   RevokeUnwrapRequest  marks it revoked
//   Redeem               releases it: exactly one release, to the request's recipient, of the request's
//                        amount in the ZTS of the token pair configured for the request's token address
//                        (not owned pair: paid by the bridge; owned pair: a mint order to the token
//                        contract whose execution must pay exactly that), not before registration height
//                        + redeem delay of the pair, never a second time for the same (txHash, logIndex)
//                        (a second registration of the same request does not give a second release) and
//                        never for a revoked request
//   anything else        releases nothing
// The pair configuration (owned, ZTS, redeem delay) and the TSS key are learned from the contract
// storage through the definition getters at momentum granularity; a change takes effect inside a
// momentum, so a release is accepted when it is right under the configuration before OR after the
// momentum that contains it. Nothing else of the implementation is consulted.
//
// Backing: no "liabilities <= balance" clause is claimed for the bridge. What a registered unwrap of a
// not owned pair may claim comes from the other network (the TSS attests it); the contract neither
// reserves funds for it nor refuses a registration its balance does not cover — Redeem simply fails
// while the balance is short and succeeds later. The accumulated fees are a statistic no method pays
// out, and redeems may be served from the same balance. So the storage holds no sum the contract
// guarantees to hold.

type bridgeKey struct {
	tx  types.Hash
	log uint32
}

type bridgeReq struct {
	class, chain uint32
	to           types.Address
	token        string // token address of the signed request, lower case
	amount       *big.Int
	regHeight    uint64 // first registration (the weakest demand, should a request ever register twice)
	regs         int
	redeemed     bool
	revoked      bool
}

type bridgePairCfg struct {
	class, chain uint32
	zts          types.ZenonTokenStandard
	token        string
	owned        bool
	delay        uint64
}

type bridgeCfg struct {
	tss   []byte // decompressed public key
	pairs []bridgePairCfg
}

type bridgeMint struct {
	to     types.Address
	amount *big.Int
	zts    types.ZenonTokenStandard
	key    bridgeKey
}

type bridgeModel struct {
	reqs          map[bridgeKey]*bridgeReq
	mints         map[types.Hash]*bridgeMint // mint order of a judged redeem -> what its execution must pay
	before, after *bridgeCfg
	height        uint64
}

func newBridgeModel() *bridgeModel {
	return &bridgeModel{reqs: map[bridgeKey]*bridgeReq{}, mints: map[types.Hash]*bridgeMint{}, before: &bridgeCfg{}, after: &bridgeCfg{}}
}

func readBridgeCfg(ms store.Momentum) *bridgeCfg {
	st := ms.GetAccountStore(types.BridgeContract).Storage()
	c := &bridgeCfg{}
	if info, err := definition.GetBridgeInfoVariable(st); err == nil && info != nil {
		c.tss, _ = base64.StdEncoding.DecodeString(info.DecompressedTssECDSAPubKey)
	}
	if nets, err := definition.GetNetworkList(st); err == nil {
		for _, n := range nets {
			for _, p := range n.TokenPairs {
				c.pairs = append(c.pairs, bridgePairCfg{class: n.NetworkClass, chain: n.Id, zts: p.TokenStandard, token: strings.ToLower(p.TokenAddress), owned: p.Owned, delay: uint64(p.RedeemDelay)})
			}
		}
	}
	return c
}

// sync takes the configuration at the end of momentum h; the one before it becomes "before".
func (m *bridgeModel) sync(ms store.Momentum, h uint64) {
	if h == m.height {
		return
	}
	m.before, m.after, m.height = m.after, readBridgeCfg(ms), h
}

func (m *bridgeModel) pairsFor(e *bridgeReq) []bridgePairCfg {
	var out []bridgePairCfg
	for _, c := range []*bridgeCfg{m.before, m.after} {
		for _, p := range c.pairs {
			if p.class != e.class || p.chain != e.chain || p.token != e.token {
				continue
			}
			dup := false
			for _, o := range out {
				dup = dup || o == p
			}
			if !dup {
				out = append(out, p)
			}
		}
	}
	return out
}

// unwrapDigest is the message the TSS signs for an unwrap: seven 32-byte words (network class, chain id,
// transaction hash, log index, recipient, token address, amount), hashed by the network class's rule.
func unwrapDigest(p *definition.UnwrapTokenParam) ([]byte, error) {
	word := func(b []byte) []byte {
		w := make([]byte, 32)
		if len(b) > 32 {
			b = b[len(b)-32:]
		}
		copy(w[32-len(b):], b)
		return w
	}
	num := func(v uint64) []byte { return word(new(big.Int).SetUint64(v).Bytes()) }
	tok, err := hex.DecodeString(strings.TrimPrefix(strings.TrimPrefix(p.TokenAddress, "0x"), "0X"))
	if err != nil || len(tok) != 20 {
		return nil, fmt.Errorf("token address %q is not 20 hex bytes", p.TokenAddress)
	}
	msg := bytes.Join([][]byte{num(uint64(p.NetworkClass)), num(uint64(p.ChainId)), p.TransactionHash.Bytes(), num(uint64(p.LogIndex)), word(p.ToAddress.Bytes()), word(tok), word(p.Amount.Bytes())}, nil)
	switch p.NetworkClass {
	case 1: // network of momentum: SHA3-256
		s := sha3.Sum256(msg)
		return s[:], nil
	case 2: // EVM: personal-message hash of the keccak of the message
		k := sha3.NewLegacyKeccak256()
		k.Write(msg)
		inner := k.Sum(nil)
		k = sha3.NewLegacyKeccak256()
		k.Write([]byte("\x19Ethereum Signed Message:\n32"))
		k.Write(inner)
		return k.Sum(nil), nil
	}
	return nil, fmt.Errorf("network class %d has no signing rule", p.NetworkClass)
}

func (m *bridgeModel) signedByTss(p *definition.UnwrapTokenParam) error {
	digest, err := unwrapDigest(p)
	if err != nil {
		return err
	}
	sig, err := base64.StdEncoding.DecodeString(p.Signature)
	if err != nil || len(sig) != 65 {
		return fmt.Errorf("signature is not 65 base64 bytes")
	}
	pub, err := ecrypto.Ecrecover(digest, sig)
	if err != nil {
		return fmt.Errorf("no key recoverable from the signature: %v", err)
	}
	for _, c := range []*bridgeCfg{m.before, m.after} {
		if len(c.tss) > 0 && bytes.Equal(c.tss, pub) {
			return nil
		}
	}
	return fmt.Errorf("the signature is by another key than the TSS key")
}

func isMintOrder(d *nom.AccountBlock) *definition.MintParam {
	if d.ToAddress != types.TokenContract {
		return nil
	}
	p := new(definition.MintParam)
	if definition.ABIToken.UnpackMethod(p, definition.MintMethodName, d.Data) != nil {
		return nil
	}
	return p
}

func outStr(ds []*nom.AccountBlock) string {
	s := ""
	for _, d := range ds {
		if mp := isMintOrder(d); mp != nil {
			s += fmt.Sprintf("[mint %v %v -> %v]", mp.Amount, mp.TokenStandard, mp.ReceiveAddress)
		} else {
			s += fmt.Sprintf("[%v %v -> %v]", d.Amount, d.TokenStandard, d.ToAddress)
		}
	}
	return s
}

// releases lists what a receive block hands out: payments to accounts and mint orders.
func releases(rcv *nom.AccountBlock) []*nom.AccountBlock {
	var out []*nom.AccountBlock
	for _, d := range rcv.DescendantBlocks {
		if (d.Amount.Sign() > 0 && !types.IsEmbeddedAddress(d.ToAddress)) || isMintOrder(d) != nil {
			out = append(out, d)
		}
	}
	return out
}

// judgeRedeem returns the violated clause ("" when the release is right under configuration c).
func judgeRedeem(e *bridgeReq, c bridgePairCfg, height uint64, outs []*nom.AccountBlock) (string, string) {
	if height < e.regHeight+c.delay {
		return "released-early", fmt.Sprintf("registered at height %d, redeem delay %d, released at height %d (%d momentums early): %s", e.regHeight, c.delay, height, e.regHeight+c.delay-height, outStr(outs))
	}
	want := fmt.Sprintf("%v %v to %v (owned pair: %v)", e.amount, c.zts, e.to, c.owned)
	if len(outs) != 1 {
		return "payout-wrong", fmt.Sprintf("expected exactly one release of %s, got %d: %s", want, len(outs), outStr(outs))
	}
	o := outs[0]
	to, amount, zts := o.ToAddress, o.Amount, o.TokenStandard
	mp := isMintOrder(o)
	if c.owned != (mp != nil) {
		return "payout-wrong", fmt.Sprintf("expected %s, got %s", want, outStr(outs))
	}
	if mp != nil {
		to, amount, zts = mp.ReceiveAddress, mp.Amount, mp.TokenStandard
	}
	if to != e.to {
		return "released-to-wrong-party", fmt.Sprintf("expected %s, got %s", want, outStr(outs))
	}
	if amount.Cmp(e.amount) != 0 || zts != c.zts {
		return "payout-wrong", fmt.Sprintf("expected %s, got %s", want, outStr(outs))
	}
	return "", ""
}

// observe judges one successful receive that concerns the bridge; false when it does not.
func (m *bridgeModel) observe(r *simrt.Run, height uint64, send, rcv *nom.AccountBlock) bool {
	if send.Address == types.BridgeContract && send.ToAddress == types.TokenContract {
		// the token contract executed an order of the bridge
		mp := isMintOrder(send)
		if mp == nil {
			return true // burn of a wrapped owned token
		}
		exp := m.mints[send.Hash]
		if exp == nil {
			r.Fail("payout-unexplained", "bridge", "the token contract mints %v %v to %v on an order of the bridge that no judged redeem explains", mp.Amount, mp.TokenStandard, mp.ReceiveAddress)
		}
		var pays []*nom.AccountBlock
		for _, d := range rcv.DescendantBlocks {
			if d.Amount.Sign() > 0 {
				pays = append(pays, d)
			}
		}
		if len(pays) != 1 || pays[0].ToAddress != exp.to || pays[0].Amount.Cmp(exp.amount) != 0 || pays[0].TokenStandard != exp.zts {
			r.Fail("payout-wrong", "bridge", "mint for unwrap %v/%d: expected exactly one payout of %v %v to %v, got %s", exp.key.tx, exp.key.log, exp.amount, exp.zts, exp.to, outStr(pays))
		}
		delete(m.mints, send.Hash)
		r.Probe("bridge-redeem-paid")
		r.Probe("bridge-redeem-paid-owned")
		return true
	}
	if send.ToAddress != types.BridgeContract {
		return false
	}
	key := callKey(send)
	outs := releases(rcv)
	switch key {
	case "bridge.UnwrapToken":
		p := new(definition.UnwrapTokenParam)
		if definition.ABIBridge.UnpackMethod(p, definition.UnwrapTokenMethodName, send.Data) != nil {
			break
		}
		k := bridgeKey{p.TransactionHash, p.LogIndex}
		if err := m.signedByTss(p); err != nil {
			r.Fail("registered-unsigned", "bridge", "unwrap %v/%d (%v of token %s to %v) was registered although %v", k.tx, k.log, p.Amount, p.TokenAddress, p.ToAddress, err)
		}
		if e := m.reqs[k]; e != nil {
			e.regs++
			r.Probe("bridge-unwrap-registered-again")
			break
		}
		m.reqs[k] = &bridgeReq{class: p.NetworkClass, chain: p.ChainId, to: p.ToAddress, token: strings.ToLower(p.TokenAddress), amount: new(big.Int).Set(p.Amount), regHeight: height, regs: 1}
		r.Probe("bridge-unwrap-registered")
	case "bridge.RevokeUnwrapRequest":
		p := new(definition.RevokeUnwrapParam)
		if definition.ABIBridge.UnpackMethod(p, definition.RevokeUnwrapRequestMethodName, send.Data) != nil {
			break
		}
		if e := m.reqs[bridgeKey{p.TransactionHash, p.LogIndex}]; e != nil {
			if !e.redeemed && !e.revoked {
				r.Probe("bridge-revoke-performed")
			}
			e.revoked = true
		}
	case "bridge.Redeem":
		p := new(definition.RedeemParam)
		if definition.ABIBridge.UnpackMethod(p, definition.RedeemUnwrapMethodName, send.Data) != nil {
			break
		}
		k := bridgeKey{p.TransactionHash, p.LogIndex}
		e := m.reqs[k]
		if e == nil {
			if len(outs) > 0 {
				r.Fail("payout-unexplained", "bridge", "Redeem of %v/%d, which no accepted UnwrapToken registered, releases %s", k.tx, k.log, outStr(outs))
			}
			return true
		}
		if e.redeemed {
			r.Fail("paid-twice", "bridge", "unwrap %v/%d (registered %d times) was redeemed already and is redeemed again at height %d: %s", k.tx, k.log, e.regs, height, outStr(outs))
		}
		if e.revoked {
			r.Fail("released-revoked", "bridge", "unwrap %v/%d was revoked and is redeemed at height %d: %s", k.tx, k.log, height, outStr(outs))
		}
		cands := m.pairsFor(e)
		if len(cands) == 0 {
			r.Fail("payout-unexplained", "bridge", "Redeem of %v/%d releases %s although no token pair is configured for token %s on network %d/%d", k.tx, k.log, outStr(outs), e.token, e.class, e.chain)
		}
		clause, detail, chosen := "", "", cands[0]
		for i, c := range cands {
			cl, dt := judgeRedeem(e, c, height, outs)
			if cl == "" {
				clause, chosen = "", c
				break
			}
			if i == 0 {
				clause, detail = cl, dt
			}
		}
		if clause != "" {
			r.Fail(clause, "bridge", "Redeem of unwrap %v/%d: %s", k.tx, k.log, detail)
		}
		if len(cands) > 1 {
			r.Probe("bridge-redeem-judged-across-reconfiguration")
		}
		e.redeemed = true
		if chosen.owned {
			m.mints[outs[0].Hash] = &bridgeMint{to: e.to, amount: e.amount, zts: chosen.zts, key: k}
			r.Probe("bridge-redeem-mint-ordered")
		} else {
			r.Probe("bridge-redeem-paid")
			r.Probe("bridge-redeem-paid-not-owned")
		}
		if height == e.regHeight+chosen.delay {
			r.Probe("bridge-redeem-at-first-allowed-height")
		}
		return true
	}
	// registering, revoking, wrapping and administering release nothing
	if len(outs) > 0 {
		r.Fail("payout-unexplained", "bridge", "%s releases %s", key, outStr(outs))
	}
	return true
}

// refused counts, for the reach probes, why the contract turned a call down.
func (m *bridgeModel) refused(r *simrt.Run, ms store.Momentum, rcv *nom.AccountBlock) {
	if rcv.BlockType != nom.BlockTypeContractReceive || rcv.Address != types.BridgeContract || len(rcv.Data) != 8 || common.BytesToUint64(rcv.Data) == 1 {
		return
	}
	send, err := ms.GetAccountBlockByHash(rcv.FromBlockHash)
	if err != nil || send == nil {
		return
	}
	height := rcv.MomentumAcknowledged.Height
	switch callKey(send) {
	case "bridge.UnwrapToken":
		p := new(definition.UnwrapTokenParam)
		if definition.ABIBridge.UnpackMethod(p, definition.UnwrapTokenMethodName, send.Data) != nil {
			return
		}
		if m.reqs[bridgeKey{p.TransactionHash, p.LogIndex}] != nil {
			r.Probe("bridge-duplicate-unwrap-refused")
		} else {
			r.Probe("bridge-unwrap-refused")
		}
	case "bridge.Redeem":
		p := new(definition.RedeemParam)
		if definition.ABIBridge.UnpackMethod(p, definition.RedeemUnwrapMethodName, send.Data) != nil {
			return
		}
		e := m.reqs[bridgeKey{p.TransactionHash, p.LogIndex}]
		switch {
		case e == nil:
			r.Probe("bridge-redeem-refused-unregistered")
		case e.redeemed:
			r.Probe("bridge-redeem-refused-redeemed")
		case e.revoked:
			r.Probe("bridge-redeem-refused-revoked")
		default:
			early := false
			for _, c := range m.pairsFor(e) {
				early = early || height < e.regHeight+c.delay
			}
			if early {
				r.Probe("bridge-redeem-refused-early")
			} else {
				r.Probe("bridge-redeem-refused-other")
			}
		}
	}
}
