package checks

// C18 phase A, embedded-contract APIs against contract storage read with the
// definition.* iterators.

import (
	"fmt"
	"math/big"
	"sort"

	"github.com/zenon-network/go-zenon/common/types"
	"github.com/zenon-network/go-zenon/rpc/api"
	"github.com/zenon-network/go-zenon/rpc/api/embedded"
	"github.com/zenon-network/go-zenon/vm/constants"
	"github.com/zenon-network/go-zenon/vm/embedded/definition"
)

func c18Big(v *big.Int) string {
	if v == nil {
		return "<nil>"
	}
	return v.String()
}

// exercise runs a tape-chosen number of boundary draws and one sweep on a list.
func (c *c18) exercise(l *c18List, draws int, sweepMax int) {
	t := c.r.T
	for i := 0; i < draws; i++ {
		t.Span(func() { i, s := c.pagePair(len(l.Truth), l.Limit); c.page(l, i, s) })
	}
	if sweepMax > 0 {
		t.Span(func() { c.sweep(l, uint32(1+t.Choose(sweepMax))) })
	}
}

func (c *c18) phaseEmbedded() {
	t, tr, A := c.r.T, c.tr, c.apis
	draws := 2 + t.Choose(2)
	users := make([]types.Address, 0, len(c.w.Users))
	for _, u := range c.w.Users {
		users = append(users, u.Address)
	}
	// best returns the user maximising f (first on ties: users are in a fixed order)
	best := func(f func(a types.Address) int) types.Address {
		b, bv := users[0], -1
		for _, u := range users {
			if v := f(u); v > bv {
				b, bv = u, v
			}
		}
		return b
	}

	// ---- token (the token API reads the token contract's pool frontier)
	poolTokens, err := definition.GetTokenInfoList(tr.storage(types.TokenContract))
	if err != nil {
		c.r.Fail("truth", "token-list", "%v", err)
	}
	poolTokenBy := map[types.ZenonTokenStandard]*definition.TokenInfo{}
	tokElems := make([]c18Elem, 0, len(poolTokens))
	for _, tk := range poolTokens {
		poolTokenBy[tk.TokenStandard] = tk
		tokElems = append(tokElems, c18Elem{ID: tk.TokenStandard.String(), Val: c18Token(tk)})
	}
	apiTok := func(l *embedded.TokenList, err error) ([]c18Elem, int64, error) {
		if err != nil || l == nil {
			return nil, 0, c18Err(err, l == nil)
		}
		out := make([]c18Elem, 0, len(l.List))
		for _, tk := range l.List {
			if tk == nil {
				out = append(out, c18Elem{ID: "nil", Val: "nil"})
				continue
			}
			out = append(out, c18Elem{ID: tk.ZenonTokenStandard.String(), Val: c18ApiToken(tk)})
		}
		return out, int64(l.Count), nil
	}
	t.Span(func() {
		c.exercise(&c18List{API: "embedded.token.getAll", Class: "list", Limit: api.RpcMaxPageSize, Truth: tokElems, Total: int64(len(tokElems)),
			Call: func(i, s uint32) ([]c18Elem, int64, error) { return apiTok(A.Token.GetAll(i, s)) }}, draws+1, 4)
	})
	t.Span(func() {
		owner := c.address(best(func(a types.Address) int {
			n := 0
			for _, tk := range poolTokens {
				if tk.Owner == a {
					n++
				}
			}
			return n
		}))
		var owned []c18Elem
		for i, tk := range poolTokens {
			if tk.Owner == owner {
				owned = append(owned, tokElems[i])
			}
		}
		c.exercise(&c18List{API: "embedded.token.getByOwner", Class: "list", Limit: api.RpcMaxPageSize, Truth: owned, Total: int64(len(owned)),
			Call: func(i, s uint32) ([]c18Elem, int64, error) { return apiTok(A.Token.GetByOwner(owner, i, s)) }}, draws, 3)
	})
	t.Span(func() {
		var z types.ZenonTokenStandard
		if len(poolTokens) > 0 && t.Choose(3) != 2 {
			z = poolTokens[t.Choose(len(poolTokens))].TokenStandard
		} else {
			copy(z[:], t.Bytes(len(z)))
		}
		c.single("embedded.token.getByZts", "token", func() string {
			tk, err := A.Token.GetByZts(z)
			if err != nil {
				return "error " + err.Error()
			}
			want := poolTokenBy[z]
			if want == nil {
				if tk != nil {
					return fmt.Sprintf("non-existent token %v answered with %s", z, c18ApiToken(tk))
				}
				return ""
			}
			if c18ApiToken(tk) != c18Token(want) {
				return fmt.Sprintf("got %s want %s", c18ApiToken(tk), c18Token(want))
			}
			return ""
		})
	})

	// ---- pillar
	pst := tr.storage(types.PillarContract)
	pillars, err := definition.GetPillarsList(pst, true, definition.AnyPillarType)
	if err != nil || len(pillars) == 0 {
		c.r.Fail("truth", "pillar-list", "%v", err)
	}
	weights, err := c.p.Cons.FixedPillarReader(tr.frontier.Identifier()).GetPillarWeights()
	if err != nil {
		c.r.Skip("pillar-weights-unavailable")
		weights = nil
	}
	wOf := func(name string) *big.Int {
		if w := weights[name]; w != nil {
			return w
		}
		return new(big.Int)
	}
	sort.SliceStable(pillars, func(i, j int) bool {
		if r := wOf(pillars[i].Name).Cmp(wOf(pillars[j].Name)); r != 0 {
			return r > 0
		}
		return pillars[i].Name < pillars[j].Name
	})
	pillarVal := func(rank int, name string, typ uint8, owner, prod, wd types.Address, revoke int64, gm, gd uint8, w *big.Int) string {
		return fmt.Sprintf("#%d %q type %d owner %v producer %v withdraw %v revoke %d give %d/%d weight %s", rank, name, typ, owner, prod, wd, revoke, gm, gd, c18Big(w))
	}
	pilElems := make([]c18Elem, 0, len(pillars))
	for i, pl := range pillars {
		pilElems = append(pilElems, c18Elem{ID: pl.Name, Key: fmt.Sprintf("%s/%s", wOf(pl.Name), pl.Name),
			Val: pillarVal(i, pl.Name, pl.PillarType, pl.StakeAddress, pl.BlockProducingAddress, pl.RewardWithdrawAddress, pl.RevokeTime, pl.GiveBlockRewardPercentage, pl.GiveDelegateRewardPercentage, wOf(pl.Name))})
	}
	apiPillar := func(pl *embedded.PillarInfo) c18Elem {
		if pl == nil {
			return c18Elem{ID: "nil", Val: "nil"}
		}
		return c18Elem{ID: pl.Name, Key: fmt.Sprintf("%s/%s", c18Big(pl.Weight), pl.Name),
			Val: pillarVal(pl.Rank, pl.Name, pl.Type, pl.StakeAddress, pl.BlockProducingAddress, pl.RewardWithdrawAddress, pl.RevokeTime, pl.GiveMomentumRewardPercentage, pl.GiveDelegateRewardPercentage, pl.Weight)}
	}
	c.r.Probes["pillars-in-truth"] += len(pillars)
	if weights != nil {
		t.Span(func() {
			c.exercise(&c18List{API: "embedded.pillar.getAll", Class: "list", Limit: api.RpcMaxPageSize, Truth: pilElems, Total: int64(len(pilElems)),
				Call: func(i, s uint32) ([]c18Elem, int64, error) {
					l, err := A.Pillar.GetAll(i, s)
					if err != nil || l == nil {
						return nil, 0, c18Err(err, l == nil)
					}
					out := make([]c18Elem, 0, len(l.List))
					for _, pl := range l.List {
						out = append(out, apiPillar(pl))
					}
					return out, int64(l.Count), nil
				}}, draws+1, 3)
		})
		t.Span(func() {
			owner := c.address(pillars[t.Choose(len(pillars))].StakeAddress)
			c.single("embedded.pillar.getByOwner", "pillar", func() string {
				l, err := A.Pillar.GetByOwner(owner)
				if err != nil {
					return "error " + err.Error()
				}
				var want, got []string
				for i, pl := range pillars {
					if pl.StakeAddress == owner {
						want = append(want, pilElems[i].Val)
					}
				}
				for _, pl := range l {
					got = append(got, apiPillar(pl).Val)
				}
				if fmt.Sprint(got) != fmt.Sprint(want) {
					return fmt.Sprintf("owner %v: got %v want %v", owner, got, want)
				}
				return ""
			})
		})
		t.Span(func() {
			name := pillars[t.Choose(len(pillars))].Name
			if t.Choose(4) == 3 {
				name = "no-such-pillar-" + fmt.Sprint(t.Choose(100))
			}
			c.single("embedded.pillar.getByName", "pillar", func() string {
				pl, err := A.Pillar.GetByName(name)
				if err != nil {
					return "error " + err.Error()
				}
				want := "nil"
				for i, x := range pillars {
					if x.Name == name {
						want = pilElems[i].Val
					}
				}
				if apiPillar(pl).Val != want {
					return fmt.Sprintf("name %q: got %s want %s", name, apiPillar(pl).Val, want)
				}
				return ""
			})
			c.single("embedded.pillar.checkNameAvailability", "pillar", func() string {
				free, err := A.Pillar.CheckNameAvailability(name)
				if err != nil {
					return "error " + err.Error()
				}
				all, err := definition.GetPillarsList(pst, false, definition.AnyPillarType)
				if err != nil {
					return "truth: " + err.Error()
				}
				used := false
				for _, x := range all {
					if x.Name == name {
						used = true
					}
				}
				if free == used {
					return fmt.Sprintf("name %q: available=%v but a pillar entry with that name exists=%v", name, free, used)
				}
				return ""
			})
		})
	}
	// delegation
	delegs, _ := definition.GetDelegationsList(pst)
	t.Span(func() {
		bestD := users[0]
		if len(delegs) > 0 {
			bestD = delegs[t.Choose(len(delegs))].Backer
		}
		a := c.address(bestD)
		c.single("embedded.pillar.getDelegatedPillar", "pillar", func() string {
			d, err := A.Pillar.GetDelegatedPillar(a)
			if err != nil {
				return "error " + err.Error()
			}
			var want *definition.DelegationInfo
			for _, x := range delegs {
				if x.Backer == a {
					want = x
				}
			}
			if want == nil {
				if d != nil {
					return fmt.Sprintf("%v has no delegation entry but API says %q", a, d.Name)
				}
				return ""
			}
			if d == nil {
				return fmt.Sprintf("%v delegates to %q but API says none", a, want.Name)
			}
			bal, err := tr.ms.GetAccountStore(a).GetBalance(types.ZnnTokenStandard)
			if err != nil {
				return "truth: " + err.Error()
			}
			status := embedded.PillarInActive
			if pi, err := definition.GetPillarInfo(pst, want.Name); err == nil && pi.RevokeTime == 0 {
				status = embedded.PillarActive
			}
			if d.Name != want.Name || c18Big(d.Balance) != c18Big(bal) || d.NodeStatus != status {
				return fmt.Sprintf("%v: got {%q status %d weight %s} want {%q status %d weight %s}", a, d.Name, d.NodeStatus, c18Big(d.Balance), want.Name, status, c18Big(bal))
			}
			return ""
		})
	})

	// ---- reward history of the four reward contracts + pillar epoch history
	type rewardApi struct {
		name     string
		contract types.Address
		call     func(a types.Address, i, s uint32) (*embedded.RewardHistoryList, error)
		uncoll   func(a types.Address) (*definition.RewardDeposit, error)
	}
	for _, ra := range []rewardApi{
		{"embedded.pillar", types.PillarContract, A.Pillar.GetFrontierRewardByPage, A.Pillar.GetUncollectedReward},
		{"embedded.stake", types.StakeContract, A.Stake.GetFrontierRewardByPage, A.Stake.GetUncollectedReward},
		{"embedded.sentinel", types.SentinelContract, A.Sentinel.GetFrontierRewardByPage, A.Sentinel.GetUncollectedReward},
		{"embedded.liquidity", types.LiquidityContract, A.Liquidity.GetFrontierRewardByPage, A.Liquidity.GetUncollectedReward},
	} {
		t.Span(func() {
			st := tr.storage(ra.contract)
			le, err := definition.GetLastEpochUpdate(st)
			if err != nil {
				c.r.Skip("last-epoch-unreadable")
				return
			}
			if le.LastEpoch > tr.lastEpochMax {
				tr.lastEpochMax = le.LastEpoch
			}
			a := c.address(best(func(a types.Address) int {
				n := 0
				for e := le.LastEpoch; e >= 0 && e > le.LastEpoch-20; e-- {
					if d, err := definition.GetRewardDepositHistory(st, uint64(e), &a); err == nil && (d.Znn.Sign() > 0 || d.Qsr.Sign() > 0) {
						n++
					}
				}
				return n
			}))
			var truth []c18Elem
			nonzero := 0
			for e := le.LastEpoch; e >= 0; e-- {
				d, err := definition.GetRewardDepositHistory(st, uint64(e), &a)
				if err != nil {
					c.r.Skip("reward-history-unreadable")
					return
				}
				if d.Znn.Sign() > 0 || d.Qsr.Sign() > 0 {
					nonzero++
				}
				truth = append(truth, c18Elem{ID: fmt.Sprint(e), Key: fmt.Sprint(e), Val: fmt.Sprintf("epoch %d znn %s qsr %s", e, c18Big(d.Znn), c18Big(d.Qsr))})
			}
			c.r.Probes["reward-history-epochs"] += len(truth)
			c.r.Probes["reward-history-nonzero"] += nonzero
			c.exercise(&c18List{API: ra.name + ".getFrontierRewardByPage", Class: "epoch-history", Limit: api.RpcMaxPageSize, Truth: truth, Total: le.LastEpoch + 1,
				Call: func(i, s uint32) ([]c18Elem, int64, error) {
					l, err := ra.call(a, i, s)
					if err != nil || l == nil {
						return nil, 0, c18Err(err, l == nil)
					}
					out := make([]c18Elem, 0, len(l.List))
					for _, e := range l.List {
						if e == nil {
							out = append(out, c18Elem{ID: "nil", Val: "nil"})
							continue
						}
						out = append(out, c18Elem{ID: fmt.Sprint(e.Epoch), Key: fmt.Sprint(e.Epoch), Val: fmt.Sprintf("epoch %d znn %s qsr %s", e.Epoch, c18Big(e.Znn), c18Big(e.Qsr))})
					}
					return out, l.Count, nil
				}}, draws, 3)
			c.single(ra.name+".getUncollectedReward", "reward", func() string {
				d, err := ra.uncoll(a)
				if err != nil {
					return "error " + err.Error()
				}
				want, err := definition.GetRewardDeposit(st, &a)
				if err != nil {
					return "truth: " + err.Error()
				}
				if d == nil || c18Big(d.Znn) != c18Big(want.Znn) || c18Big(d.Qsr) != c18Big(want.Qsr) {
					return fmt.Sprintf("%v: got %+v want znn %s qsr %s", a, d, c18Big(want.Znn), c18Big(want.Qsr))
				}
				return ""
			})
		})
	}
	pehVal := func(h *definition.PillarEpochHistory) string {
		return fmt.Sprintf("%q epoch %d give %d/%d produced %d/%d weight %s", h.Name, h.Epoch, h.GiveBlockRewardPercentage, h.GiveDelegateRewardPercentage, h.ProducedBlockNum, h.ExpectedBlockNum, c18Big(h.Weight))
	}
	if le, err := definition.GetLastEpochUpdate(pst); err == nil {
		t.Span(func() {
			name := pillars[t.Choose(len(pillars))].Name
			if t.Choose(5) == 4 {
				name = "no-such-pillar"
			}
			var truth []c18Elem
			for e := le.LastEpoch; e >= 0; e-- {
				l, err := definition.GetPillarEpochHistoryList(pst, uint64(e))
				if err != nil {
					c.r.Skip("pillar-epoch-history-unreadable")
					return
				}
				v := pehVal(&definition.PillarEpochHistory{Name: name, Epoch: uint64(e), Weight: new(big.Int)})
				for _, h := range l {
					if h.Name == name {
						v = pehVal(h)
					}
				}
				truth = append(truth, c18Elem{ID: fmt.Sprint(e), Key: fmt.Sprint(e), Val: v})
			}
			c.exercise(&c18List{API: "embedded.pillar.getPillarEpochHistory", Class: "epoch-history", Limit: api.RpcMaxPageSize, Truth: truth, Total: le.LastEpoch + 1,
				Call: func(i, s uint32) ([]c18Elem, int64, error) {
					l, err := A.Pillar.GetPillarEpochHistory(name, i, s)
					if err != nil || l == nil {
						return nil, 0, c18Err(err, l == nil)
					}
					out := make([]c18Elem, 0, len(l.List))
					for _, h := range l.List {
						out = append(out, c18Elem{ID: fmt.Sprint(h.Epoch), Key: fmt.Sprint(h.Epoch), Val: pehVal(h)})
					}
					return out, l.Count, nil
				}}, draws, 3)
		})
		t.Span(func() {
			epoch := uint64(0)
			switch t.Choose(4) {
			case 0:
				if le.LastEpoch > 0 {
					epoch = uint64(t.Choose(int(le.LastEpoch) + 1))
				}
			case 1:
				epoch = uint64(le.LastEpoch + 1)
			default:
				epoch = c18Bounds64[t.Choose(len(c18Bounds64))]
				c.boundaryUsed(epoch)
			}
			l, err := definition.GetPillarEpochHistoryList(pst, epoch)
			if err != nil {
				c.r.Skip("pillar-epoch-history-unreadable")
				return
			}
			var truth []c18Elem
			for _, h := range l {
				truth = append(truth, c18Elem{ID: h.Name, Val: pehVal(h)})
			}
			c.exercise(&c18List{API: "embedded.pillar.getPillarsHistoryByEpoch", Class: "list", Limit: api.RpcMaxPageSize, Truth: truth, Total: int64(len(truth)),
				Call: func(i, s uint32) ([]c18Elem, int64, error) {
					l, err := A.Pillar.GetPillarsHistoryByEpoch(epoch, i, s)
					if err != nil || l == nil {
						return nil, 0, c18Err(err, l == nil)
					}
					out := make([]c18Elem, 0, len(l.List))
					for _, h := range l.List {
						out = append(out, c18Elem{ID: h.Name, Val: pehVal(h)})
					}
					return out, l.Count, nil
				}}, draws, 2)
		})
	}
	// deposited qsr (pillar, sentinel)
	for _, q := range []struct {
		name     string
		contract types.Address
		call     func(types.Address) (string, error)
	}{{"embedded.pillar.getDepositedQsr", types.PillarContract, A.Pillar.GetDepositedQsr}, {"embedded.sentinel.getDepositedQsr", types.SentinelContract, A.Sentinel.GetDepositedQsr}} {
		t.Span(func() {
			st := tr.storage(q.contract)
			a := c.address(best(func(a types.Address) int {
				if d, err := definition.GetQsrDeposit(st, &a); err == nil && d.Qsr.Sign() > 0 {
					return 1
				}
				return 0
			}))
			c.single(q.name, "deposit", func() string {
				s, err := q.call(a)
				if err != nil {
					return "error " + err.Error()
				}
				want, err := definition.GetQsrDeposit(st, &a)
				if err != nil {
					return "truth: " + err.Error()
				}
				if s != c18Big(want.Qsr) {
					return fmt.Sprintf("%v: got %s want %s", a, s, c18Big(want.Qsr))
				}
				return ""
			})
		})
	}

	// ---- stake
	t.Span(func() {
		st := tr.storage(types.StakeContract)
		a := c.address(best(func(a types.Address) int {
			l, _, _, _ := definition.GetStakeListByAddress(st, a)
			return len(l)
		}))
		list, _, _, err := definition.GetStakeListByAddress(st, a)
		if err != nil {
			c.r.Skip("stake-list-unreadable")
			return
		}
		sort.SliceStable(list, func(i, j int) bool {
			if list[i].ExpirationTime != list[j].ExpirationTime {
				return list[i].ExpirationTime < list[j].ExpirationTime
			}
			return list[i].Id.String() < list[j].Id.String()
		})
		sum, wsum := new(big.Int), new(big.Int)
		var truth []c18Elem
		val := func(id types.Hash, addr types.Address, amt, w *big.Int, start, exp int64) c18Elem {
			return c18Elem{ID: id.String(), Key: fmt.Sprintf("%020d/%s", exp, id), Val: fmt.Sprintf("%s %v amount %s weighted %s start %d exp %d", id.String()[:12], addr, c18Big(amt), c18Big(w), start, exp)}
		}
		for _, s := range list {
			sum.Add(sum, s.Amount)
			wsum.Add(wsum, s.WeightedAmount)
			truth = append(truth, val(s.Id, s.StakeAddress, s.Amount, s.WeightedAmount, s.StartTime, s.ExpirationTime))
		}
		c.r.Probes["stake-entries-in-truth"] += len(truth)
		c.exercise(&c18List{API: "embedded.stake.getEntriesByAddress", Class: "list", Limit: api.RpcMaxPageSize, Truth: truth, Total: int64(len(truth)),
			Call: func(i, s uint32) ([]c18Elem, int64, error) {
				l, err := A.Stake.GetEntriesByAddress(a, i, s)
				if err != nil || l == nil {
					return nil, 0, c18Err(err, l == nil)
				}
				if c18Big(l.TotalAmount) != sum.String() || c18Big(l.TotalWeightedAmount) != wsum.String() {
					return nil, 0, fmt.Errorf("C18-TOTALS got %s/%s want %s/%s", c18Big(l.TotalAmount), c18Big(l.TotalWeightedAmount), sum, wsum)
				}
				out := make([]c18Elem, 0, len(l.Entries))
				for _, e := range l.Entries {
					out = append(out, val(e.Id, e.Address, e.Amount, e.WeightedAmount, e.StartTimestamp, e.ExpirationTimestamp))
				}
				return out, int64(l.Count), nil
			}}, draws, 3)
	})

	// ---- plasma
	t.Span(func() {
		st := tr.storage(types.PlasmaContract)
		a := c.address(best(func(a types.Address) int {
			l, _, _ := definition.GetFusionInfoListByOwner(st, a)
			return len(l)
		}))
		list, _, err := definition.GetFusionInfoListByOwner(st, a)
		if err != nil {
			c.r.Skip("fusion-list-unreadable")
			return
		}
		sort.SliceStable(list, func(i, j int) bool {
			if list[i].ExpirationHeight != list[j].ExpirationHeight {
				return list[i].ExpirationHeight < list[j].ExpirationHeight
			}
			return list[i].Beneficiary.String() < list[j].Beneficiary.String()
		})
		sum := new(big.Int)
		val := func(id types.Hash, ben types.Address, amt *big.Int, exp uint64) c18Elem {
			return c18Elem{ID: id.String(), Key: fmt.Sprintf("%020d/%v", exp, ben), Val: fmt.Sprintf("%s beneficiary %v amount %s exp %d", id.String()[:12], ben, c18Big(amt), exp)}
		}
		var truth []c18Elem
		for _, f := range list {
			sum.Add(sum, f.Amount)
			truth = append(truth, val(f.Id, f.Beneficiary, f.Amount, f.ExpirationHeight))
		}
		c.r.Probes["fusion-entries-in-truth"] += len(truth)
		c.exercise(&c18List{API: "embedded.plasma.getEntriesByAddress", Class: "list", Limit: api.RpcMaxPageSize, Truth: truth, Total: int64(len(truth)),
			Call: func(i, s uint32) ([]c18Elem, int64, error) {
				l, err := A.Plasma.GetEntriesByAddress(a, i, s)
				if err != nil || l == nil {
					return nil, 0, c18Err(err, l == nil)
				}
				if c18Big(l.QsrAmount) != sum.String() {
					return nil, 0, fmt.Errorf("C18-TOTALS got %s want %s", c18Big(l.QsrAmount), sum)
				}
				out := make([]c18Elem, 0, len(l.Fusions))
				for _, e := range l.Fusions {
					out = append(out, val(e.Id, e.Beneficiary, e.QsrAmount, e.ExpirationHeight))
				}
				return out, int64(l.Count), nil
			}}, draws, 3)
		c.single("embedded.plasma.get", "plasma", func() string {
			pi, err := A.Plasma.Get(a)
			if err != nil {
				return "error " + err.Error()
			}
			fa, err := definition.GetFusedAmount(tr.confirmedStorage(types.PlasmaContract), a)
			if err != nil {
				return "truth: " + err.Error()
			}
			if pi == nil || c18Big(pi.QsrAmount) != c18Big(fa.Amount) || pi.CurrentPlasma > pi.MaxPlasma {
				return fmt.Sprintf("%v: got %+v, fused amount in storage %s", a, pi, c18Big(fa.Amount))
			}
			return ""
		})
	})

	// ---- sentinel
	t.Span(func() {
		st := tr.storage(types.SentinelContract)
		all := definition.GetAllSentinelInfo(st)
		var truth []c18Elem
		val := func(owner types.Address, reg int64, active bool) c18Elem {
			return c18Elem{ID: owner.String(), Val: fmt.Sprintf("%v registered %d active %v", owner, reg, active)}
		}
		for _, s := range all {
			if s.RevokeTimestamp == 0 {
				truth = append(truth, val(s.Owner, s.RegistrationTimestamp, true))
			}
		}
		c.r.Probes["sentinels-in-truth"] += len(truth)
		c.exercise(&c18List{API: "embedded.sentinel.getAllActive", Class: "list", Limit: api.RpcMaxPageSize, Truth: truth, Total: int64(len(truth)),
			Call: func(i, s uint32) ([]c18Elem, int64, error) {
				l, err := A.Sentinel.GetAllActive(i, s)
				if err != nil || l == nil {
					return nil, 0, c18Err(err, l == nil)
				}
				out := make([]c18Elem, 0, len(l.List))
				for _, e := range l.List {
					if e == nil {
						out = append(out, c18Elem{ID: "nil", Val: "nil"})
						continue
					}
					out = append(out, val(e.Owner, e.RegistrationTimestamp, e.Active))
				}
				return out, int64(l.Count), nil
			}}, draws, 3)
		owner := users[0]
		if len(all) > 0 {
			owner = all[t.Choose(len(all))].Owner
		}
		owner = c.address(owner)
		c.single("embedded.sentinel.getByOwner", "sentinel", func() string {
			s, err := A.Sentinel.GetByOwner(owner)
			if err != nil {
				return "error " + err.Error()
			}
			want := definition.GetSentinelInfoByOwner(st, owner)
			if want == nil {
				if s != nil {
					return fmt.Sprintf("%v has no sentinel entry but API returned one", owner)
				}
				return ""
			}
			if s == nil || s.Owner != want.Owner || s.RegistrationTimestamp != want.RegistrationTimestamp || s.Active != (want.RevokeTimestamp == 0) {
				return fmt.Sprintf("%v: got %+v want %+v", owner, s, want)
			}
			return ""
		})
	})

	// ---- spork
	t.Span(func() {
		all := definition.GetAllSporks(tr.storage(types.SporkContract))
		val := func(s *definition.Spork) c18Elem {
			return c18Elem{ID: s.Id.String(), Val: fmt.Sprintf("%s %q %q activated %v at %d", s.Id.String()[:12], s.Name, s.Description, s.Activated, s.EnforcementHeight)}
		}
		var truth []c18Elem
		for _, s := range all {
			truth = append(truth, val(s))
		}
		c.r.Probes["sporks-in-truth"] += len(truth)
		c.exercise(&c18List{API: "embedded.spork.getAll", Class: "list", Limit: api.RpcMaxPageSize, Truth: truth, Total: int64(len(truth)),
			Call: func(i, s uint32) ([]c18Elem, int64, error) {
				l, err := A.Spork.GetAll(i, s)
				if err != nil || l == nil {
					return nil, 0, c18Err(err, l == nil)
				}
				out := make([]c18Elem, 0, len(l.List))
				for _, e := range l.List {
					out = append(out, val(e))
				}
				return out, int64(l.Count), nil
			}}, draws, 3)
	})

	// ---- accelerator
	t.Span(func() {
		st := tr.storage(types.AcceleratorContract)
		projects, err := definition.GetProjectList(st)
		if err != nil {
			c.r.Skip("project-list-unreadable")
			return
		}
		sort.SliceStable(projects, func(i, j int) bool { return projects[i].LastUpdateTimestamp > projects[j].LastUpdateTimestamp })
		val := func(id types.Hash, owner types.Address, name string, znn, qsr *big.Int, created, upd int64, status uint8, phases []types.Hash, votes *definition.VoteBreakdown) c18Elem {
			v := "<nil>"
			if votes != nil {
				v = fmt.Sprintf("%d/%d/%d", votes.Total, votes.Yes, votes.No)
			}
			return c18Elem{ID: id.String(), Key: fmt.Sprintf("%020d", upd), Val: fmt.Sprintf("%s %v %q znn %s qsr %s created %d updated %d status %d phases %v votes %s", id.String()[:12], owner, name, c18Big(znn), c18Big(qsr), created, upd, status, phases, v)}
		}
		var truth []c18Elem
		for _, p := range projects {
			truth = append(truth, val(p.Id, p.Owner, p.Name, p.ZnnFundsNeeded, p.QsrFundsNeeded, p.CreationTimestamp, p.LastUpdateTimestamp, p.Status, p.PhaseIds, definition.GetVoteBreakdown(st, p.Id)))
		}
		c.r.Probes["projects-in-truth"] += len(truth)
		c.exercise(&c18List{API: "embedded.accelerator.getAll", Class: "list", Limit: api.RpcMaxPageSize, Truth: truth, Total: int64(len(truth)),
			Call: func(i, s uint32) ([]c18Elem, int64, error) {
				l, err := A.Accel.GetAll(i, s)
				if err != nil || l == nil {
					return nil, 0, c18Err(err, l == nil)
				}
				out := make([]c18Elem, 0, len(l.List))
				for _, p := range l.List {
					out = append(out, val(p.Id, p.Owner, p.Name, p.ZnnFundsNeeded, p.QsrFundsNeeded, p.CreationTimestamp, p.LastUpdateTimestamp, p.Status, p.PhaseIds, p.Votes))
				}
				return out, int64(l.Count), nil
			}}, draws, 3)
		id := c.randomHash()
		if len(projects) > 0 && t.Choose(4) != 3 {
			id = projects[t.Choose(len(projects))].Id
		}
		c.single("embedded.accelerator.getProjectById", "accelerator", func() string {
			p, err := A.Accel.GetProjectById(id)
			want, werr := definition.GetProjectEntry(st, id)
			if werr != nil {
				if err == nil && p != nil {
					return fmt.Sprintf("unknown project %v answered", id)
				}
				return ""
			}
			if err != nil {
				return "error " + err.Error()
			}
			if p.Id != want.Id || p.Name != want.Name || p.Owner != want.Owner || p.Status != want.Status || c18Big(p.ZnnFundsNeeded) != c18Big(want.ZnnFundsNeeded) || len(p.Phases) != len(want.PhaseIds) {
				return fmt.Sprintf("project %v: got %+v want %+v", id, p, want)
			}
			return ""
		})
		c.single("embedded.accelerator.getVoteBreakdown", "accelerator", func() string {
			v, err := A.Accel.GetVoteBreakdown(id)
			if err != nil {
				return "error " + err.Error()
			}
			want := definition.GetVoteBreakdown(st, id)
			if v == nil || v.Total != want.Total || v.Yes != want.Yes || v.No != want.No {
				return fmt.Sprintf("votes of %v: got %+v want %+v", id, v, want)
			}
			return ""
		})
	})

	// ---- htlc
	t.Span(func() {
		st := tr.storage(types.HtlcContract)
		id := c.randomHash()
		if ids := c.wl.G.Ids[types.HtlcContract]; len(ids) > 0 && t.Choose(4) != 3 {
			id = ids[t.Choose(len(ids))]
		}
		c.single("embedded.htlc.getById", "htlc", func() string {
			h, err := A.Htlc.GetById(id)
			want, werr := definition.GetHtlcInfo(st, id)
			if werr != nil {
				if err == nil && h != nil {
					return fmt.Sprintf("unknown htlc %v answered", id)
				}
				return ""
			}
			if err != nil {
				return "error " + err.Error()
			}
			if h == nil || h.Id != want.Id || h.TimeLocked != want.TimeLocked || h.HashLocked != want.HashLocked || c18Big(h.Amount) != c18Big(want.Amount) || h.TokenStandard != want.TokenStandard || h.ExpirationTime != want.ExpirationTime {
				return fmt.Sprintf("htlc %v: got %+v want %+v", id, h, want)
			}
			c.r.Probe("htlc-entry-compared")
			return ""
		})
		a := c.address(users[t.Choose(len(users))])
		c.single("embedded.htlc.getProxyUnlockStatus", "htlc", func() string {
			ok, err := A.Htlc.GetProxyUnlockStatus(a)
			if err != nil {
				return "error " + err.Error()
			}
			want := true // documented default: proxy unlock allowed
			if info, err := definition.GetHtlcProxyUnlockInfo(st, a); err == nil {
				want = info.Allowed
			} else if err != constants.ErrDataNonExistent {
				return "truth: " + err.Error()
			}
			if ok != want {
				return fmt.Sprintf("%v: got %v want %v", a, ok, want)
			}
			return ""
		})
	})

	// ---- swap
	t.Span(func() {
		st := tr.storage(types.SwapContract)
		c.single("embedded.swap.getAssets", "swap", func() string {
			m, err := A.Swap.GetAssets()
			if err != nil {
				return "error " + err.Error()
			}
			want, err := definition.GetSwapAssets(st)
			if err != nil {
				return "truth: " + err.Error()
			}
			if len(m) != len(want) {
				return fmt.Sprintf("%d entries, storage has %d", len(m), len(want))
			}
			for _, w := range want {
				e := m[w.KeyIdHash]
				if e == nil || e.Znn.Cmp(w.Znn) > 0 || e.Qsr.Cmp(w.Qsr) > 0 {
					return fmt.Sprintf("entry %v: got %+v, storage (before decay) znn %s qsr %s", w.KeyIdHash, e, c18Big(w.Znn), c18Big(w.Qsr))
				}
			}
			return ""
		})
		c.single("embedded.swap.getLegacyPillars", "swap", func() string {
			l, err := A.Swap.GetLegacyPillars()
			if err != nil {
				return "error " + err.Error()
			}
			want, err := definition.GetLegacyPillarList(pst)
			if err != nil {
				return "truth: " + err.Error()
			}
			if len(l) != len(want) {
				return fmt.Sprintf("%d entries, storage has %d", len(l), len(want))
			}
			return ""
		})
	})

	// ---- bridge + liquidity lists
	t.Span(func() {
		st := tr.storage(types.BridgeContract)
		if nets, err := definition.GetNetworkList(st); err == nil {
			val := func(n *definition.NetworkInfo) c18Elem {
				return c18Elem{ID: fmt.Sprintf("%d/%d", n.NetworkClass, n.Id), Val: fmt.Sprintf("net %d/%d %q pairs %d", n.NetworkClass, n.Id, n.Name, len(n.TokenPairs))}
			}
			var truth []c18Elem
			for _, n := range nets {
				truth = append(truth, val(n))
			}
			c.r.Probes["bridge-networks-in-truth"] += len(truth)
			c.exercise(&c18List{API: "embedded.bridge.getAllNetworks", Class: "list", Limit: api.RpcMaxPageSize, Truth: truth, Total: int64(len(truth)),
				Call: func(i, s uint32) ([]c18Elem, int64, error) {
					l, err := A.Bridge.GetAllNetworks(i, s)
					if err != nil || l == nil {
						return nil, 0, c18Err(err, l == nil)
					}
					out := make([]c18Elem, 0, len(l.List))
					for _, n := range l.List {
						out = append(out, val(n))
					}
					return out, int64(l.Count), nil
				}}, draws, 2)
		}
		if reqs, err := definition.GetWrapTokenRequests(st); err == nil {
			var truth []c18Elem
			for _, q := range reqs {
				truth = append(truth, c18Elem{ID: q.Id.String(), Val: fmt.Sprintf("wrap %s %v %s", q.Id.String()[:12], q.TokenStandard, c18Big(q.Amount))})
			}
			c.r.Probes["bridge-wrap-requests-in-truth"] += len(truth)
			c.exercise(&c18List{API: "embedded.bridge.getAllWrapTokenRequests", Class: "list", Limit: api.RpcMaxPageSize, Truth: truth, Total: int64(len(truth)),
				Call: func(i, s uint32) ([]c18Elem, int64, error) {
					l, err := A.Bridge.GetAllWrapTokenRequests(i, s)
					if err != nil || l == nil {
						return nil, 0, c18Err(err, l == nil)
					}
					out := make([]c18Elem, 0, len(l.List))
					for _, q := range l.List {
						out = append(out, c18Elem{ID: q.Id.String(), Val: fmt.Sprintf("wrap %s %v %s", q.Id.String()[:12], q.TokenStandard, c18Big(q.Amount))})
					}
					return out, int64(l.Count), nil
				}}, draws, 2)
		}
		if reqs, err := definition.GetUnwrapTokenRequests(st); err == nil {
			var truth []c18Elem
			for _, q := range reqs {
				truth = append(truth, c18Elem{ID: fmt.Sprintf("%v/%d", q.TransactionHash, q.LogIndex), Val: fmt.Sprintf("unwrap %v/%d %s", q.TransactionHash, q.LogIndex, c18Big(q.Amount))})
			}
			c.r.Probes["bridge-unwrap-requests-in-truth"] += len(truth)
			c.exercise(&c18List{API: "embedded.bridge.getAllUnwrapTokenRequests", Class: "list", Limit: api.RpcMaxPageSize, Truth: truth, Total: int64(len(truth)),
				Call: func(i, s uint32) ([]c18Elem, int64, error) {
					l, err := A.Bridge.GetAllUnwrapTokenRequests(i, s)
					if err != nil || l == nil {
						return nil, 0, c18Err(err, l == nil)
					}
					out := make([]c18Elem, 0, len(l.List))
					for _, q := range l.List {
						out = append(out, c18Elem{ID: fmt.Sprintf("%v/%d", q.TransactionHash, q.LogIndex), Val: fmt.Sprintf("unwrap %v/%d %s", q.TransactionHash, q.LogIndex, c18Big(q.Amount))})
					}
					return out, int64(l.Count), nil
				}}, draws, 2)
		}
	})
	t.Span(func() {
		st := tr.storage(types.LiquidityContract)
		a := c.address(best(func(a types.Address) int {
			l, _, _, _ := definition.GetLiquidityStakeListByAddress(st, a)
			return len(l)
		}))
		list, _, _, err := definition.GetLiquidityStakeListByAddress(st, a)
		if err != nil {
			c.r.Skip("liquidity-stake-list-unreadable")
			return
		}
		sort.SliceStable(list, func(i, j int) bool {
			if list[i].ExpirationTime != list[j].ExpirationTime {
				return list[i].ExpirationTime < list[j].ExpirationTime
			}
			return list[i].Id.String() < list[j].Id.String()
		})
		val := func(e *definition.LiquidityStakeEntry) c18Elem {
			return c18Elem{ID: e.Id.String(), Key: fmt.Sprintf("%020d/%s", e.ExpirationTime, e.Id), Val: fmt.Sprintf("%s %v %v amount %s weighted %s start %d exp %d", e.Id.String()[:12], e.StakeAddress, e.TokenStandard, c18Big(e.Amount), c18Big(e.WeightedAmount), e.StartTime, e.ExpirationTime)}
		}
		var truth []c18Elem
		for _, e := range list {
			truth = append(truth, val(e))
		}
		c.r.Probes["liquidity-stakes-in-truth"] += len(truth)
		c.exercise(&c18List{API: "embedded.liquidity.getLiquidityStakeEntriesByAddress", Class: "list", Limit: api.RpcMaxPageSize, Truth: truth, Total: int64(len(truth)),
			Call: func(i, s uint32) ([]c18Elem, int64, error) {
				l, err := A.Liquidity.GetLiquidityStakeEntriesByAddress(a, i, s)
				if err != nil || l == nil {
					return nil, 0, c18Err(err, l == nil)
				}
				out := make([]c18Elem, 0, len(l.Entries))
				for _, e := range l.Entries {
					out = append(out, val(e))
				}
				return out, int64(l.Count), nil
			}}, draws, 2)
	})
}
