package checks

// C19 — wallet key files: exact round trip, tamper evidence, deterministic derivation.
//
// The simulated object is the key FILE AT REST: a file the wallet wrote is hit by a
// stored-byte fault (bit flip, byte overwrite, torn write, zeroed tail, stale or foreign
// version, torn in-place overwrite, logical field rewrite) and then read back by fresh
// objects (ReadKeyFile, a new wallet.Manager on the same directory).
// Oracle "never wrong data": a Decrypt that succeeds must return the entropy of a version that
// was legitimately written with exactly that password and whose decoded ciphertext, nonce and
// salt are the ones now stored; everything else must fail (and fail with an error, not a panic).
// The derivation clauses (mnemonic, seed, SLIP-0010 keys, address, sign/verify) are decided
// by plain input sampling on the same runs against the independent implementation below.

import (
	"bytes"
	"crypto/ed25519"
	"crypto/hmac"
	"crypto/pbkdf2"
	crand "crypto/rand"
	"crypto/sha256"
	"crypto/sha3"
	"crypto/sha512"
	"encoding/binary"
	"encoding/hex"
	"encoding/json"
	"fmt"
	"io"
	"os"
	"path/filepath"
	"sort"
	"strings"
	"time"

	"github.com/tyler-smith/go-bip39/wordlists"

	"github.com/zenon-network/go-zenon/common/types"
	"github.com/zenon-network/go-zenon/wallet"

	"verif/sim/simrt"
)

func init() { register("C19", runC19) }

// ---------------------------------------------------------------------------
// independent reference implementation (BIP-39, SLIP-0010 ed25519, address)
// ---------------------------------------------------------------------------

// c19Mnemonic is BIP-39 mnemonic generation written from the specification: ENT bits of
// entropy followed by the first ENT/32 bits of SHA-256(entropy), cut into 11-bit indices.
// Only the word list itself is shared with the library the wallet uses.
func c19Mnemonic(entropy []byte) (string, bool) {
	ent := len(entropy) * 8
	if ent < 128 || ent > 256 || ent%32 != 0 {
		return "", false
	}
	cs := sha256.Sum256(entropy)
	all := append(append([]byte(nil), entropy...), cs[:]...)
	total := ent + ent/32
	bit := func(i int) int { return int(all[i/8]>>(7-uint(i%8))) & 1 }
	var words []string
	for i := 0; i < total; i += 11 {
		idx := 0
		for j := 0; j < 11; j++ {
			idx = idx<<1 | bit(i+j)
		}
		words = append(words, wordlists.English[idx])
	}
	return strings.Join(words, " "), true
}

// c19Seed is the BIP-39 seed with the empty passphrase.
func c19Seed(mnemonic string) []byte {
	out, err := pbkdf2.Key(sha512.New, mnemonic, []byte("mnemonic"), 2048, 64)
	if err != nil {
		panic(err)
	}
	return out
}

// c19Slip10 is SLIP-0010 private derivation for ed25519: hardened children only.
func c19Slip10(seed []byte, path []uint32) (key, chain []byte, ok bool) {
	m := hmac.New(sha512.New, []byte("ed25519 seed"))
	m.Write(seed)
	I := m.Sum(nil)
	key, chain = I[:32], I[32:]
	for _, idx := range path {
		if idx < 0x80000000 {
			return nil, nil, false
		}
		m := hmac.New(sha512.New, chain)
		m.Write([]byte{0})
		m.Write(key)
		var b [4]byte
		binary.BigEndian.PutUint32(b[:], idx)
		m.Write(b[:])
		I = m.Sum(nil)
		key, chain = I[:32], I[32:]
	}
	return key, chain, true
}

const c19H = uint32(0x80000000)

func c19ZenonPath(index uint32) []uint32 { return []uint32{44 + c19H, 73404 + c19H, index + c19H} }

// c19Address is 0x00 ‖ sha3-256(pubkey)[:19] (standard library SHA-3, not x/crypto).
func c19Address(pub []byte) [20]byte {
	h := sha3.Sum256(pub)
	var a [20]byte
	copy(a[1:], h[:19])
	return a
}

type c19Ref struct {
	mnemonic string
	seed     []byte
	valid    bool
}

func c19RefFor(entropy []byte) *c19Ref {
	mn, ok := c19Mnemonic(entropy)
	if !ok {
		return &c19Ref{}
	}
	return &c19Ref{mnemonic: mn, seed: c19Seed(mn), valid: true}
}

func (rf *c19Ref) key(index uint32) (priv ed25519.PrivateKey, pub ed25519.PublicKey, addr [20]byte) {
	k, _, ok := c19Slip10(rf.seed, c19ZenonPath(index))
	if !ok {
		panic("c19: reference path not hardened")
	}
	priv = ed25519.NewKeyFromSeed(k)
	pub = priv.Public().(ed25519.PublicKey)
	return priv, pub, c19Address(pub)
}

// ---------------------------------------------------------------------------
// deterministic crypto/rand (nonce and salt of Encrypt come from crypto/rand.Reader)
// ---------------------------------------------------------------------------

type c19Rand struct {
	seed [32]byte
	ctr  uint64
	buf  []byte
}

func (d *c19Rand) Read(p []byte) (int, error) {
	for i := range p {
		if len(d.buf) == 0 {
			var c [8]byte
			binary.LittleEndian.PutUint64(c[:], d.ctr)
			d.ctr++
			h := sha256.Sum256(append(d.seed[:], c[:]...))
			d.buf = h[:]
		}
		p[i] = d.buf[0]
		d.buf = d.buf[1:]
	}
	return len(p), nil
}

// ---------------------------------------------------------------------------
// own decoder of the stored file
// ---------------------------------------------------------------------------

type c19FileJSON struct {
	BaseAddress *string `json:"baseAddress"`
	Crypto      *struct {
		CipherName   *string `json:"cipherName"`
		KDF          *string `json:"kdf"`
		CipherData   *string `json:"cipherData"`
		Nonce        *string `json:"nonce"`
		Argon2Params *struct {
			Salt *string `json:"salt"`
		} `json:"argon2Params"`
	} `json:"crypto"`
	Version   *json.Number `json:"version"`
	Timestamp *json.Number `json:"timestamp"`
}

type c19Fields struct {
	ct, nonce, salt []byte
	base            string
}

func (f *c19Fields) triple() string {
	return hex.EncodeToString(f.ct) + "/" + hex.EncodeToString(f.nonce) + "/" + hex.EncodeToString(f.salt)
}

func c19Unhex(s *string) ([]byte, bool) {
	if s == nil {
		return nil, true // absent field decodes to the empty value
	}
	v := *s
	if len(v) >= 2 && v[0] == '0' && (v[1] == 'x' || v[1] == 'X') {
		v = v[2:]
	} else if v != "" {
		return nil, false
	}
	b, err := hex.DecodeString(v)
	return b, err == nil
}

// c19Decode extracts the logical fields of a stored key file with encoding/json and
// encoding/hex; ok=false when the bytes are not a decodable document.
func c19Decode(raw []byte) (*c19Fields, bool) {
	var j c19FileJSON
	dec := json.NewDecoder(bytes.NewReader(raw))
	dec.UseNumber()
	if err := dec.Decode(&j); err != nil {
		return nil, false
	}
	if _, err := dec.Token(); err != io.EOF {
		return nil, false
	}
	f := &c19Fields{}
	if j.BaseAddress != nil {
		f.base = *j.BaseAddress
	}
	if j.Crypto == nil {
		return f, true
	}
	var ok1, ok2, ok3 bool
	f.ct, ok1 = c19Unhex(j.Crypto.CipherData)
	f.nonce, ok2 = c19Unhex(j.Crypto.Nonce)
	ok3 = true
	if j.Crypto.Argon2Params != nil {
		f.salt, ok3 = c19Unhex(j.Crypto.Argon2Params.Salt)
	}
	return f, ok1 && ok2 && ok3
}

// ---------------------------------------------------------------------------
// versions, passwords, faults
// ---------------------------------------------------------------------------

type c19Version struct {
	entropy  []byte
	password string
	raw      []byte // bytes the wallet wrote
	f        *c19Fields
	ref      *c19Ref
}

var c19PwClasses = []string{"ascii", "empty", "unicode", "long-1KiB", "binary", "space-padded"}

func c19Password(r *simrt.Run, class int) string {
	t := r.T
	switch class {
	case 0:
		const al = "abcdefghijklmnopqrstuvwxyzABCDEFGHIJKLMNOPQRSTUVWXYZ0123456789!#$%&/()=?-_.,;:"
		n := 1 + t.Choose(24)
		b := make([]byte, n)
		for i := range b {
			b[i] = al[t.Choose(len(al))]
		}
		return string(b)
	case 1:
		return ""
	case 2:
		parts := []string{"p\u00e4", "\u00dfw\u00f6rd", "\u5bc6\u7801", "\u043f\u0430\u0440\u043e\u043b\u044c", "\U0001F511", "\u00e9", "e\u0301", "\ufb01", "\u202e", "\uff50\uff41\uff53\uff53"}
		n := 1 + t.Choose(4)
		s := ""
		for i := 0; i < n; i++ {
			s += parts[t.Choose(len(parts))]
		}
		return s
	case 3:
		unit := []string{"a", "0123456789abcdef", "\u9577\u3044"}[t.Choose(3)]
		s := strings.Repeat(unit, 1024/len(unit)+1)
		return s[:1024]
	case 4:
		return string(t.Bytes(1 + t.Choose(40))) // arbitrary bytes incl. NUL and invalid UTF-8
	default:
		return " " + c19Password(r, 0) + " "
	}
}

// c19Others returns passwords that differ from pw (near misses first).
func c19Others(pw string) []string {
	cand := []string{pw + " ", pw + "\x00", "", strings.ToUpper(pw), strings.ToLower(pw), strings.TrimSpace(pw), pw + pw, "password",
		strings.ReplaceAll(pw, "\u00e9", "e\u0301"), strings.ReplaceAll(pw, "e\u0301", "\u00e9")}
	if len(pw) > 0 {
		cand = append(cand, pw[:len(pw)-1], pw[1:])
		b := []byte(pw)
		b[len(b)/2] ^= 1
		cand = append(cand, string(b))
	}
	var out []string
	seen := map[string]bool{pw: true}
	for _, c := range cand {
		if !seen[c] {
			seen[c] = true
			out = append(out, c)
		}
	}
	return out
}

var c19FaultKinds = []string{"none", "bit-flip", "byte-overwrite", "truncate", "zero-tail", "stale-version", "foreign-file",
	"torn-overwrite", "field-rewrite", "stale-tail"}

// c19MakeKeyStore reaches the wallet's own constructor (unexported keyStoreFromEntropy)
// through exported API only: Encrypt of a bare entropy holder followed by Decrypt.
func c19MakeKeyStore(r *simrt.Run, entropy []byte) (*wallet.KeyStore, error) {
	boot := &wallet.KeyStore{Entropy: append([]byte(nil), entropy...)}
	kf, err := boot.Encrypt("boot")
	if err != nil {
		return nil, err
	}
	return kf.Decrypt("boot")
}

func c19Write(r *simrt.Run, ks *wallet.KeyStore, pw, path string) []byte {
	kf, err := ks.Encrypt(pw)
	if err != nil {
		r.Fail("roundtrip", "encrypt-error", "Encrypt failed: %v", err)
	}
	kf.Path = path
	if err := kf.Write(); err != nil {
		r.Fail("roundtrip", "write-error", "KeyFile.Write failed: %v", err)
	}
	raw, err := os.ReadFile(path)
	if err != nil {
		r.Fail("roundtrip", "write-error", "written key file unreadable: %v", err)
	}
	return raw
}

// c19Decrypt calls Decrypt and turns a panic into an error value plus a report.
func c19Decrypt(r *simrt.Run, kf *wallet.KeyFile, pw, what string) (ks *wallet.KeyStore, err error, panicked bool) {
	defer func() {
		if p := recover(); p != nil {
			panicked = true
			err = fmt.Errorf("panic: %v", p)
			r.Report("decrypt-panic", what, "KeyFile.Decrypt panicked instead of returning an error (%s): %v", what, p)
		}
	}()
	ks, err = kf.Decrypt(pw)
	return ks, err, false
}

func c19Sha(b []byte) string { h := sha256.Sum256(b); return hex.EncodeToString(h[:6]) }

func runC19(r *simrt.Run) {
	t := r.T
	prev := crand.Reader
	crand.Reader = &c19Rand{seed: sha256.Sum256(t.Bytes(8))}
	r.Cleanup(func() { crand.Reader = prev })

	// KeyFile.Write stores the file's own path inside the document, so the path must be the
	// same in every execution of a seed: work in a fresh directory through relative paths
	// (the worker runs one bubble at a time; the working directory is restored afterwards).
	cwd, cerr := os.Getwd()
	if cerr != nil {
		panic(cerr)
	}
	if err := os.Chdir(r.TempDir()); err != nil {
		panic(err)
	}
	r.Cleanup(func() { os.Chdir(cwd) })
	dir := "wallet"
	if err := os.MkdirAll(dir, 0o700); err != nil {
		panic(err)
	}
	path := filepath.Join(dir, "keyfile")
	fault := t.Pick([]int{2, 5, 3, 2, 1, 2, 2, 3, 5, 1})
	kind := c19FaultKinds[fault]
	needTwo := kind == "stale-version" || kind == "foreign-file" || kind == "torn-overwrite" || kind == "stale-tail"

	// ---- legitimate versions of the file ----
	var versions []*c19Version
	mkVersion := func(sameSizeAs int) *c19Version {
		var size int
		switch {
		case sameSizeAs > 0 && t.Choose(3) != 2:
			size = sameSizeAs
		default:
			size = []int{32, 16, 24, 20, 28}[t.Choose(5)]
		}
		v := &c19Version{entropy: t.Bytes(size)}
		switch t.Choose(12) {
		case 1:
			v.entropy = make([]byte, size) // all zero
		case 2:
			v.entropy = bytes.Repeat([]byte{0xff}, size)
		}
		pc := t.Choose(len(c19PwClasses))
		v.password = c19Password(r, pc)
		v.ref = c19RefFor(v.entropy)
		r.Probe("entropy-bytes-" + fmt.Sprint(size))
		r.Probe("password-" + c19PwClasses[pc])
		r.Logf("version %d: entropy %d bytes %s, password class %s (%d bytes)", len(versions), size, c19Sha(v.entropy), c19PwClasses[pc], len(v.password))
		return v
	}
	var keystores []*wallet.KeyStore
	nver := 1
	if needTwo {
		nver = 2
	}
	for i := 0; i < nver; i++ {
		t.Span(func() {
			same := 0
			if i > 0 {
				same = len(versions[0].entropy)
			}
			v := mkVersion(same)
			if i > 0 && t.Choose(4) == 1 {
				v.password = versions[0].password // password kept across versions
				r.Probe("versions-share-password")
			}
			ks, err := c19MakeKeyStore(r, v.entropy)
			if err != nil || ks == nil {
				r.Fail("roundtrip", "constructor", "fresh key store for %d bytes of entropy could not be built through Encrypt/Decrypt: %v", len(v.entropy), err)
			}
			if !bytes.Equal(ks.Entropy, v.entropy) {
				r.Fail("roundtrip", "wrong-entropy", "bootstrap round trip returned entropy %x for %x", ks.Entropy, v.entropy)
			}
			versions = append(versions, v)
			keystores = append(keystores, ks)
		})
	}
	// oldest version is written first, the current one (index 0) last, all to the same path
	// except for a foreign file, which lives next to it
	for i := nver - 1; i >= 0; i-- {
		p := path
		if kind == "foreign-file" && i == 1 {
			p = filepath.Join(dir, "other-keyfile")
		}
		time.Sleep(time.Duration(1+r.T.Choose(100000)) * time.Second) // versions are written at different (simulated) times
		versions[i].raw = c19Write(r, keystores[i], versions[i].password, p)
		f, ok := c19Decode(versions[i].raw)
		if !ok {
			r.Fail("roundtrip", "written-file-undecodable", "file written by the wallet is not decodable JSON/hex: %q", versions[i].raw)
		}
		versions[i].f = f
		// clause: the address recorded in the file is the index-0 address
		if versions[i].ref.valid {
			_, _, a0 := versions[i].ref.key(0)
			got, err := types.ParseAddress(f.base)
			if err != nil || got != types.Address(a0) {
				r.Report("base-address", "file-not-index0", "file written for entropy %x records baseAddress %q, independent index-0 address is %v", versions[i].entropy, f.base, types.Address(a0))
			}
			r.Probe("file-base-address-checked")
		}
		r.Logf("wrote version %d: %d bytes sha %s", i, len(versions[i].raw), c19Sha(versions[i].raw))
	}
	cur := versions[0]

	// ---- the fault ----
	stored := append([]byte(nil), cur.raw...)
	detail := ""
	t.Span(func() {
		switch kind {
		case "none":
		case "bit-flip", "byte-overwrite":
			pos := c19Position(r, cur)
			if kind == "bit-flip" {
				b := t.Choose(8)
				stored[pos] ^= 1 << uint(b)
				detail = fmt.Sprintf("offset %d bit %d (%q -> %q)", pos, b, cur.raw[pos], stored[pos])
			} else {
				n := 1 + t.Choose(4)
				for k := 0; k < n && pos+k < len(stored); k++ {
					nb := byte(t.Choose(256))
					if t.Choose(3) == 0 {
						const repl = "0123456789abcdefABCDEF\"x, {}:"
						nb = repl[t.Choose(len(repl))]
					}
					stored[pos+k] = nb
				}
				detail = fmt.Sprintf("offset %d len %d", pos, n)
			}
		case "truncate":
			off := t.Choose(len(stored))
			stored = stored[:off]
			detail = fmt.Sprintf("file cut at %d of %d", off, len(cur.raw))
		case "zero-tail":
			off := t.Choose(len(stored))
			for k := off; k < len(stored); k++ {
				stored[k] = 0
			}
			detail = fmt.Sprintf("zeroed from %d of %d", off, len(cur.raw))
		case "stale-version", "foreign-file":
			stored = append([]byte(nil), versions[1].raw...)
			detail = "whole file is version 1"
		case "torn-overwrite":
			// in-place overwrite of version 1 by version 0 interrupted at offset off
			off := t.Choose(len(cur.raw) + 1)
			if t.Choose(2) == 0 {
				off = c19Position(r, cur)
			}
			old := versions[1].raw
			stored = append([]byte(nil), cur.raw[:off]...)
			if off < len(old) {
				stored = append(stored, old[off:]...)
			}
			detail = fmt.Sprintf("first %d bytes new, rest old (new %d, old %d bytes)", off, len(cur.raw), len(old))
		case "stale-tail":
			old := versions[1].raw
			k := 1 + t.Choose(len(old))
			stored = append(stored, old[len(old)-k:]...)
			detail = fmt.Sprintf("%d stale bytes after the document", k)
		case "field-rewrite":
			stored, detail = c19Rewrite(r, cur)
		}
	})
	if kind != "none" {
		r.Fault(kind)
	}
	if err := os.WriteFile(path, stored, 0o600); err != nil {
		panic(err)
	}
	r.Logf("fault %s: %s -> stored %d bytes sha %s", kind, detail, len(stored), c19Sha(stored))

	// which legitimate version (if any) do the stored bytes / decoded fields correspond to?
	identical := -1
	for i, v := range versions {
		if bytes.Equal(stored, v.raw) {
			identical = i
			break
		}
	}
	sf, decodable := c19Decode(stored)
	tripleOf := -1
	if decodable {
		for i, v := range versions {
			if sf.triple() == v.f.triple() {
				tripleOf = i
				break
			}
		}
	}
	switch {
	case identical >= 0:
		r.Probe("stored-identical-to-a-version")
	case !decodable:
		r.Probe("stored-undecodable")
	case tripleOf >= 0:
		r.Probe("stored-altered-outside-crypto-fields")
	default:
		r.Probe("stored-crypto-fields-altered")
	}

	// ---- restart: fresh reader on the same path ----
	kf, rerr := wallet.ReadKeyFile(path)
	r.Logf("ReadKeyFile: ok=%v", rerr == nil)
	decrypts, accepted := 0, 0
	if rerr != nil {
		r.Probe("read-rejected")
		if identical >= 0 {
			r.Report("roundtrip", "read-failed", "ReadKeyFile rejects a file that is byte-identical to what the wallet wrote: %v", rerr)
		}
	} else {
		r.Probe("read-accepted")
		// cross-check our decoder against the wallet's view of the three fields
		if decodable {
			own := sf.triple()
			theirs := (&c19Fields{ct: kf.Crypto.CipherData, nonce: kf.Crypto.AesNonce, salt: kf.Crypto.Argon2Params.Salt}).triple()
			if own != theirs {
				r.Skip("decoder-disagreement")
				r.Logf("decoder disagreement own=%s wallet=%s", own, theirs)
				decodable = false
			}
		}
		if !decodable {
			// judge by the wallet's own decoded fields
			sf = &c19Fields{ct: kf.Crypto.CipherData, nonce: kf.Crypto.AesNonce, salt: kf.Crypto.Argon2Params.Salt, base: kf.BaseAddress.String()}
			tripleOf = -1
			for i, v := range versions {
				if sf.triple() == v.f.triple() {
					tripleOf = i
				}
			}
			r.Probe("judged-by-wallet-decoding")
		}
		// passwords to try: each version's own, then a few others
		var tries []string
		seen := map[string]bool{}
		add := func(p string) {
			if !seen[p] {
				seen[p] = true
				tries = append(tries, p)
			}
		}
		add(cur.password)
		if nver > 1 {
			add(versions[1].password)
		}
		others := c19Others(cur.password)
		nOther := 1
		if nver == 1 {
			nOther = 1 + t.Choose(2)
		}
		if r.Tier == "thorough" {
			nOther += 2
		}
		for k := 0; k < nOther && len(others) > 0; k++ {
			add(others[t.Choose(len(others))])
		}
		for _, pw := range tries {
			ks, derr, _ := c19Decrypt(r, kf, pw, c19PanicClass(sf))
			decrypts++
			owner := -1 // version whose password this is and whose crypto fields are stored
			for i, v := range versions {
				if v.password == pw && i == tripleOf {
					owner = i
				}
			}
			r.Logf("Decrypt(password %d bytes sha %s): ok=%v", len(pw), c19Sha([]byte(pw)), derr == nil)
			if derr == nil {
				accepted++
				switch {
				case owner < 0 && tripleOf >= 0:
					r.Report("decrypt-accepts", "wrong-password", "fault %s: Decrypt succeeded with a password (%q) that is not the one version %d was written with; returned entropy %x", kind, c19Trunc(pw), tripleOf, ks.Entropy)
				case owner < 0:
					r.Report("decrypt-accepts", "tampered", "fault %s (%s): stored ciphertext/nonce/salt %s are not those of any written version, yet Decrypt succeeded and returned entropy %x", kind, detail, sf.triple(), ks.Entropy)
				default:
					v := versions[owner]
					if !bytes.Equal(ks.Entropy, v.entropy) {
						r.Report("decrypt-accepts", "wrong-entropy", "fault %s: Decrypt returned entropy %x, the file was created from %x", kind, ks.Entropy, v.entropy)
					} else {
						r.Probe("decrypt-ok-exact-entropy")
						c19CheckKeyStore(r, ks, v)
						if sf.base != v.f.base {
							r.Probe("altered-base-address-still-decrypts")
						}
					}
				}
			} else {
				r.Probe("decrypt-refused")
				if identical >= 0 && versions[identical].password == pw && versions[identical].ref.valid {
					r.Report("roundtrip", "decrypt-failed", "file byte-identical to version %d does not decrypt with its own password: %v", identical, derr)
				}
			}
		}
	}

	// ---- by-product: derivation, signatures, addresses (input sampling) ----
	t.Span(func() { c19Derivation(r, cur, keystores[0]) })

	// ---- entropy sizes BIP-39 does not allow: whatever happens, never other data ----
	if t.Choose(10) == 1 {
		t.Span(func() {
			size := []int{0, 1, 15, 17, 33, 36, 40, 64, 12}[t.Choose(9)]
			e := t.Bytes(size)
			ks, err := c19MakeKeyStore(r, e)
			r.Logf("entropy of %d bytes: key store built=%v", size, err == nil)
			if err == nil {
				r.Probe("odd-entropy-size-accepted")
				if !bytes.Equal(ks.Entropy, e) {
					r.Report("decrypt-accepts", "wrong-entropy", "round trip of %d bytes of entropy %x returned %x", size, e, ks.Entropy)
				}
			} else {
				r.Probe("odd-entropy-size-refused")
			}
		})
	}

	// ---- wallet.Manager over a directory with intact and damaged files ----
	if t.Choose(3) == 1 || (r.Tier == "thorough" && t.Choose(2) == 1) {
		t.Span(func() { c19Manager(r, versions, keystores, stored) })
	}

	r.NonTrivial = decrypts > 0
	r.Finger = c19Sha(stored) + fmt.Sprintf("-%s-%d/%d", kind, accepted, decrypts)
	r.Sample["fault"] = kind
	r.Sample["fault_detail"] = detail
	r.Sample["entropy_bytes"] = len(cur.entropy)
	r.Sample["read_ok"] = rerr == nil
	r.Sample["decrypts"] = decrypts
	r.Sample["decrypts_accepted"] = accepted
}

func c19Trunc(s string) string {
	if len(s) > 40 {
		return s[:40] + "…"
	}
	return s
}

// c19PanicClass gives the stable discriminator for a Decrypt panic: what is unusual about
// the stored crypto fields.
func c19PanicClass(f *c19Fields) string {
	switch {
	case len(f.nonce) != 12:
		return "nonce-length"
	case len(f.ct) < 16:
		return "short-ciphertext"
	case len(f.salt) == 0:
		return "empty-salt"
	}
	return "other"
}

// c19Position picks a byte offset of the written file by position class.
func c19Position(r *simrt.Run, v *c19Version) int {
	t := r.T
	raw := v.raw
	find := func(sub string) (int, int) {
		i := bytes.Index(raw, []byte(sub))
		if i < 0 {
			return 0, len(raw)
		}
		return i, len(sub)
	}
	class := t.Pick([]int{3, 4, 2, 2, 1, 1})
	var start, n int
	name := ""
	switch class {
	case 0:
		start, n, name = 0, len(raw), "anywhere"
	case 1:
		start, n = find(hex.EncodeToString(v.f.ct))
		name = "ciphertext-hex"
	case 2:
		start, n = find(hex.EncodeToString(v.f.nonce))
		name = "nonce-hex"
	case 3:
		start, n = find(hex.EncodeToString(v.f.salt))
		name = "salt-hex"
	case 4:
		start, n = find(v.f.base)
		name = "base-address"
	default:
		start, n = find("\"crypto\"")
		n += 60
		if start+n > len(raw) {
			n = len(raw) - start
		}
		name = "structure"
	}
	r.Probe("position-" + name)
	return start + t.Choose(n)
}

// c19Rewrite re-encodes the document with one logical field changed (a multi-byte
// corruption that keeps the file well formed).
func c19Rewrite(r *simrt.Run, v *c19Version) ([]byte, string) {
	t := r.T
	var doc map[string]any
	if err := json.Unmarshal(v.raw, &doc); err != nil {
		panic(err)
	}
	cr := doc["crypto"].(map[string]any)
	ar := cr["argon2Params"].(map[string]any)
	hx := func(b []byte) string { return "0x" + hex.EncodeToString(b) }
	mutate := func(b []byte) []byte {
		b = append([]byte(nil), b...)
		switch t.Choose(6) {
		case 0:
			if len(b) > 0 {
				b[t.Choose(len(b))] ^= byte(1 << uint(t.Choose(8)))
			}
		case 1:
			if len(b) > 0 {
				b = b[:len(b)-1-t.Choose(len(b))]
			}
		case 2:
			b = append(b, t.Bytes(1+t.Choose(8))...)
		case 3:
			b = nil
		case 4:
			if len(b) > 1 {
				b = b[1:]
			}
		default:
			b = t.Bytes(len(b))
		}
		return b
	}
	what := t.Pick([]int{3, 4, 3, 3, 2, 1, 1, 1, 1})
	name := ""
	switch what {
	case 0:
		cr["cipherData"] = hx(mutate(v.f.ct))
		name = "cipherData"
	case 1:
		cr["nonce"] = hx(mutate(v.f.nonce))
		name = "nonce"
	case 2:
		ar["salt"] = hx(mutate(v.f.salt))
		name = "salt"
	case 3:
		// another well-formed address: the index-1 address of the same entropy or a random one
		var a types.Address
		copy(a[1:], t.Bytes(19))
		if v.ref.valid && t.Choose(2) == 0 {
			_, _, a1 := v.ref.key(1)
			a = types.Address(a1)
		}
		doc["baseAddress"] = a.String()
		name = "baseAddress"
	case 4:
		// same bytes, upper-case hex digits
		cr["cipherData"] = "0x" + strings.ToUpper(hex.EncodeToString(v.f.ct))
		cr["nonce"] = "0x" + strings.ToUpper(hex.EncodeToString(v.f.nonce))
		name = "hex-case"
	case 5:
		doc["timestamp"] = 0
		name = "timestamp"
	case 6:
		doc["extra"] = "field"
		name = "unknown-field"
	case 7:
		delete(ar, "salt")
		name = "salt-removed"
	default:
		delete(cr, "nonce")
		name = "nonce-removed"
	}
	r.Probe("rewrite-" + name)
	out, err := json.MarshalIndent(doc, "", "    ")
	if err != nil {
		panic(err)
	}
	return out, "field " + name + " rewritten"
}

// c19CheckKeyStore compares everything a decrypted key store exposes with the reference.
func c19CheckKeyStore(r *simrt.Run, ks *wallet.KeyStore, v *c19Version) {
	if !v.ref.valid {
		r.Report("derivation", "invalid-entropy-size-accepted", "key store built from %d bytes of entropy, which BIP-39 does not allow", len(v.entropy))
		return
	}
	if ks.Mnemonic != v.ref.mnemonic {
		r.Report("derivation", "mnemonic", "entropy %x: mnemonic %q, independent BIP-39 gives %q", v.entropy, ks.Mnemonic, v.ref.mnemonic)
	}
	if !bytes.Equal(ks.Seed, v.ref.seed) {
		r.Report("derivation", "seed", "entropy %x: seed %x, independent PBKDF2-HMAC-SHA512 gives %x", v.entropy, ks.Seed, v.ref.seed)
	}
	_, _, a0 := v.ref.key(0)
	if ks.BaseAddress != types.Address(a0) {
		r.Report("base-address", "keystore-not-index0", "entropy %x: key store base address %v, independent index-0 address %v", v.entropy, ks.BaseAddress, types.Address(a0))
	}
	r.Probe("keystore-vs-reference")
}

// c19KnownAnswers pins both the reference and the wallet to published vectors (SLIP-0010
// ed25519 test vector 1, the BIP-39 all-zero vector, and the test mnemonic of the Zenon SDKs
// with its well-known base address). Constants in source: equality in every worker process
// is the "same result in a fresh process" evidence.
func c19KnownAnswers(r *simrt.Run) {
	unhex := func(s string) []byte { b, _ := hex.DecodeString(s); return b }
	seed := unhex("000102030405060708090a0b0c0d0e0f")
	for _, kat := range []struct {
		path string
		idx  []uint32
		pub  string
	}{
		{"m/0'", []uint32{c19H}, "8c8a13df77a28f3445213a0f432fde644acaa215fc72dcdf300d5efaa85d350c"},
		{"m/0'/1'/2'/2'/1000000000'", []uint32{c19H, 1 + c19H, 2 + c19H, 2 + c19H, 1000000000 + c19H}, "3c24da049451555d51a7014a37337aa4e12d41e485abccfa46b47dfb2af54b7a"},
	} {
		k, _, _ := c19Slip10(seed, kat.idx)
		if hex.EncodeToString(ed25519.NewKeyFromSeed(k).Public().(ed25519.PublicKey)) != kat.pub {
			r.Fail("harness", "reference-slip10", "the independent SLIP-0010 implementation does not reproduce test vector 1 at %s", kat.path)
		}
		kp, err := wallet.DeriveForPath(kat.path, seed)
		if err != nil || hex.EncodeToString(kp.Public) != kat.pub {
			r.Report("derivation", "slip10-test-vector", "DeriveForPath(%q) on SLIP-0010 test vector 1: got %v, published public key %s", kat.path, kp, kat.pub)
		}
	}
	if mn, _ := c19Mnemonic(make([]byte, 16)); mn != "abandon abandon abandon abandon abandon abandon abandon abandon abandon abandon abandon about" ||
		hex.EncodeToString(c19Seed(mn)) != "5eb00bbddcf069084889a8ab9155568165f5c453ccb85e70811aaed6f6da5fc19a5ac40b389cd370d086206dec8aa6c43daea6690f20ad3d8d48b2d2ce9e38e4" {
		r.Fail("harness", "reference-bip39", "the independent BIP-39 implementation does not reproduce the all-zero vector")
	}
	ent := unhex("bc827d0a00a72354dce4c44a59485288500b49382f9ba88a016351787b7b15ca")
	mn, _ := c19Mnemonic(ent)
	const sdkMnemonic = "route become dream access impulse price inform obtain engage ski believe awful absent pig thing vibrant possible exotic flee pepper marble rural fire fancy"
	if mn != sdkMnemonic {
		r.Fail("harness", "reference-bip39", "reference mnemonic for the SDK test entropy is %q", mn)
	}
	kp, err := wallet.DeriveWithIndex(0, c19Seed(mn))
	if err != nil || kp.Address.String() != "z1qqjnwjjpnue8xmmpanz6csze6tcmtzzdtfsww7" {
		r.Report("derivation", "sdk-test-vector", "index-0 address of the SDK test mnemonic: got %v err %v, published z1qqjnwjjpnue8xmmpanz6csze6tcmtzzdtfsww7", kp, err)
	}
	r.Probe("known-answer-vectors")
}

// c19Derivation: plain input sampling of the pure derivation clauses.
func c19Derivation(r *simrt.Run, v *c19Version, ks *wallet.KeyStore) {
	t := r.T
	c19KnownAnswers(r)
	if !v.ref.valid {
		return
	}
	c19CheckKeyStore(r, ks, v)
	idxs := []uint32{0, 1, uint32(t.Choose(128)), uint32(t.Choose(1 << 31)), 1<<31 - 1}
	n := 2 + t.Choose(3)
	var lastKP *wallet.KeyPair
	for _, i := range idxs[:n] {
		_, kp, err := ks.DeriveForIndexPath(i)
		if err != nil || kp == nil {
			r.Report("derivation", "index-refused", "DeriveForIndexPath(%d) failed: %v", i, err)
			continue
		}
		priv, pub, addr := v.ref.key(i)
		if !bytes.Equal(kp.Public, pub) || !bytes.Equal(kp.Private, priv) {
			r.Report("derivation", "keypair", "entropy %x index %d: public key %x, independent SLIP-0010 gives %x", v.entropy, i, []byte(kp.Public), []byte(pub))
		}
		if kp.Address != types.Address(addr) {
			r.Report("derivation", "address", "index %d: address %v, 0x00‖sha3-256(pub)[:19] is %v", i, kp.Address, types.Address(addr))
		}
		if types.PubKeyToAddress(kp.Public) != types.Address(addr) {
			r.Report("derivation", "pubkey-to-address", "PubKeyToAddress(%x) = %v, expected %v", []byte(kp.Public), types.PubKeyToAddress(kp.Public), types.Address(addr))
		}
		if back, err := types.ParseAddress(kp.Address.String()); err != nil || back != kp.Address {
			r.Report("derivation", "address-text", "address %x does not survive its text form %q: %v", kp.Address.Bytes(), kp.Address.String(), err)
		}
		// second, stateless entry point and determinism of repetition
		kp2, err := wallet.DeriveWithIndex(i, ks.Seed)
		if err != nil || !bytes.Equal(kp2.Private, kp.Private) {
			r.Report("derivation", "not-deterministic", "DeriveWithIndex(%d) differs from DeriveForIndexPath(%d)", i, i)
		}
		r.Probe("index-derivations-compared")
		lastKP = kp
	}
	// free-form hardened paths
	depth := 1 + t.Choose(6)
	var pth []uint32
	s := "m"
	for k := 0; k < depth; k++ {
		x := uint32(t.Choose(1 << 31))
		if t.Choose(3) == 0 {
			x = uint32(t.Choose(3))
		}
		pth = append(pth, x+c19H)
		s += fmt.Sprintf("/%d'", x)
	}
	kp, err := wallet.DeriveForPath(s, ks.Seed)
	k, _, _ := c19Slip10(v.ref.seed, pth)
	if err != nil {
		r.Report("derivation", "hardened-path-refused", "DeriveForPath(%q) failed: %v", s, err)
	} else if !bytes.Equal(kp.Private.Seed(), k) {
		r.Report("derivation", "path", "DeriveForPath(%q): private seed %x, independent SLIP-0010 gives %x", s, kp.Private.Seed(), k)
	}
	r.Probe("free-paths-compared")
	// non-hardened or malformed paths must be refused
	i := t.Choose(1 << 31)
	bad := []string{
		fmt.Sprintf("m/44'/73404'/%d", i),
		fmt.Sprintf("m/44/73404'/%d'", i),
		fmt.Sprintf("m/44'/73404/%d'", i),
		fmt.Sprintf("m/%d", i),
		fmt.Sprintf("m/44'/73404'/%d'", uint64(i)+1<<31), // i' with i >= 2^31 is not a hardened index
		"m/44'/73404'/4294967295'",
		"m/44'/73404'/4294967296'",
		"m", "", "m/", "44'/73404'/0'", "m/44'/73404'/0'/", "m/44'/73404'/-1'", "m/44'/73404'/0''", "M/44'/73404'/0'", " m/44'/73404'/0'",
		"m/44'/73404'/0'\n", "m/44h/73404h/0h",
	}
	b := bad[t.Choose(len(bad))]
	for _, p := range []string{bad[0], b} {
		if kp, err := wallet.DeriveForPath(p, ks.Seed); err == nil {
			r.Report("derivation", "non-hardened-accepted", "DeriveForPath(%q) returned key %x instead of refusing", p, []byte(kp.Public))
		}
		if _, kp, err := ks.DeriveForFullPath(p); err == nil {
			r.Report("derivation", "non-hardened-accepted", "DeriveForFullPath(%q) returned key %x instead of refusing", p, []byte(kp.Public))
		}
		r.Probe("bad-paths-refused")
	}
	for _, big := range []uint32{1 << 31, 1<<31 + uint32(i), 1<<32 - 1}[:1+t.Choose(3)] {
		if _, kp, err := ks.DeriveForIndexPath(big); err == nil {
			r.Report("derivation", "non-hardened-accepted", "DeriveForIndexPath(%d) (index beyond 2^31-1) returned key %x instead of refusing", big, []byte(kp.Public))
		}
	}
	// signatures
	if lastKP == nil {
		return
	}
	msg := t.Bytes(t.Choose(200))
	sig := lastKP.Sign(msg)
	ok, err := wallet.VerifySignature(lastKP.Public, msg, sig)
	if err != nil || !ok {
		r.Report("signature", "own-rejected", "signature by a derived key does not verify under its public key: ok=%v err=%v", ok, err)
	}
	if !ed25519.Verify(ed25519.PublicKey(append([]byte(nil), lastKP.Public...)), msg, sig) {
		r.Report("signature", "own-rejected", "signature does not verify with crypto/ed25519 directly")
	}
	sd, ap, pk, err := lastKP.Signer(msg)
	if err != nil || !bytes.Equal(sd, sig) || ap == nil || *ap != lastKP.Address || !bytes.Equal(pk, lastKP.Public) {
		r.Report("signature", "signer", "Signer() disagrees with Sign()/Address/Public: err=%v", err)
	}
	if types.PubKeyToAddress(pk) != lastKP.Address {
		r.Report("signature", "pubkey-address", "public key returned by Signer does not map to the signer's address")
	}
	msg2 := append(append([]byte(nil), msg...), 0)
	if len(msg) > 0 && t.Bool() {
		msg2 = append([]byte(nil), msg...)
		msg2[t.Choose(len(msg2))] ^= byte(1 << uint(t.Choose(8)))
	}
	if ok, _ := wallet.VerifySignature(lastKP.Public, msg2, sig); ok {
		r.Report("signature", "altered-message-accepted", "signature verifies for an altered message")
	}
	_, other, _ := ks.DeriveForIndexPath(uint32(2 + t.Choose(100)))
	if other != nil && !bytes.Equal(other.Public, lastKP.Public) {
		if ok, _ := wallet.VerifySignature(other.Public, msg, sig); ok {
			r.Report("signature", "other-key-accepted", "signature verifies under another derived key")
		}
	}
	sig2 := append([]byte(nil), sig...)
	sig2[t.Choose(len(sig2))] ^= byte(1 << uint(t.Choose(8)))
	if ok, _ := wallet.VerifySignature(lastKP.Public, msg, sig2); ok {
		r.Report("signature", "altered-signature-accepted", "altered signature verifies")
	}
	if ok, err := wallet.VerifySignature(lastKP.Public[:31], msg, sig); ok || err == nil {
		r.Report("signature", "short-key-accepted", "31-byte public key: ok=%v err=%v", ok, err)
	}
	r.Probe("signatures-checked")
}

// c19Manager: a wallet directory with intact files, a damaged one and clutter, read by a
// fresh Manager (process restart), by a second fresh Manager after Stop, and by the same
// Manager object started again.
func c19Manager(r *simrt.Run, versions []*c19Version, kss []*wallet.KeyStore, damaged []byte) {
	t := r.T
	// the Manager needs an absolute WalletDir (MakePathAbsolut is applied twice on the way to
	// Unlock); nothing below depends on the bytes of that path
	wd := r.TempDir()
	type ent struct {
		name string
		v    *c19Version
	}
	// relocate gives the bytes the wallet would have written at newPath: KeyFile.Write
	// stores its own path inside the document, everything else is kept.
	relocate := func(raw []byte, newPath string) []byte {
		var doc map[string]any
		if err := json.Unmarshal(raw, &doc); err != nil {
			return raw
		}
		old, _ := doc["Path"].(string)
		if old == "" {
			return raw
		}
		return bytes.Replace(raw, []byte(old), []byte(newPath), 1)
	}
	var intact []ent
	for i, v := range versions {
		if !v.ref.valid {
			continue
		}
		name := fmt.Sprintf("key-%d", i)
		if err := os.WriteFile(filepath.Join(wd, name), relocate(v.raw, filepath.Join(wd, name)), 0o600); err != nil {
			panic(err)
		}
		intact = append(intact, ent{name, v})
	}
	os.WriteFile(filepath.Join(wd, "damaged"), relocate(damaged, filepath.Join(wd, "damaged")), 0o600)
	os.WriteFile(filepath.Join(wd, "notes.txt"), []byte("not a key file"), 0o600)
	os.WriteFile(filepath.Join(wd, "empty"), nil, 0o600)
	os.WriteFile(filepath.Join(wd, ".hidden"), versions[0].raw, 0o600)
	os.WriteFile(filepath.Join(wd, "backup~"), versions[0].raw, 0o600)
	os.MkdirAll(filepath.Join(wd, "subdir"), 0o700)
	// moved/copied files: bytes exactly as written elsewhere (their embedded path is stale)
	moved := t.Choose(2) == 1
	if moved && len(intact) > 0 {
		// a copy of key-0 under another name, and (if there is one) an older version kept
		// next to it as a backup that was originally written to key-0's path
		os.WriteFile(filepath.Join(wd, "moved-key"), relocate(intact[0].v.raw, filepath.Join(wd, "elsewhere", "key")), 0o600)
		if len(intact) > 1 {
			os.WriteFile(filepath.Join(wd, "key-0.old"), relocate(intact[1].v.raw, filepath.Join(wd, "key-0")), 0o600)
		}
		r.Probe("manager-moved-files")
	}
	sameTriple := func(kf *wallet.KeyFile, v *c19Version) bool {
		return (&c19Fields{ct: kf.Crypto.CipherData, nonce: kf.Crypto.AesNonce, salt: kf.Crypto.Argon2Params.Salt}).triple() == v.f.triple()
	}
	var reuse *wallet.Manager
	for round := 0; round < 3; round++ {
		var m *wallet.Manager
		if round < 2 {
			m = wallet.New(&wallet.Config{WalletDir: wd})
			reuse = m
		} else {
			// same object started again after Stop
			if t.Choose(2) == 0 {
				break
			}
			m = reuse
			r.Probe("manager-same-object-restart")
		}
		if err := m.Start(); err != nil {
			r.Report("manager", "start-failed", "Manager.Start over a directory with one damaged file failed: %v", err)
			return
		}
		list, err := m.ListEntropyFilesInStandardDir()
		if err != nil {
			r.Report("manager", "list-failed", "listing failed: %v", err)
			return
		}
		var names []string
		for _, kf := range list {
			names = append(names, filepath.Base(kf.Path))
		}
		sort.Strings(names)
		r.Logf("manager round %d lists %v", round, names)
		for _, e := range intact {
			kf, err := m.GetKeyFile(e.name)
			if err != nil {
				r.Report("manager", "intact-not-found", "GetKeyFile(%s) next to a damaged file: %v (listed: %v)", e.name, err, names)
				continue
			}
			if !sameTriple(kf, e.v) {
				if moved {
					r.Report("manager-path", "sibling-shadows-keyfile", "GetKeyFile(%s) returns the content of another file of the directory (key-0.old, whose embedded Path names %s)", e.name, e.name)
				} else {
					r.Report("manager", "wrong-file", "GetKeyFile(%s) returns other crypto fields than the file holds", e.name)
				}
				continue
			}
			_, _, a0 := e.v.ref.key(0)
			if kf.BaseAddress != types.Address(a0) {
				r.Report("manager", "base-address", "listed key file %s has base address %v, expected %v", e.name, kf.BaseAddress, types.Address(a0))
			}
		}
		if moved && len(intact) > 0 {
			if _, err := m.GetKeyFile("moved-key"); err != nil {
				r.Report("manager-path", "moved-file-not-found", "a key file copied into the wallet directory under the name moved-key is not found by that name: %v (listed as %v)", err, names)
			}
		}
		for _, n := range names {
			if n == ".hidden" || n == "backup~" || n == "notes.txt" || n == "empty" || n == "subdir" {
				r.Report("manager", "clutter-listed", "%s is listed as a key file", n)
			}
		}
		if len(intact) == 0 {
			m.Stop()
			continue
		}
		e := intact[t.Choose(len(intact))]
		func() {
			defer func() {
				if p := recover(); p != nil {
					if round == 2 {
						r.Report("manager", "restart-panic", "Manager started again after Stop panics on Unlock: %v", p)
					} else {
						r.Report("manager", "unlock-panic", "Manager.Unlock panicked: %v", p)
					}
				}
			}()
			// wrong password first: must not unlock
			if round == 0 && t.Bool() {
				wrong := c19Others(e.v.password)[0]
				if err := m.Unlock(e.name, wrong); err == nil {
					if kf, _ := m.GetKeyFile(e.name); kf != nil && sameTriple(kf, e.v) {
						r.Report("decrypt-accepts", "wrong-password", "Manager.Unlock(%s) succeeded with a wrong password", e.name)
					}
				} else if ks, err := m.GetKeyStore(e.name); err == nil && ks != nil {
					r.Report("manager", "unlocked-after-wrong-password", "key store available after a failed unlock")
				}
			}
			kf, _ := m.GetKeyFile(e.name)
			if kf == nil || !sameTriple(kf, e.v) {
				return // already reported above
			}
			if err := m.Unlock(e.name, e.v.password); err != nil {
				r.Report("manager", "intact-unlock-failed", "Manager.Unlock(%s) with the right password next to a damaged file: %v", e.name, err)
			} else {
				ks, err := m.GetKeyStore(e.name)
				if err != nil || ks == nil || !bytes.Equal(ks.Entropy, e.v.entropy) {
					r.Report("manager", "wrong-keystore", "GetKeyStore(%s) after unlock: err=%v", e.name, err)
				} else {
					c19CheckKeyStore(r, ks, e.v)
					r.Probe("manager-unlock-ok")
					// while the file is unlocked, another password still must not open it, and asking must
					// not disturb the unlocked store
					for _, wrong := range []string{c19Others(e.v.password)[0], ""} {
						if wrong == e.v.password {
							continue
						}
						if ks2, err := m.GetKeyFileAndDecrypt(e.name, wrong); err == nil && ks2 != nil {
							r.Report("decrypt-accepts", "wrong-password", "Manager.GetKeyFileAndDecrypt(%s) succeeded with a wrong password while the file was unlocked", e.name)
						}
						r.Probe("manager-wrong-password-while-unlocked")
					}
					if ks3, err := m.GetKeyFileAndDecrypt(e.name, e.v.password); err != nil || ks3 == nil || !bytes.Equal(ks3.Entropy, e.v.entropy) {
						r.Report("manager", "decrypt-while-unlocked", "GetKeyFileAndDecrypt(%s) with the right password while unlocked: err=%v", e.name, err)
					}
					if ks4, err := m.GetKeyStore(e.name); err != nil || ks4 == nil || !bytes.Equal(ks4.Entropy, e.v.entropy) {
						r.Report("manager", "unlocked-store-disturbed", "the unlocked key store of %s no longer holds its entropy after decrypt requests: err=%v", e.name, err)
					}
					// lock and unlock again on the same manager
					m.Lock(e.name)
					if ks5, err := m.GetKeyStore(e.name); err == nil && ks5 != nil {
						r.Report("manager", "still-unlocked-after-lock", "GetKeyStore(%s) succeeds after Lock", e.name)
					}
					if err := m.Unlock(e.name, e.v.password); err != nil {
						r.Report("manager", "second-unlock-failed", "second Unlock(%s) with the right password on the same manager: %v", e.name, err)
					}
				}
			}
		}()
		if _, err := m.GetKeyFile("no-such-file"); err == nil {
			r.Report("manager", "ghost-file", "GetKeyFile of a non-existent name succeeded")
		}
		m.Stop()
		r.Probe("manager-rounds")
	}
}
