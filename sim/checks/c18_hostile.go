package checks

// C18 phase C: an in-process rpc/server with the ledger and embedded APIs,
// driven over net.Pipe stream connections (the codec IPC/stdio use) and through
// the HTTP handler with in-memory recorders. Valid requests must answer exactly
// what a direct call on the API object answers; hostile byte streams must be
// answered with JSON-RPC errors or a closed connection, and must not disturb
// other connections or kill the process.
//
// A panic on a server goroutine outside callback.call's recover would kill the
// worker process. To attribute such a defect the harness pre-screens every
// well-formed request on the run goroutine: it performs the same three steps the
// server performs (decode the positional arguments into the method's parameter
// types, call, marshal the result) under recover and reports
// "server-survives|panic-outside-recover-*" instead of sending the request.

import (
	"bytes"
	"encoding"
	"encoding/json"
	"fmt"
	"io"
	"net"
	"net/http/httptest"
	"reflect"
	"runtime"
	"sort"
	"strings"
	"sync"
	"testing/synctest"
	"time"
	"unicode"

	"github.com/zenon-network/go-zenon/common/types"
	"github.com/zenon-network/go-zenon/rpc/api/embedded"
	"github.com/zenon-network/go-zenon/rpc/server"
)

type c18Method struct {
	name string
	fn   reflect.Value
	rcvr reflect.Value
	args []reflect.Type
	errI int
}

type c18Server struct {
	c       *c18
	srv     *server.Server
	methods map[string]*c18Method
	names   []string
	conns   []*c18Conn
	nextID  int
}

var c18ErrorType = reflect.TypeOf((*error)(nil)).Elem()

func newC18Server(c *c18) *c18Server {
	s := &c18Server{c: c, srv: server.NewServer(), methods: map[string]*c18Method{}}
	for _, svc := range c.apis.Services {
		if err := s.srv.RegisterName(svc.NS, svc.Svc); err != nil {
			c.r.Fail("harness", "register", "%s: %v", svc.NS, err)
		}
		rv := reflect.ValueOf(svc.Svc)
		typ := rv.Type()
		for m := 0; m < typ.NumMethod(); m++ {
			meth := typ.Method(m)
			if meth.PkgPath != "" {
				continue
			}
			ft := meth.Func.Type()
			if ft.NumOut() > 2 {
				continue
			}
			cm := &c18Method{fn: meth.Func, rcvr: rv, errI: -1}
			switch {
			case ft.NumOut() == 1 && ft.Out(0).Implements(c18ErrorType):
				cm.errI = 0
			case ft.NumOut() == 2:
				if !ft.Out(1).Implements(c18ErrorType) {
					continue
				}
				cm.errI = 1
			}
			for i := 1; i < ft.NumIn(); i++ {
				cm.args = append(cm.args, ft.In(i))
			}
			rn := []rune(meth.Name)
			rn[0] = unicode.ToLower(rn[0])
			cm.name = svc.NS + "." + string(rn)
			s.methods[cm.name] = cm
			s.names = append(s.names, cm.name)
		}
	}
	sort.Strings(s.names)
	return s
}

// ---- direct evaluation (pre-screen and expected answer)

type c18Direct struct {
	isErr  bool   // the server must answer with an error object
	result []byte // JSON of the result otherwise
	stage  string // non-empty: a panic happened at this stage
	pan    *c18Panic
}

func (s *c18Server) direct(method string, params json.RawMessage) *c18Direct {
	m := s.methods[method]
	if m == nil {
		return &c18Direct{isErr: true}
	}
	d := &c18Direct{}
	var args []reflect.Value
	bad := false
	if p := c18Safe(func() {
		var raws []json.RawMessage
		trim := bytes.TrimSpace(params)
		if len(trim) > 0 && !bytes.Equal(trim, []byte("null")) {
			if err := json.Unmarshal(trim, &raws); err != nil {
				bad = true
				return
			}
		}
		if len(raws) > len(m.args) {
			bad = true
			return
		}
		for i, raw := range raws {
			v := reflect.New(m.args[i])
			if err := json.Unmarshal(raw, v.Interface()); err != nil {
				bad = true
				return
			}
			args = append(args, v.Elem())
		}
		for i := len(raws); i < len(m.args); i++ {
			if m.args[i].Kind() != reflect.Ptr {
				bad = true
				return
			}
			args = append(args, reflect.Zero(m.args[i]))
		}
	}); p != nil {
		d.stage, d.pan = "decode-args", p
		return d
	}
	if bad {
		d.isErr = true
		return d
	}
	var outs []reflect.Value
	if p := c18Safe(func() { outs = m.fn.Call(append([]reflect.Value{m.rcvr}, args...)) }); p != nil {
		// callback.call recovers this one: "method handler crashed"
		s.c.r.Probe("handler-panic-recovered-by-server")
		d.isErr = true
		return d
	}
	if m.errI >= 0 && !outs[m.errI].IsNil() {
		d.isErr = true
		return d
	}
	if len(outs) == 0 || (m.errI == 0 && len(outs) == 1) {
		d.result = []byte("null")
		return d
	}
	res := outs[0].Interface()
	var err error
	if p := c18Safe(func() { d.result, err = json.Marshal(res) }); p != nil {
		d.stage, d.pan = "marshal-result", p
		return d
	}
	if err != nil {
		d.isErr = true
		return d
	}
	// Observation outside the property statement (never a violation): the result
	// types carry hand-written UnmarshalJSON methods for Go clients; note which of
	// them cannot read back what the server sends.
	if rt := outs[0].Type(); rt.Kind() == reflect.Ptr && !outs[0].IsNil() {
		v := reflect.New(rt.Elem())
		var uerr error
		if p := c18Safe(func() { uerr = json.Unmarshal(d.result, v.Interface()) }); p != nil {
			s.c.r.Probe("observation.result-unmarshal-panics." + rt.Elem().String())
		} else if uerr != nil {
			s.c.r.Probe("observation.result-unmarshal-fails." + rt.Elem().String())
		} else if again, err := json.Marshal(v.Interface()); err == nil && !c18SameJSON(again, d.result) {
			s.c.r.Probe("observation.result-unmarshal-lossy." + rt.Elem().String())
		}
	}
	return d
}

// ---- stream connections

type c18Conn struct {
	cli    net.Conn
	mu     sync.Mutex
	msgs   []json.RawMessage
	closed bool
	taken  int
}

func (s *c18Server) dial() *c18Conn {
	p1, p2 := net.Pipe()
	go s.srv.ServeCodec(server.NewCodec(p1), 0)
	cn := &c18Conn{cli: p2}
	go func() {
		dec := json.NewDecoder(p2)
		for {
			var raw json.RawMessage
			if err := dec.Decode(&raw); err != nil {
				cn.mu.Lock()
				cn.closed = true
				cn.mu.Unlock()
				return
			}
			cn.mu.Lock()
			cn.msgs = append(cn.msgs, raw)
			cn.mu.Unlock()
		}
	}()
	s.conns = append(s.conns, cn)
	return cn
}

// send writes the bytes (in chunks, so that a server that stopped reading cannot
// block the run forever: the pipe honours the bubble clock's deadline) and waits
// until every goroutine in the bubble is idle.
func (cn *c18Conn) send(b []byte) error {
	cn.cli.SetWriteDeadline(time.Now().Add(2 * time.Minute))
	_, err := cn.cli.Write(b)
	synctest.Wait()
	return err
}

func (cn *c18Conn) take() ([]json.RawMessage, bool) {
	cn.mu.Lock()
	defer cn.mu.Unlock()
	out := cn.msgs[cn.taken:]
	cn.taken = len(cn.msgs)
	return out, cn.closed
}

func (cn *c18Conn) close() {
	cn.cli.Close()
	synctest.Wait()
}

// ---- response judging

type c18Resp struct {
	Version string           `json:"jsonrpc"`
	ID      json.RawMessage  `json:"id"`
	Result  json.RawMessage  `json:"result"`
	Error   *json.RawMessage `json:"error"`
}

func c18ParseResp(raw json.RawMessage) (*c18Resp, string) {
	var r c18Resp
	dec := json.NewDecoder(bytes.NewReader(raw))
	if err := dec.Decode(&r); err != nil {
		return nil, "response is not a JSON-RPC object: " + err.Error()
	}
	if r.Version != "2.0" {
		return nil, fmt.Sprintf("response has jsonrpc=%q", r.Version)
	}
	hasErr := r.Error != nil && !bytes.Equal(bytes.TrimSpace(*r.Error), []byte("null"))
	hasRes := len(r.Result) > 0
	if hasErr == hasRes {
		return nil, fmt.Sprintf("response must have exactly one of result/error: %s", c18Clip(raw))
	}
	if hasErr {
		var e struct {
			Code    *int    `json:"code"`
			Message *string `json:"message"`
		}
		if json.Unmarshal(*r.Error, &e) != nil || e.Code == nil || e.Message == nil {
			return nil, "error member is not {code,message}: " + c18Clip(raw)
		}
	}
	return &r, ""
}

func (r *c18Resp) isError() bool { return r.Error != nil && len(r.Result) == 0 }

func c18SameJSON(a, b []byte) bool {
	var ca, cb bytes.Buffer
	if json.Compact(&ca, a) == nil && json.Compact(&cb, b) == nil && bytes.Equal(ca.Bytes(), cb.Bytes()) {
		return true
	}
	var va, vb any
	da, dbb := json.NewDecoder(bytes.NewReader(a)), json.NewDecoder(bytes.NewReader(b))
	da.UseNumber()
	dbb.UseNumber()
	if da.Decode(&va) != nil || dbb.Decode(&vb) != nil {
		return false
	}
	return reflect.DeepEqual(va, vb)
}

// ---- request generation

func (s *c18Server) id() int { s.nextID++; return s.nextID }

func c18Req(id any, method string, params string) []byte {
	idj, _ := json.Marshal(id)
	mj, _ := json.Marshal(method)
	if params == "" {
		return []byte(fmt.Sprintf(`{"jsonrpc":"2.0","id":%s,"method":%s}`, idj, mj))
	}
	return []byte(fmt.Sprintf(`{"jsonrpc":"2.0","id":%s,"method":%s,"params":%s}`, idj, mj, params))
}

// validArg renders a JSON value of the parameter type, small enough to keep
// answers small.
func (s *c18Server) validArg(t reflect.Type) string {
	c, tp := s.c, s.c.r.T
	q := func(v fmt.Stringer) string { b, _ := json.Marshal(v.String()); return string(b) }
	switch t {
	case reflect.TypeOf(types.Address{}):
		return q(c.address(c.w.Users[tp.Choose(len(c.w.Users))].Address))
	case reflect.TypeOf(types.Hash{}):
		switch tp.Choose(3) {
		case 0:
			return q(c.tr.moms[tp.Choose(len(c.tr.moms))].Hash)
		case 1:
			a := c.tr.accounts[tp.Choose(len(c.tr.accounts))]
			return q(c.tr.chain[a][tp.Choose(len(c.tr.chain[a]))].Hash)
		default:
			return q(c.randomHash())
		}
	case reflect.TypeOf(types.ZenonTokenStandard{}):
		if len(c.tr.tokens) > 0 && tp.Choose(4) != 3 {
			return q(c.tr.tokens[tp.Choose(len(c.tr.tokens))].TokenStandard)
		}
		var z types.ZenonTokenStandard
		copy(z[:], tp.Bytes(len(z)))
		return q(z)
	case reflect.TypeOf([]types.Hash{}):
		return "[" + q(c.randomHash()) + "]"
	case reflect.TypeOf(embedded.GetRequiredParam{}):
		return fmt.Sprintf(`{"address":%s,"blockType":2,"toAddress":%s,"data":""}`, q(c.w.Users[0].Address), q(c.w.Users[1].Address))
	}
	switch t.Kind() {
	case reflect.Uint32, reflect.Uint64, reflect.Int64, reflect.Uint8, reflect.Int, reflect.Uint:
		if tp.Choose(8) == 7 {
			return fmt.Sprint(c18Bounds32[tp.Choose(len(c18Bounds32))])
		}
		return fmt.Sprint(tp.Choose(12))
	case reflect.String:
		return []string{`"TEST-pillar-1"`, `""`, `"x"`, `"TEST-pillar-cool"`}[tp.Choose(4)]
	case reflect.Bool:
		return "false"
	}
	return "null"
}

// validRequest builds a well-formed request for a tape-chosen read-only method.
func (s *c18Server) validRequest() (method, params string) {
	tp := s.c.r.T
	for {
		method = s.names[tp.Choose(len(s.names))]
		if method != "ledger.publishRawTransaction" {
			break
		}
	}
	m := s.methods[method]
	parts := make([]string, 0, len(m.args))
	for _, at := range m.args {
		parts = append(parts, s.validArg(at))
	}
	return method, "[" + strings.Join(parts, ",") + "]"
}

// wrongArg renders a JSON value that is not acceptable for the parameter type.
func (s *c18Server) wrongArg(t reflect.Type) string {
	tp := s.c.r.T
	isNum := false
	switch t.Kind() {
	case reflect.Uint32, reflect.Uint64, reflect.Int64, reflect.Uint8, reflect.Int, reflect.Uint:
		isNum = true
	}
	if isNum {
		huge := []string{`"7"`, `-1`, `1.5`, `18446744073709551616`, `1e400`, `340282366920938463463374607431768211456`, `{}`, `[1]`, `true`, `"0x10"`, `4294967296`, `-9223372036854775809`}
		v := huge[tp.Choose(len(huge))]
		if v == `4294967296` && t.Kind() != reflect.Uint32 {
			v = `1e400`
		}
		if v == `-1` && t.Kind() == reflect.Int64 {
			v = `-9223372036854775809`
		}
		return v
	}
	if t.Kind() == reflect.String {
		return []string{`5`, `{}`, `[]`, `true`}[tp.Choose(4)]
	}
	wrong := []string{`5`, `"z1qqqq"`, `"not-a-value"`, `{}`, `[[]]`, `true`, `""`, `"` + strings.Repeat("f", 63) + `"`, `"z1` + strings.Repeat("q", 80) + `"`}
	v := wrong[tp.Choose(9)]
	// an empty object IS a value of a plain struct or map parameter (every field optional): not a wrong type
	// there (false alarm corrected: embedded.plasma.getRequiredPoWForAccountBlock[{}] legitimately answers)
	if v == `{}` && c18PlainObject(t) {
		v = `5`
	}
	return v
}

func c18PlainObject(t reflect.Type) bool {
	if t.Kind() == reflect.Ptr {
		t = t.Elem()
	}
	if t.Kind() != reflect.Struct && t.Kind() != reflect.Map {
		return false
	}
	ju := reflect.TypeOf((*json.Unmarshaler)(nil)).Elem()
	tu := reflect.TypeOf((*encoding.TextUnmarshaler)(nil)).Elem()
	return !t.Implements(ju) && !reflect.PtrTo(t).Implements(ju) && !t.Implements(tu) && !reflect.PtrTo(t).Implements(tu)
}

// ---- the phase

type c18Expect int

const (
	c18MustError  c18Expect = iota // an error answer (or a closed connection)
	c18WellFormed                  // any well-formed JSON-RPC answer
	c18Silent                      // no answer is correct (notification)
)

func (s *c18Server) violation(disc, format string, a ...any) {
	s.c.r.Report("server", disc, format, a...)
}

// checkValid sends one valid request on cn and requires the direct answer.
func (s *c18Server) checkValid(cn *c18Conn, why string) bool {
	c := s.c
	method, params := s.validRequest()
	d := s.direct(method, json.RawMessage(params))
	if d.stage != "" {
		c.note("valid %s %s: panic at %s", method, params, d.stage)
		c.r.Report("server-survives", "panic-outside-recover-"+d.stage, "request %s%s makes the server panic while it %s, outside callback.call's recover (a real server process would die): %v at %s", method, params, d.stage, d.pan.v, c18Short(d.pan.stack))
		return true
	}
	id := s.id()
	c.r.Probe("rpc." + method)
	if err := cn.send(c18Req(id, method, params)); err != nil {
		s.violation("valid-request-unanswered", "%s: write of valid request %s%s failed: %v", why, method, params, err)
		return false
	}
	msgs, closed := cn.take()
	if len(msgs) != 1 {
		s.violation("valid-request-unanswered", "%s: valid request %s%s got %d answers (connection closed=%v)", why, method, params, len(msgs), closed)
		return false
	}
	resp, bad := c18ParseResp(msgs[0])
	if bad != "" {
		s.violation("malformed-answer", "%s: valid request %s%s: %s", why, method, params, bad)
		return false
	}
	if string(bytes.TrimSpace(resp.ID)) != fmt.Sprint(id) {
		s.violation("wrong-id", "%s: request id %d answered with id %s", why, id, resp.ID)
		return false
	}
	c.compared++
	if d.isErr != resp.isError() {
		c.note("valid %s %s -> MISMATCH", method, params)
		s.violation("answer-differs-from-api", "%s: %s%s: direct call error=%v, server answered %s", why, method, params, d.isErr, c18Clip(msgs[0]))
		return false
	}
	if !d.isErr && !c18SameJSON(resp.Result, d.result) {
		c.note("valid %s %s -> MISMATCH", method, params)
		s.violation("answer-differs-from-api", "%s: %s%s: server result %s, direct call result %s", why, method, params, c18Clip(resp.Result), c18Clip(d.result))
		return false
	}
	c.note("valid %s %s -> ok (error=%v, %d bytes)", method, params, d.isErr, len(msgs[0]))
	return true
}

// judge checks the answers to one hostile payload.
func (s *c18Server) judge(class string, exp c18Expect, msgs []json.RawMessage, closed bool, payloadDesc string) {
	if len(msgs) == 0 {
		if exp == c18Silent || closed {
			return
		}
		s.violation("hostile-request-ignored/"+class, "%s: neither an answer nor a closed connection", payloadDesc)
		return
	}
	for _, raw := range msgs {
		trim := bytes.TrimSpace(raw)
		var elems []json.RawMessage
		if len(trim) > 0 && trim[0] == '[' {
			if err := json.Unmarshal(trim, &elems); err != nil {
				s.violation("malformed-answer/"+class, "%s: answer is not valid JSON: %v", payloadDesc, err)
				return
			}
		} else {
			elems = []json.RawMessage{raw}
		}
		for _, e := range elems {
			resp, bad := c18ParseResp(e)
			if bad != "" {
				s.violation("malformed-answer/"+class, "%s: %s", payloadDesc, bad)
				return
			}
			if exp == c18MustError && !resp.isError() {
				s.violation("hostile-request-succeeded/"+class, "%s: answered with a result instead of an error: %s", payloadDesc, c18Clip(e))
				return
			}
		}
	}
}

func (c *c18) phaseServer() {
	t := c.r.T
	synctest.Wait()
	base := runtime.NumGoroutine()
	s := newC18Server(c)
	c.r.Cleanup(func() {
		for _, cn := range s.conns {
			cn.cli.Close()
		}
		s.srv.Stop()
	})
	poolBefore := len(c.p.Chain.GetAllUncommittedAccountBlocks())
	control := s.dial()
	// valid traffic first: the generic call script over every registered method
	for i, k := 0, 6+t.Choose(10); i < k; i++ {
		t.Span(func() { s.checkValid(control, "warm-up") })
	}
	nHostile := 6 + t.Choose(10)
	for i := 0; i < nHostile; i++ {
		t.Span(func() {
			s.hostile(control)
			// the next valid request on another connection must be answered
			other := control
			if t.Choose(3) == 0 {
				other = s.dial()
			}
			if _, closed := other.take(); closed {
				s.violation("unrelated-connection-closed", "the control connection was closed by the server although nothing hostile was sent on it")
				control = s.dial()
				other = control
			}
			if !s.checkValid(other, "after hostile request") && other == control {
				control = s.dial()
			}
			if other != control {
				other.close()
			}
		})
	}
	// tear down: every connection closed => handler goroutines gone
	for _, cn := range s.conns {
		cn.cli.Close()
	}
	synctest.Wait()
	s.srv.Stop()
	synctest.Wait()
	if after := runtime.NumGoroutine(); after > base+8 {
		c.r.Report("server", "goroutine-leak", "goroutines before the server phase: baseline, after closing %d connections and stopping the server: baseline+%d", len(s.conns), after-base)
	}
	if n := len(c.p.Chain.GetAllUncommittedAccountBlocks()); n != poolBefore {
		c.r.Report("server", "hostile-request-changed-ledger", "the unconfirmed pool went from %d to %d blocks during the server phase although only read-only and invalid requests were sent", poolBefore, n)
	}
}

func c18Repeat(open, close string, n int, inner string) string {
	return strings.Repeat(open, n) + inner + strings.Repeat(close, n)
}

// hostile sends one tape-chosen hostile payload, mostly on a fresh connection
// (the server is entitled to close it), sometimes over HTTP.
func (s *c18Server) hostile(control *c18Conn) {
	c, t := s.c, s.c.r.T
	c.hostile++
	classes := []string{"malformed-json", "truncated", "closed-mid-request", "big-batch", "deep-nesting", "wrong-param-types", "wrong-param-count",
		"oversize-string", "unknown-method", "id-abuse", "duplicate-keys", "non-utf8", "huge-numbers", "null-params", "hostile-publish", "http-abuse", "interleaved"}
	class := classes[t.Choose(len(classes))]
	c.r.Fault(class)
	overHTTP := t.Choose(4) == 3
	method, params := s.validRequest()
	m := s.methods[method]
	var payload []byte
	exp := c18MustError
	desc := class
	closeAfter := false // the server waits for more input: close our side and expect it to hang up

	switch class {
	case "malformed-json":
		switch t.Choose(6) {
		case 0:
			payload = []byte(`{"jsonrpc":"2.0","id":1,"method":"ledger.getFrontierMomentum","params":[}`)
		case 1:
			payload = []byte(`{{{{`)
		case 2:
			payload = []byte(`]`)
		case 3:
			payload = append([]byte(`{"jsonrpc":"2.0","id":1,"method":`), t.Bytes(1+t.Choose(64))...)
			payload = append(payload, '}', '\n')
		case 4:
			payload = []byte(`{"jsonrpc":"2.0","id":1,"method":"ledger.getFrontierMomentum",}`)
		default:
			payload = []byte("\x00\x01\x02 garbage \n")
		}
	case "truncated":
		full := c18Req(1, method, params)
		payload = full[:t.Choose(len(full))]
		exp, closeAfter = c18Silent, true
		if overHTTP {
			exp = c18MustError
		}
	case "closed-mid-request":
		full := c18Req(1, method, params)
		payload = full[:1+t.Choose(len(full)-1)]
		exp, closeAfter = c18Silent, true
		overHTTP = false
	case "big-batch":
		n := 10000
		if t.Choose(8) == 7 || c.r.Tier == "thorough" {
			n = 100000
		}
		var b bytes.Buffer
		b.WriteByte('[')
		zero := types.Hash{}.String()
		for i := 0; i < n; i++ {
			if i > 0 {
				b.WriteByte(',')
			}
			switch i % 4 {
			case 0:
				fmt.Fprintf(&b, `{"jsonrpc":"2.0","id":%d,"method":"ledger.getMomentumByHash","params":["%s"]}`, i, zero)
			case 1:
				fmt.Fprintf(&b, `{"jsonrpc":"2.0","id":%d,"method":"nosuch.method"}`, i)
			case 2:
				b.WriteString(`7`)
			default:
				fmt.Fprintf(&b, `{"jsonrpc":"2.0","id":%d,"method":"ledger.getMomentumsByPage","params":["x"]}`, i)
			}
		}
		b.WriteByte(']')
		payload = b.Bytes()
		exp = c18WellFormed
		desc = fmt.Sprintf("batch of %d elements", n)
		if overHTTP && len(payload) > 5*1024*1024 {
			exp = c18MustError
		}
	case "deep-nesting":
		depth := []int{9000, 10001, 20000, 100000}[t.Choose(4)]
		switch t.Choose(3) {
		case 0:
			payload = []byte(c18Repeat("[", "]", depth, ""))
		case 1:
			payload = c18Req(1, method, c18Repeat("[", "]", depth, ""))
		default:
			payload = []byte(c18Repeat(`{"a":`, "}", depth, "1"))
		}
		desc = fmt.Sprintf("nesting depth %d", depth)
	case "wrong-param-types":
		if len(m.args) == 0 {
			params = `[1]`
		} else {
			parts := make([]string, len(m.args))
			for i, at := range m.args {
				parts[i] = s.validArg(at)
			}
			k := t.Choose(len(m.args))
			parts[k] = s.wrongArg(m.args[k])
			params = "[" + strings.Join(parts, ",") + "]"
			if t.Choose(6) == 5 {
				params = []string{`{}`, `"x"`, `5`, `{"0":1}`}[t.Choose(4)]
			}
		}
		payload = c18Req(s.id(), method, params)
		desc = method + params
	case "wrong-param-count":
		parts := make([]string, 0, len(m.args)+3)
		for _, at := range m.args {
			parts = append(parts, s.validArg(at))
		}
		nonPtr := 0
		for _, at := range m.args {
			if at.Kind() != reflect.Ptr {
				nonPtr++
			}
		}
		if t.Bool() && nonPtr > 0 {
			parts = parts[:t.Choose(nonPtr)]
		} else {
			for i, k := 0, 1+t.Choose(3); i < k; i++ {
				parts = append(parts, "1")
			}
		}
		params = "[" + strings.Join(parts, ",") + "]"
		payload = c18Req(s.id(), method, params)
		desc = method + params
	case "oversize-string":
		size := (1 + t.Choose(6)) << 20
		big := strings.Repeat("A", size)
		switch t.Choose(3) {
		case 0:
			payload = c18Req(s.id(), "ledger.getAccountInfoByAddress", `["`+big+`"]`)
		case 1:
			payload = c18Req(s.id(), "ledger."+big, "")
		default:
			payload = c18Req(big, "ledger.getFrontierMomentum", "")
			exp = c18WellFormed
		}
		desc = fmt.Sprintf("string of %d MiB", size>>20)
		if overHTTP && len(payload) > 5*1024*1024 {
			exp = c18MustError
		}
	case "unknown-method":
		name := []string{"nosuch.method", "ledger.noSuchMethod", "ledger", "", ".", "ledger.", ".getFrontierMomentum", "embedded.getAll", "ledger.GetFrontierMomentum", "rpc.nothing", "ledger.getFrontierMomentum.x", "ledger.unsubscribe", "x.subscribe"}[t.Choose(13)]
		payload = c18Req(s.id(), name, `[]`)
		desc = fmt.Sprintf("method %q", name)
	case "id-abuse":
		switch t.Choose(8) {
		case 5: // a response nobody asked for
			payload = []byte(`{"jsonrpc":"2.0","id":7,"result":{"x":1}}`)
			exp = c18Silent
		case 6: // a subscription notification nobody subscribed to
			payload = []byte(`{"jsonrpc":"2.0","method":"ledger.subscription","params":{"subscription":"0xdead","result":[1,2,3]}}`)
			exp = c18Silent
		case 7:
			payload = []byte(`{"jsonrpc":"2.0","id":8,"error":{"code":"x","message":5}}`)
			exp = c18Silent
		case 0:
			payload = []byte(`{"jsonrpc":"2.0","id":null,"method":"ledger.getFrontierMomentum"}`)
			exp = c18WellFormed
		case 1:
			payload = []byte(`{"jsonrpc":"2.0","id":{"a":1},"method":"ledger.getFrontierMomentum"}`)
		case 2:
			payload = []byte(`{"jsonrpc":"2.0","id":[1],"method":"ledger.getFrontierMomentum"}`)
		case 3:
			payload = []byte(`{"jsonrpc":"2.0","method":"ledger.getFrontierMomentum"}`) // notification
			exp = c18Silent
		default:
			payload = []byte(`{"jsonrpc":"2.0","id":1e999,"method":"ledger.getFrontierMomentum"}`)
			exp = c18WellFormed
		}
	case "duplicate-keys":
		payload = []byte(`{"jsonrpc":"2.0","id":1,"id":2,"method":"ledger.getFrontierMomentum","method":"nosuch.method","params":[],"params":[1,2]}`)
		exp = c18WellFormed
	case "non-utf8":
		switch t.Choose(3) {
		case 0:
			payload = c18Req(s.id(), "ledger.get\xff\xfeMomentum", "")
		case 1:
			payload = c18Req(s.id(), "ledger.getAccountInfoByAddress", "[\"z1\xc3\x28\xa0\xa1\"]")
		default:
			payload = []byte("{\"jsonrpc\":\"2.0\",\xff\"id\":1,\"method\":\"ledger.getFrontierMomentum\"}")
		}
	case "huge-numbers":
		var numMethods []string
		for _, n := range s.names {
			for _, at := range s.methods[n].args {
				if at.Kind() == reflect.Uint32 || at.Kind() == reflect.Uint64 {
					numMethods = append(numMethods, n)
					break
				}
			}
		}
		method = numMethods[t.Choose(len(numMethods))]
		m = s.methods[method]
		parts := make([]string, len(m.args))
		for i, at := range m.args {
			parts[i] = s.validArg(at)
		}
		for i, at := range m.args {
			if at.Kind() == reflect.Uint32 {
				parts[i] = []string{`4294967296`, `18446744073709551615`, `-1`, `1e10`, `99999999999999999999999999`}[t.Choose(5)]
				break
			}
			if at.Kind() == reflect.Uint64 {
				parts[i] = []string{`18446744073709551616`, `-1`, `1e30`, `99999999999999999999999999`}[t.Choose(4)]
				break
			}
		}
		params = "[" + strings.Join(parts, ",") + "]"
		payload = c18Req(s.id(), method, params)
		desc = method + params
	case "null-params":
		parts := make([]string, len(m.args))
		for i := range parts {
			parts[i] = "null"
		}
		params = "[" + strings.Join(parts, ",") + "]"
		payload = c18Req(s.id(), method, params)
		exp = c18WellFormed
		desc = method + params
	case "hostile-publish":
		body := []string{`null`, `{}`, `{"descendantBlocks":[null]}`, `{"amount":"abc","nonce":"zz"}`, `{"pairedAccountBlock":{"pairedAccountBlock":{"token":{}}}}`,
			`{"descendantBlocks":[{"descendantBlocks":[{"descendantBlocks":[null]}]}]}`, `{"token":null,"amount":null,"data":null,"publicKey":null}`,
			`{"blockType":2,"address":"` + c.w.Users[0].Address.String() + `","height":18446744073709551615,"amount":"-5"}`, `[]`, `"x"`, `{"publicKey":"AAAA","signature":"AAAA","blockType":99}`}[t.Choose(11)]
		method, params = "ledger.publishRawTransaction", "["+body+"]"
		payload = c18Req(s.id(), method, params)
		desc = method + params
	case "http-abuse":
		overHTTP = true
	case "interleaved":
		// several valid requests and one invalid in one write on the control connection
		var b bytes.Buffer
		type want struct {
			id int
			d  *c18Direct
			m  string
		}
		var wants []want
		for i, k := 0, 2+t.Choose(4); i < k; i++ {
			mm, pp := s.validRequest()
			d := s.direct(mm, json.RawMessage(pp))
			if d.stage != "" {
				continue
			}
			id := s.id()
			wants = append(wants, want{id, d, mm + pp})
			b.Write(c18Req(id, mm, pp))
			if i == 0 {
				b.Write(c18Req(s.id(), "nosuch.method", ""))
			}
		}
		if err := control.send(b.Bytes()); err != nil {
			s.violation("valid-request-unanswered", "interleaved write failed: %v", err)
			return
		}
		msgs, _ := control.take()
		got := map[string]*c18Resp{}
		for _, raw := range msgs {
			if r, bad := c18ParseResp(raw); bad == "" {
				got[string(bytes.TrimSpace(r.ID))] = r
			} else {
				s.violation("malformed-answer/interleaved", "%s", bad)
				return
			}
		}
		for _, w := range wants {
			r := got[fmt.Sprint(w.id)]
			if r == nil {
				s.violation("valid-request-unanswered", "pipelined request %s (id %d) was not answered (%d answers for %d requests)", w.m, w.id, len(msgs), len(wants)+1)
				return
			}
			if r.isError() != w.d.isErr || (!w.d.isErr && !c18SameJSON(r.Result, w.d.result)) {
				s.violation("answer-differs-from-api", "pipelined request %s: server %s, direct %s", w.m, c18Clip(r.Result), c18Clip(w.d.result))
				return
			}
			c.compared++
		}
		c.note("hostile interleaved: %d pipelined requests ok", len(wants))
		return
	}

	// pre-screen well-formed single requests that name a real method
	if class == "wrong-param-types" || class == "wrong-param-count" || class == "huge-numbers" || class == "null-params" || class == "hostile-publish" {
		d := s.direct(method, json.RawMessage(params))
		if d.stage != "" {
			c.note("hostile %s %s: panic at %s", class, desc, d.stage)
			c.r.Report("server-survives", "panic-outside-recover-"+d.stage, "request %s makes the server panic while it %s, outside callback.call's recover (a real server process would die): %v at %s", desc, d.stage, d.pan.v, c18Short(d.pan.stack))
			return
		}
		if class != "null-params" && !d.isErr && exp == c18MustError {
			// the direct evaluation accepted it: judged below through the server too
			c.r.Probe("hostile-accepted-by-direct-call")
		}
	}

	if overHTTP {
		s.http(class, exp, payload, desc)
		return
	}
	cn := s.dial()
	err := cn.send(payload)
	msgs, closed := cn.take()
	if closeAfter {
		cn.close()
		more, cl := cn.take()
		msgs = append(msgs, more...)
		closed = cl
		if !closed {
			s.violation("connection-not-released/"+class, "%s: the client closed its side mid-request but the server side never hung up", desc)
		}
	}
	c.note("hostile %s (%d bytes) -> %d answers closed=%v writeErr=%v", class, len(payload), len(msgs), closed, err != nil)
	s.judge(class, exp, msgs, closed, desc)
	if class == "big-batch" && len(msgs) == 1 {
		var elems []json.RawMessage
		if json.Unmarshal(msgs[0], &elems) == nil {
			c.r.Probes["batch-answers"] += len(elems)
			ok, errs := 0, 0
			for _, e := range elems {
				if r, bad := c18ParseResp(e); bad == "" {
					if r.isError() {
						errs++
					} else {
						ok++
					}
				}
			}
			var n int
			fmt.Sscanf(desc, "batch of %d", &n)
			if ok != (n+3)/4 || errs != n-(n+3)/4 {
				s.violation("batch-answer-count", "%s (one quarter valid calls, the rest invalid): %d results and %d errors answered", desc, ok, errs)
			}
		}
	}
	if !closed {
		cn.close()
	}
}

type c18Body struct{ io.Reader }

func (s *c18Server) http(class string, exp c18Expect, payload []byte, desc string) {
	c, t := s.c, s.c.r.T
	httpMethod, ctype := "POST", "application/json"
	var body io.Reader = bytes.NewReader(payload)
	if class == "http-abuse" {
		switch t.Choose(6) {
		case 0:
			httpMethod = "PUT"
			payload = c18Req(1, "ledger.getFrontierMomentum", "")
		case 1:
			ctype = "text/plain"
			payload = c18Req(1, "ledger.getFrontierMomentum", "")
		case 2:
			payload = nil // empty body
			exp = c18Silent
		case 3:
			httpMethod = "GET"
			payload = nil
			exp = c18Silent
		case 4: // body larger than the advertised maximum, length announced
			payload = c18Req(1, "ledger.getAccountInfoByAddress", `["`+strings.Repeat("B", 6<<20)+`"]`)
		default: // same, length not announced (chunked)
			payload = c18Req(1, "ledger.getAccountInfoByAddress", `["`+strings.Repeat("B", 6<<20)+`"]`)
			body = c18Body{bytes.NewReader(payload)}
		}
		if _, ok := body.(c18Body); !ok {
			body = bytes.NewReader(payload)
		}
		desc = fmt.Sprintf("http %s %s %d bytes", httpMethod, ctype, len(payload))
	} else if t.Choose(3) == 2 {
		body = c18Body{bytes.NewReader(payload)}
	}
	req := httptest.NewRequest(httpMethod, "http://sim.invalid/", body)
	req.Header.Set("content-type", ctype)
	rec := httptest.NewRecorder()
	done := make(chan *c18Panic, 1)
	go func() { done <- c18Safe(func() { s.srv.ServeHTTP(rec, req) }) }()
	synctest.Wait()
	var p *c18Panic
	select {
	case p = <-done:
	default:
		s.violation("http-handler-stuck/"+class, "%s: ServeHTTP did not return", desc)
		return
	}
	if p != nil {
		c.r.Report("server-survives", "http-handler-panic", "%s: ServeHTTP panicked: %v at %s", desc, p.v, c18Short(p.stack))
		return
	}
	res := rec.Result()
	out, _ := io.ReadAll(res.Body)
	c.note("hostile %s over http (%d bytes) -> status %d, %d bytes", class, len(payload), res.StatusCode, len(out))
	if res.StatusCode < 200 || res.StatusCode > 299 {
		if exp == c18Silent && class != "http-abuse" {
			return
		}
		return // refused at the HTTP layer: an error answer
	}
	var msgs []json.RawMessage
	if len(bytes.TrimSpace(out)) > 0 {
		dec := json.NewDecoder(bytes.NewReader(out))
		for {
			var raw json.RawMessage
			if err := dec.Decode(&raw); err != nil {
				if err != io.EOF {
					s.violation("malformed-answer/"+class, "%s: HTTP body is not JSON: %v: %s", desc, err, c18Clip(out))
					return
				}
				break
			}
			msgs = append(msgs, raw)
		}
	}
	// over HTTP the end of the response is the closed connection
	s.judge(class, exp, msgs, true, desc+" (http)")
}
