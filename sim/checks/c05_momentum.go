package checks

import (
	"fmt"
	"time"

	"github.com/zenon-network/go-zenon/chain/nom"
	"github.com/zenon-network/go-zenon/common/types"
	"github.com/zenon-network/go-zenon/wallet"

	"verif/sim/golden"
	"verif/sim/nomsim"
	"verif/sim/oracle"
	"verif/sim/simnode"
	"verif/sim/simrt"
)

func init() { register("C05", runC05) }

// momentumInvalid evaluates the statement's conditions for a momentum accepted
// on top of node n's frontier `prev` at (simulated) time now.
func momentumInvalid(n *simnode.Node, prev *nom.Momentum, d *nom.DetailedMomentum, now time.Time) (string, string) {
	m := d.Momentum
	if golden.MomentumHash(m) != m.Hash {
		return "hash", "hash does not commit to the content"
	}
	if m.PreviousHash != prev.Hash || m.Height != prev.Height+1 {
		return "previous", "does not directly extend the frontier"
	}
	if m.TimestampUnix <= prev.TimestampUnix {
		return "timestamp-order", fmt.Sprintf("timestamp %d not later than its predecessor's %d", m.TimestampUnix, prev.TimestampUnix)
	}
	if int64(m.TimestampUnix) > now.Unix()+10 {
		return "timestamp-future", fmt.Sprintf("timestamp %d is more than 10 s after now %d", m.TimestampUnix, now.Unix())
	}
	if !golden.SignatureOK(m.PublicKey, m.Hash[:], m.Signature) {
		return "signature", "signature does not verify"
	}
	ts := time.Unix(int64(m.TimestampUnix), 0)
	want, aligned, err := oracle.ReferenceProducer(n, ts)
	if err != nil {
		return "election-reference", err.Error()
	}
	if !aligned {
		return "slot", fmt.Sprintf("timestamp %d is not the start of a slot", m.TimestampUnix)
	}
	if golden.AddressOf(m.PublicKey) != want {
		return "producer", fmt.Sprintf("signed by %v but the reference election gives slot %d to %v", golden.AddressOf(m.PublicKey), m.TimestampUnix, want)
	}
	// content consistent with the delivered account blocks
	have := map[types.HashHeight]bool{}
	for _, b := range d.AccountBlocks {
		have[b.Identifier()] = true
	}
	if len(have) != len(m.Content) {
		return "content", "content does not match the account blocks"
	}
	for _, h := range m.Content {
		if !have[h.Identifier()] {
			return "content", "content header without account block"
		}
	}
	return "", ""
}

// checkSchedule compares the node's answer for every slot of the ticks from
// tickLo to tickHi with the reference election.
func checkSchedule(r *simrt.Run, n *simnode.Node, tickLo, tickHi int64, how string) {
	for tick := tickLo; tick <= tickHi; tick++ {
		for s := 0; s < oracle.SlotsPerTick; s++ {
			ts := time.Unix(oracle.GenesisUnixTS+tick*oracle.TickSeconds+int64(s*oracle.SlotSeconds), 0)
			if ts.Unix() <= oracle.GenesisUnixTS {
				continue
			}
			got, err := n.Cons.GetMomentumProducer(ts)
			want, _, rerr := oracle.ReferenceProducer(n, ts)
			if err != nil || rerr != nil {
				if (err == nil) != (rerr == nil) {
					r.Fail("schedule", "error-mismatch", "%s node %s tick %d slot %d: node err=%v reference err=%v", how, n.Name, tick, s, err, rerr)
				}
				continue
			}
			if *got != want {
				r.Fail("schedule", "differs-from-reference", "%s node %s tick %d slot %d (frontier %d): node elects %v, reference election %v", how, n.Name, tick, s, n.Height(), got, want)
			}
		}
		r.Probe("tick-schedules-compared")
	}
}

func runC05(r *simrt.Run) {
	r.WatchLocks() // a lock of the node that is never released is a violation, not a hang
	t := r.T
	mode := nomsim.SporkMode(t.Choose(3))
	var gen = nomsim.MockGenesis(mode)
	var extra []*wallet.KeyPair
	cfgKind := t.Choose(4)
	switch cfgKind {
	case 1: // a few extra pillars, some equal weights, one zero weight
		gen, extra = nomsim.ManyPillarsGenesis(mode, []int64{500, 500, 0, 1200, 1})
	case 2: // more pillars than slots
		ws := make([]int64, 30+t.Choose(8))
		for i := range ws {
			ws[i] = int64([]int{0, 100, 100, 250, 1000, 5000}[t.Choose(6)])
		}
		gen, extra = nomsim.ManyPillarsGenesis(mode, ws)
	case 3: // exactly 30 pillars
		ws := make([]int64, 27)
		for i := range ws {
			ws[i] = int64(100 * (1 + t.Choose(3)))
		}
		gen, extra = nomsim.ManyPillarsGenesis(mode, ws)
	}
	w := nomsim.NewWorld(r, gen)
	for _, k := range extra {
		w.Keys[k.Address] = k
	}
	w.EnforceReceiverRule(0)
	w.Net.Gossip = false
	hosted := append(append([]*wallet.KeyPair(nil), nomsim.MockPillars()...), extra...)
	p := w.AddNode("P", hosted, false)
	f := w.AddNode("F", nil, t.Bool())
	wl := nomsim.NewWorkload(w, mode)
	wl.MaxOps = 1 + t.Choose(4)
	// weight changes: delegations, transfers, pillar registrations/revocations
	slots := 20 + t.Choose(70)
	if r.Tier == "thorough" {
		slots = 60 + t.Choose(300)
	}
	var fresh []*nom.AccountBlock
	p.OnBlock = func(_ *simnode.Node, b *nom.AccountBlock) { fresh = append(fresh, b) }
	judged, acceptedMutants := 0, 0

	judge := func(what string, prev *nom.Momentum, d *nom.DetailedMomentum) bool {
		judged++
		var err error
		func() {
			defer func() {
				if pn := recover(); pn != nil {
					r.Fail("apply-panic", "momentum", "applying a %s momentum panicked: %v", what, pn)
				}
			}()
			_, err = f.Sup.ApplyMomentum(d)
		}()
		if err != nil {
			return false
		}
		if clause, why := momentumInvalid(f, prev, d, time.Now()); clause != "" {
			r.Fail("invalid-momentum-accepted", clause, "%s momentum at height %d was accepted but violates '%s': %s", what, d.Momentum.Height, clause, why)
		}
		return true
	}

	for s := 0; s < slots; s++ {
		t.Span(func() {
			wl.G.RefreshTokens(p)
			wl.Ops(p)
			if t.Choose(10) == 0 {
				w.SkipSlots(int64(1 + t.Choose(80))) // gaps of several ticks: the proof momentum is the frontier
				r.Fault("missed-slots")
			}
			h0 := p.Height()
			w.StepSlot()
			for _, b := range fresh {
				f.Bridge.AddAccountBlocks([]*nom.AccountBlock{b})
			}
			fresh = nil
			for h := h0 + 1; h <= p.Height(); h++ {
				d := p.Detailed(h)
				if f.Height() != h-1 {
					break
				}
				prev := f.Frontier()
				// the account blocks of the momentum reach the follower's pool first (gossip);
				// after a restart the pool is empty, so deliver them again
				for _, b := range d.AccountBlocks {
					if b.BlockType != nom.BlockTypeContractSend {
						f.Bridge.AddAccountBlocks([]*nom.AccountBlock{b})
					}
				}
				if t.Choose(3) == 0 {
					// candidates are judged without insertion (verify + execute + compare)
					if !judge("honest", prev, nomsim.CloneDetailed(d)) {
						r.Fail("honest-momentum-refused", "apply", "follower refuses the elected pillar's momentum %d", h)
					}
					nm := 2 + t.Choose(5)
					for i := 0; i < nm; i++ {
						t.Span(func() {
							c := nomsim.CloneDetailed(d)
							mut := nomsim.MomentumMutations[t.Choose(len(nomsim.MomentumMutations))]
							name := mut.Name
							if t.Choose(4) == 0 {
								// timestamp variants re-signed by the elected pillar of the ORIGINAL slot or of the new one
								kp := w.Keys[types.PubKeyToAddress(c.Momentum.PublicKey)]
								delta := []int64{10, -10, 20, 300, 5, 1, 3000, -int64(c.Momentum.TimestampUnix - prev.TimestampUnix)}[t.Choose(8)]
								c.Momentum.TimestampUnix = uint64(int64(c.Momentum.TimestampUnix) + delta)
								if t.Bool() {
									if a, ok, err := oracle.ReferenceProducer(f, time.Unix(int64(c.Momentum.TimestampUnix), 0)); err == nil && ok && w.Keys[a] != nil {
										kp = w.Keys[a]
									}
								}
								if kp == nil {
									return
								}
								nomsim.ResignMomentum(c.Momentum, kp)
								name = fmt.Sprintf("timestamp%+d-resigned", delta)
							} else if !mut.Apply(w, c) {
								return
							}
							r.Fault("candidate-" + name)
							if judge(name, prev, c) {
								acceptedMutants++
								r.Probe("mutant-accepted-and-valid")
								r.Logf("accepted valid mutant %s at height %d", name, h)
							}
						})
					}
				}
				idx, err := f.Bridge.InsertChain([]*nom.DetailedMomentum{d})
				if err != nil || idx != 0 {
					r.Fail("honest-momentum-refused", "insert-chain", "follower refuses the elected pillar's momentum %d: idx=%d err=%v", h, idx, err)
				}
				// whatever was accepted must satisfy the predicate
				if clause, why := momentumInvalid(f, prev, d, time.Now()); clause != "" {
					r.Fail("invalid-momentum-accepted", "honest-"+clause, "the producer's own momentum %d violates '%s': %s", h, clause, why)
				}
			}
			if t.Choose(12) == 0 {
				r.Fault("restart-follower")
				if err := f.Restart(t.Bool()); err != nil {
					r.Fail("restart", "open", "%v", err)
				}
			}
			if t.Choose(8) == 0 {
				tick := (p.Frontier().Timestamp.Unix() - oracle.GenesisUnixTS) / oracle.TickSeconds
				n := []*simnode.Node{p, f}[t.Choose(2)]
				if n.Height() == p.Height() {
					checkSchedule(r, n, tick, tick+1, "live")
				}
			}
		})
	}
	// every tick the chain spans, on nodes built live, restarted, and synced in batches
	lastTick := (p.Frontier().Timestamp.Unix() - oracle.GenesisUnixTS) / oracle.TickSeconds
	lo := int64(0)
	if lastTick > 8 {
		lo = lastTick - 8
	}
	if f.Height() == p.Height() {
		checkSchedule(r, f, lo, lastTick+1, "follower")
	}
	checkSchedule(r, p, lo, lastTick+1, "producer")
	if err := p.Restart(false); err != nil {
		r.Fail("restart", "open", "%v", err)
	}
	checkSchedule(r, p, lo, lastTick+1, "producer-after-restart")
	g := freshFollower(r, w, "G", p, 128)
	checkSchedule(r, g, lo, lastTick+1, "fresh-synced")
	if consensusView(g, 60, 60) != consensusView(p, 60, 60) {
		r.Fail("schedule", "nodes-disagree", "fresh-synced node and restarted producer give different consensus answers")
	}
	r.Probes["momentum-candidates-judged"] += judged
	r.NonTrivial = judged >= 5 && r.Probes["tick-schedules-compared"] >= 4
	r.Finger = fmt.Sprintf("%s-%d", p.Frontier().Hash.String()[:16], judged)
	r.Sample["height"] = p.Height()
	r.Sample["genesis_kind"] = []string{"mock-3-pillars", "8-pillars-equal-and-zero-weights", "more-than-30-pillars", "exactly-30-pillars"}[cfgKind]
	r.Sample["pillars"] = 3 + len(extra)
	r.Sample["judged_acceptedMutants"] = []int{judged, acceptedMutants}
}
