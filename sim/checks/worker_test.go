package checks

// Worker entry point. One OS process runs many simulated runs of one property,
// one synctest bubble at a time, and appends one JSON line per run to VERIF_OUT.
// The driver (/verif/check) fans workers out over cores, aggregates evidence and
// handles exit codes.
//
//	VERIF_PROP     property id (C01 …)
//	VERIF_SEED     master seed
//	VERIF_WORKER   k/n  — this worker executes run indices i with i%n==k
//	VERIF_RUNS     upper bound on run index (exclusive)
//	VERIF_BUDGET   wall-clock seconds for this worker
//	VERIF_TIER     quick|thorough
//	VERIF_OUT      result file (JSON lines)
//	VERIF_REPLAY   replay file: execute exactly that tape, print result
//	VERIF_ONLY     comma list of run indices to execute (determinism re-runs)
//	VERIF_KNOWN    path of KNOWN_FINDINGS.json
//	VERIF_REPLAYDIR where to write replay files

import (
	"encoding/json"
	"fmt"
	"os"
	"path/filepath"
	"sort"
	"strconv"
	"strings"
	"testing"
	"time"

	"verif/sim/simnode"
	"verif/sim/simrt"
	"verif/sim/tape"
)

type RunResult struct {
	Kind       string             `json:"kind"` // begin|run|replay
	Run        uint64             `json:"run"`
	Seed       uint64             `json:"seed"`
	Digest     string             `json:"digest,omitempty"`
	Events     int                `json:"events,omitempty"`
	TapeLen    int                `json:"tape_len,omitempty"`
	SimSeconds float64            `json:"sim_s,omitempty"`
	WallMs     int64              `json:"wall_ms,omitempty"`
	Faults     map[string]int     `json:"faults,omitempty"`
	Probes     map[string]int     `json:"probes,omitempty"`
	Skipped    map[string]int     `json:"skipped,omitempty"`
	NonTrivial bool               `json:"nontrivial,omitempty"`
	Finger     string             `json:"finger,omitempty"`
	Sample     map[string]any     `json:"sample,omitempty"`
	Violations []*simrt.Violation `json:"violations,omitempty"`
	Known      []string           `json:"known,omitempty"`
	Replay     string             `json:"replay,omitempty"`
}

type ReplayFile struct {
	Property  string           `json:"property"`
	Seed      uint64           `json:"seed"`
	Run       uint64           `json:"run"`
	Tier      string           `json:"tier"`
	Signature string           `json:"signature"`
	Violation *simrt.Violation `json:"violation"`
	Tape      []uint32         `json:"tape"`
	FullTape  int              `json:"full_tape_len"`
	Minimised bool             `json:"minimised"`
	Digest    string           `json:"digest"`
	Trace     []string         `json:"trace"`
	Tree      string           `json:"tree,omitempty"`
	Note      string           `json:"note,omitempty"`
}

type knownFile struct {
	Findings []struct {
		Property  string `json:"property"`
		Status    string `json:"status"`
		Signature string `json:"signature"`
		What      string `json:"what"`
	} `json:"findings"`
}

func loadKnown(prop string) map[string]bool {
	out := map[string]bool{}
	p := os.Getenv("VERIF_KNOWN")
	if p == "" {
		return out
	}
	b, err := os.ReadFile(p)
	if err != nil {
		return out
	}
	var kf knownFile
	if json.Unmarshal(b, &kf) != nil {
		return out
	}
	for _, f := range kf.Findings {
		if f.Property == prop && f.Status == "known" {
			out[f.Signature] = true
		}
	}
	return out
}

func execOnce(t *testing.T, p *Prop, tp *tape.Tape, tier string, keepAll bool, known map[string]bool) *simrt.Run {
	return simrt.Exec(t, p.ID, tp, tier, keepAll, known, p.Run)
}

func hasSig(r *simrt.Run, sig string) bool {
	for _, v := range r.Violations {
		if v.Signature() == sig {
			return true
		}
	}
	return false
}

// minimise shrinks a failing tape while the same violation signature persists.
//  1. span deletion: the tape records which ranges are self-contained decisions
//     (a slot, an operation); whole spans are removed ddmin-style, outer level
//     first, which keeps everything after them aligned. 2. tail truncation.
//  3. lowering single entries toward zero (simpler operation, no fault).
func minimise(t *testing.T, p *Prop, seed uint64, first *simrt.Run, sig, tier string, known map[string]bool, budget time.Duration, maxTries int) ([]uint32, int) {
	deadline := time.Now().Add(budget)
	tries := 0
	spent := func() bool { return tries >= maxTries || time.Now().After(deadline) }
	try := func(c []uint32) *simrt.Run {
		if spent() {
			return nil
		}
		tries++
		tp := tape.Replay(seed, c)
		tp.OverrunLimit = 2*len(first.T.Rec) + 1000
		r := execOnce(t, p, tp, tier, false, known)
		if hasSig(r, sig) {
			return r
		}
		return nil
	}
	cur := append([]uint32(nil), first.T.Rec...)
	spans := first.T.Spans
	atDepth := func(sp []tape.Span, d int) []tape.Span {
		var out []tape.Span
		for _, s := range sp {
			if s.Depth == d && s.Start < len(cur) {
				out = append(out, s)
			}
		}
		sort.Slice(out, func(i, j int) bool { return out[i].Start < out[j].Start })
		return out
	}
	remove := func(c []uint32, chunk []tape.Span) []uint32 {
		out := make([]uint32, 0, len(c))
		pos := 0
		for _, s := range chunk {
			if s.Start > len(c) {
				break
			}
			if s.Start > pos {
				out = append(out, c[pos:s.Start]...)
			}
			if s.End > pos {
				pos = s.End
			}
			if pos > len(c) {
				pos = len(c)
			}
		}
		if pos < len(c) {
			out = append(out, c[pos:]...)
		}
		return out
	}
	maxDepth := 0
	for _, s := range spans {
		if s.Depth > maxDepth {
			maxDepth = s.Depth
		}
	}
	for d := 0; d <= maxDepth && !spent(); d++ {
		L := atDepth(spans, d)
		for size := (len(L) + 1) / 2; size >= 1 && !spent(); size /= 2 {
			for i := 0; i < len(L) && !spent(); {
				j := i + size
				if j > len(L) {
					j = len(L)
				}
				cand := remove(cur, L[i:j])
				if len(cand) == len(cur) {
					i = j
					continue
				}
				if r := try(cand); r != nil {
					cur = cand
					spans = r.T.Spans
					L = atDepth(spans, d)
				} else {
					i = j
				}
			}
		}
	}
	// tail truncation (draws past the end are 0)
	for n := len(cur) / 2; n >= 1 && !spent(); n /= 2 {
		for len(cur) > n {
			c := cur[:len(cur)-n]
			if try(c) != nil {
				cur = append([]uint32(nil), c...)
			} else {
				break
			}
		}
	}
	// lower entries
	for i := 0; i < len(cur) && !spent(); i++ {
		if cur[i] == 0 {
			continue
		}
		c := append([]uint32(nil), cur...)
		c[i] = 0
		if try(c) != nil {
			cur = c
		}
	}
	for len(cur) > 0 && cur[len(cur)-1] == 0 {
		cur = cur[:len(cur)-1]
	}
	return cur, tries
}

func writeReplay(t *testing.T, p *Prop, run, seed uint64, r *simrt.Run, v *simrt.Violation, tier string, known map[string]bool, doMin bool) string {
	dir := os.Getenv("VERIF_REPLAYDIR")
	if dir == "" {
		dir = "/verif/replays"
	}
	dir = filepath.Join(dir, p.ID)
	os.MkdirAll(dir, 0o755)
	rec := append([]uint32(nil), r.T.Rec...)
	full := len(rec)
	minimised := false
	note := ""
	if doMin {
		budget := 90 * time.Second
		tries := 150
		if tier == "thorough" {
			budget = 300 * time.Second
			tries = 500
		}
		if s := os.Getenv("VERIF_MIN_BUDGET"); s != "" { // seconds; evaluation of seeded changes keeps it short
			if v, err := strconv.Atoi(s); err == nil {
				budget = time.Duration(v) * time.Second
			}
		}
		m, n := minimise(t, p, seed, r, v.Signature(), tier, known, budget, tries)
		note = fmt.Sprintf("minimised with %d replays: %d -> %d tape entries", n, full, len(m))
		rec = m
		minimised = true
	}
	// final confirming execution with the full trace kept
	fr := execOnce(t, p, tape.Replay(seed, rec), tier, true, known)
	if !hasSig(fr, v.Signature()) {
		// should not happen: fall back to the unminimised tape
		rec = append([]uint32(nil), r.T.Rec...)
		fr = execOnce(t, p, tape.Replay(seed, rec), tier, true, known)
		minimised = false
		note += " (minimised tape did not reproduce on confirmation; full tape kept)"
	}
	var fv *simrt.Violation
	for _, x := range fr.Violations {
		if x.Signature() == v.Signature() {
			fv = x
		}
	}
	if fv == nil {
		fv = v
	}
	rf := &ReplayFile{Property: p.ID, Seed: seed, Run: run, Tier: tier, Signature: v.Signature(), Violation: fv, Tape: rec,
		FullTape: full, Minimised: minimised, Digest: fr.Digest(), Trace: fr.Trace(), Note: note}
	name := fmt.Sprintf("%s-%d.json", sanitize(v.Signature()), seed)
	path := filepath.Join(dir, name)
	b, _ := json.MarshalIndent(rf, "", " ")
	os.WriteFile(path, b, 0o644)
	return path
}

func sanitize(s string) string {
	var b strings.Builder
	for _, c := range s {
		switch {
		case c >= 'a' && c <= 'z', c >= 'A' && c <= 'Z', c >= '0' && c <= '9', c == '-', c == '_', c == '.':
			b.WriteRune(c)
		default:
			b.WriteByte('_')
		}
	}
	out := b.String()
	if len(out) > 80 {
		out = out[:80]
	}
	return out
}

func TestWorker(t *testing.T) {
	propID := os.Getenv("VERIF_PROP")
	if propID == "" {
		t.Skip("VERIF_PROP not set")
	}
	if wrapC15 != nil {
		wrapC15()
	}
	p := Registry[propID]
	if p == nil {
		fmt.Fprintf(os.Stderr, "unknown property %s\n", propID)
		os.Exit(2)
	}
	simnode.Quiet()
	tier := os.Getenv("VERIF_TIER")
	if tier == "" {
		tier = "quick"
	}
	known := loadKnown(propID)
	outPath := os.Getenv("VERIF_OUT")
	var out *os.File
	if outPath != "" {
		var err error
		out, err = os.OpenFile(outPath, os.O_CREATE|os.O_WRONLY|os.O_APPEND, 0o644)
		if err != nil {
			fmt.Fprintln(os.Stderr, err)
			os.Exit(2)
		}
		defer out.Close()
	}
	emit := func(rr *RunResult) {
		b, _ := json.Marshal(rr)
		if out != nil {
			out.Write(append(b, '\n'))
		} else {
			fmt.Fprintln(simnode.Out(), string(b))
		}
	}

	if rp := os.Getenv("VERIF_REPLAY"); rp != "" {
		b, err := os.ReadFile(rp)
		if err != nil {
			fmt.Fprintln(os.Stderr, err)
			os.Exit(2)
		}
		var rf ReplayFile
		if err := json.Unmarshal(b, &rf); err != nil {
			fmt.Fprintln(os.Stderr, err)
			os.Exit(2)
		}
		if rf.Tier != "" {
			tier = rf.Tier
		}
		var tp *tape.Tape
		if rf.Tape == nil && rf.FullTape == 0 {
			tp = tape.New(rf.Seed) // seed-only replay (process-killing runs)
		} else {
			tp = tape.Replay(rf.Seed, rf.Tape)
		}
		emit(&RunResult{Kind: "begin", Run: rf.Run, Seed: rf.Seed})
		r := execOnce(t, p, tp, tier, true, known)
		rr := &RunResult{Kind: "replay", Run: rf.Run, Seed: rf.Seed, Digest: r.Digest(), Events: r.Events(), Violations: r.Violations,
			Faults: r.Faults, Probes: r.Probes, TapeLen: len(r.T.Rec)}
		emit(rr)
		if os.Getenv("VERIF_TRACE") != "" {
			for _, l := range r.Trace() {
				fmt.Fprintln(simnode.Out(), l)
			}
		}
		return
	}

	master, _ := strconv.ParseUint(os.Getenv("VERIF_SEED"), 10, 64)
	k, n := uint64(0), uint64(1)
	if w := os.Getenv("VERIF_WORKER"); w != "" {
		fmt.Sscanf(w, "%d/%d", &k, &n)
	}
	maxRuns := uint64(1 << 62)
	if s := os.Getenv("VERIF_RUNS"); s != "" {
		maxRuns, _ = strconv.ParseUint(s, 10, 64)
	}
	budget := 60.0
	if s := os.Getenv("VERIF_BUDGET"); s != "" {
		budget, _ = strconv.ParseFloat(s, 64)
	}
	var only []uint64
	if s := os.Getenv("VERIF_ONLY"); s != "" {
		for _, f := range strings.Split(s, ",") {
			v, err := strconv.ParseUint(strings.TrimSpace(f), 10, 64)
			if err == nil {
				only = append(only, v)
			}
		}
	}
	start := time.Now()
	reported := map[string]bool{}
	doRun := func(i uint64) {
		seed := tape.Derive(master, propID, i)
		emit(&RunResult{Kind: "begin", Run: i, Seed: seed})
		w0 := time.Now()
		dump := os.Getenv("VERIF_DUMP_LOG") // development aid: write the whole event log of each run to <path>.<run>
		r := execOnce(t, p, tape.New(seed), tier, dump != "", known)
		if dump != "" {
			os.WriteFile(fmt.Sprintf("%s.%d", dump, i), []byte(strings.Join(r.Trace(), "\n")+"\n"), 0o644)
		}
		rr := &RunResult{Kind: "run", Run: i, Seed: seed, Digest: r.Digest(), Events: r.Events(), TapeLen: len(r.T.Rec),
			SimSeconds: r.SimSeconds, WallMs: time.Since(w0).Milliseconds(), Faults: r.Faults, Probes: r.Probes,
			Skipped: r.Skipped, NonTrivial: r.NonTrivial, Finger: r.Finger}
		if i < 3*n || len(r.Violations) > 0 {
			rr.Sample = r.Sample
		}
		for _, v := range r.Violations {
			if known[v.Signature()] {
				rr.Known = append(rr.Known, v.Signature())
			}
		}
		unk := r.Unknown()
		if len(unk) > 0 && only == nil {
			rr.Violations = unk
			v := unk[0]
			if !reported[v.Signature()] {
				reported[v.Signature()] = true
				rr.Replay = writeReplay(t, p, i, seed, r, v, tier, known, true)
			}
		} else if len(unk) > 0 {
			rr.Violations = unk
		}
		emit(rr)
	}
	if only != nil {
		for _, i := range only {
			doRun(i)
		}
		return
	}
	for i := k; i < maxRuns; i += n {
		if time.Since(start).Seconds() > budget {
			break
		}
		doRun(i)
		if len(reported) >= 1 {
			break // one minimised violation per worker is enough; the check fails anyway
		}
	}
}
