package checks

// Child side of C17's halt clause: in a fresh process a node creates and
// activates a spork its binary does not implement and keeps producing. The real
// code must terminate the process (exit status 2) when the spork becomes
// enforced; a second child started on the same directory must terminate during
// chain.Init. The parent (c17_sporks.go) judges exit status and reported heights.

import (
	"fmt"
	"os"
	"strconv"
	"testing"
	"testing/synctest"
	"time"

	g "github.com/zenon-network/go-zenon/chain/genesis/mock"
	"github.com/zenon-network/go-zenon/common/types"
	"github.com/zenon-network/go-zenon/vm/embedded/definition"

	"verif/sim/nomsim"
	"verif/sim/simnode"
	"verif/sim/simrt"
	"verif/sim/tape"
)

func TestC17Child(t *testing.T) {
	dir := os.Getenv("VERIF_C17_DIR")
	if dir == "" {
		t.Skip("not a C17 child")
	}
	phase := os.Getenv("VERIF_C17_PHASE")
	seed, _ := strconv.ParseUint(os.Getenv("VERIF_C17_SEED"), 10, 64)
	simnode.Quiet()
	out := simnode.Out()
	synctest.Test(t, func(t *testing.T) {
		time.Sleep(time.Unix(simrt.GenesisUnix, 0).Sub(time.Now()))
		r := &simrt.Run{T: tape.New(seed), Faults: map[string]int{}, Probes: map[string]int{}, Skipped: map[string]int{}, Sample: map[string]any{}, Known: map[string]bool{}}
		w := nomsim.NewWorld(r, nomsim.MockGenesis(nomsim.SporksAbsent))
		n := simnode.NewOnDir(r, "child", simnode.Config{Genesis: w.Gen, PillarKeys: nomsim.MockPillars()}, dir)
		if phase == "restart" {
			fmt.Fprintf(out, "C17CHILD restart opening\n")
			err := n.Open() // must not return: chain.Init exits the process
			fmt.Fprintf(out, "C17CHILD restart survived err=%v\n", err)
			return
		}
		n.MustOpen()
		w.Nodes = append(w.Nodes, n)
		gn := nomsim.NewGen(w)
		idle := int(seed % 5)
		for i := 0; i < idle; i++ {
			w.StepSlot()
		}
		// other sporks exist on the chain and are never activated (their ids sort before or after at random)
		decoys := int(seed/5) % 3
		for i := 0; i < decoys; i++ {
			gn.CreateSpork(n, g.Spork.Address, fmt.Sprintf("decoy-%d", i))
			w.StepSlot()
		}
		b := gn.CreateSpork(n, g.Spork.Address, "spork-unknown-to-binary")
		if b == nil {
			fmt.Fprintf(out, "C17CHILD create refused\n")
			return
		}
		w.StepSlot()
		if (seed/15)%2 == 1 {
			gn.CreateSpork(n, g.Spork.Address, "decoy-late")
			decoys++
		}
		w.StepSlot()
		w.StepSlot()
		fmt.Fprintf(out, "C17CHILD decoys=%d\n", decoys)
		act := gn.ActivateSpork(n, b.Hash, g.Spork.Address)
		if act == nil {
			fmt.Fprintf(out, "C17CHILD activate refused\n")
			return
		}
		if (seed/30)%2 == 1 {
			// the producers lose the contract receive again and again (restart after every slot), so it is
			// confirmed only after the enforcement height it announces has already passed
			fmt.Fprintf(out, "C17CHILD late-receive\n")
			w.StepSlot()
			for i := 0; i < 8; i++ {
				if err := n.Restart(false); err != nil {
					fmt.Fprintf(out, "C17CHILD restart failed %v\n", err)
					return
				}
				fmt.Fprintf(out, "C17CHILD alive height=%d\n", n.Height())
				w.StepSlot()
			}
			for i := 0; i < 12; i++ {
				fmt.Fprintf(out, "C17CHILD alive height=%d\n", n.Height())
				w.StepSlot()
			}
			fmt.Fprintf(out, "C17CHILD survived height=%d\n", n.Height())
			return
		}
		w.StepSlot() // confirms the activation; the contract receive follows in the pool
		w.StepSlot() // confirms the receive
		sp := definition.GetSporkInfoById(n.Chain.GetFrontierMomentumStore().GetAccountStore(types.SporkContract).Storage(), b.Hash)
		if sp == nil || !sp.Activated {
			fmt.Fprintf(out, "C17CHILD not activated\n")
			return
		}
		fmt.Fprintf(out, "C17CHILD enforcement=%d\n", sp.EnforcementHeight)
		for i := 0; i < 20; i++ {
			fmt.Fprintf(out, "C17CHILD alive height=%d\n", n.Height())
			w.StepSlot()
		}
		fmt.Fprintf(out, "C17CHILD survived height=%d\n", n.Height())
	})
}
