package checks

import (
	"fmt"
	"math/big"
	"time"

	"github.com/zenon-network/go-zenon/chain/nom"
	"github.com/zenon-network/go-zenon/chain/store"
	"github.com/zenon-network/go-zenon/common"
	"github.com/zenon-network/go-zenon/common/types"
	"github.com/zenon-network/go-zenon/vm/embedded/definition"

	"verif/sim/nomsim"
	"verif/sim/oracle"
	"verif/sim/simnode"
	"verif/sim/simrt"
)

func init() { register("C11", runC11) }

// ---- golden emission schedule (pinned protocol constants, written down independently) ----

var goldenZnnPerEpochCoins = []int64{10, 6, 5, 7, 5, 4, 7, 4, 3, 7, 3} // ×1440 coins per epoch, per 30-epoch tick
var goldenQsrPerEpochCoins = []int64{20000, 20000, 20000, 20000, 15000, 15000, 15000, 5000}

const coin = 100000000
const momentumsPerDay = 8640

func goldenEpochEmission(epoch uint64) (znn, qsr *big.Int) {
	tick := int(epoch / 30)
	zi, qi := tick, tick
	if zi >= len(goldenZnnPerEpochCoins) {
		zi = len(goldenZnnPerEpochCoins) - 1
	}
	if qi >= len(goldenQsrPerEpochCoins) {
		qi = len(goldenQsrPerEpochCoins) - 1
	}
	return big.NewInt(goldenZnnPerEpochCoins[zi] * 1440 * coin), big.NewInt(goldenQsrPerEpochCoins[qi] * coin)
}

func pct(v *big.Int, p int64) *big.Int {
	x := new(big.Int).Mul(v, big.NewInt(p))
	return x.Quo(x, big.NewInt(100))
}

// goldenBound gives the most a contract may credit for an epoch. The pillar
// contract's emission is defined per momentum slot (24 % delegation + 50 %
// producing of the daily amount, divided by the 8640 slots of a day), so with
// a shortened epoch it scales with the number of slots in the epoch; the other
// contracts receive a fixed share per epoch.
func goldenBound(contract types.Address, epoch uint64, slotsPerEpoch, producedInEpoch int64) (znn, qsr *big.Int) {
	z, q := goldenEpochEmission(epoch)
	switch contract {
	case types.PillarContract:
		// producing share only for momentums that exist; delegation share at most for every slot
		deleg := new(big.Int).Mul(new(big.Int).Quo(pct(z, 24), big.NewInt(momentumsPerDay)), big.NewInt(slotsPerEpoch))
		prod := new(big.Int).Mul(new(big.Int).Quo(pct(z, 50), big.NewInt(momentumsPerDay)), big.NewInt(producedInEpoch))
		return deleg.Add(deleg, prod), new(big.Int)
	case types.SentinelContract:
		return pct(z, 13), pct(q, 25)
	case types.StakeContract:
		return new(big.Int), pct(q, 50)
	case types.LiquidityContract:
		return pct(z, 13), pct(q, 25)
	}
	return new(big.Int), new(big.Int)
}

var rewardContracts = []types.Address{types.PillarContract, types.SentinelContract, types.StakeContract, types.LiquidityContract}

type rewardState struct {
	lastEpoch map[types.Address]int64
	// history[c][epoch][addr] as first seen
	history map[types.Address]map[uint64]map[types.Address][2]*big.Int
	deposit map[types.Address]map[types.Address][2]*big.Int
}

func lastEpochOf(ms store.Momentum, c types.Address) int64 {
	le, err := definition.GetLastEpochUpdate(ms.GetAccountStore(c).Storage())
	if err != nil || le == nil {
		return -1
	}
	return le.LastEpoch
}

func readDeposit(ms store.Momentum, c types.Address, a types.Address) [2]*big.Int {
	d, err := definition.GetRewardDeposit(ms.GetAccountStore(c).Storage(), &a)
	if err != nil || d == nil {
		return [2]*big.Int{new(big.Int), new(big.Int)}
	}
	return [2]*big.Int{new(big.Int).Set(d.Znn), new(big.Int).Set(d.Qsr)}
}

func readHistory(ms store.Momentum, c types.Address, e uint64, a types.Address) [2]*big.Int {
	d, err := definition.GetRewardDepositHistory(ms.GetAccountStore(c).Storage(), e, &a)
	if err != nil || d == nil {
		return [2]*big.Int{new(big.Int), new(big.Int)}
	}
	return [2]*big.Int{new(big.Int).Set(d.Znn), new(big.Int).Set(d.Qsr)}
}

func runC11(r *simrt.Run) {
	r.WatchLocks() // a lock of the node that is never released is a violation, not a hang
	t := r.T
	mode := nomsim.SporkMode(t.Choose(3))
	w := nomsim.NewWorld(r, nomsim.MockGenesis(mode))
	w.EnforceReceiverRule(0)
	w.Net.Gossip = false
	epochSec := int64(300 * (2 + t.Choose(5)))
	w.SetEpochDuration(time.Duration(epochSec) * time.Second)
	rewardLimit := int64(10 * t.Choose(8))
	w.ShortRewardKnobs(rewardLimit, uint64(1+t.Choose(12)))
	slotsPerEpoch := epochSec / 10
	// pillars split over two producer nodes so that one side can stall and miss slots
	f := nomsim.NewFork(w, nil, t.Choose(6), false, false)
	w.Net.Gossip = true
	a, b := f.A, f.B
	fol := w.AddNode("F", nil, t.Bool())
	wl := nomsim.NewWorkload(w, mode)
	f.WL = wl
	wl.MaxOps = 2 + t.Choose(5)
	wl.Mix = nomsim.Mix{Transfer: 2, Receive: 3, Flow: 10, RandomCall: 2, Spork: 1}
	rewardFlows := []string{"collect-reward", "update-contract", "stake", "cancel-stake", "delegate", "undelegate", "register-sentinel", "deposit-qsr", "liquidity-stake", "register-pillar", "revoke-pillar", "update-pillar"}
	if t.Choose(3) != 0 {
		// pillars and sentinels leave in the middle of epochs
		w.ShortRevokeWindows(int64(60*(1+t.Choose(8))), int64(60*(1+t.Choose(6))), int64(60*(1+t.Choose(8))), int64(60*(1+t.Choose(6))))
		rewardFlows = append(rewardFlows, "sentinel-lifecycle", "sentinel-lifecycle", "sentinel-lifecycle", "revoke-pillar", "pillar-burst")
		r.Probe("knob-short-revoke-windows")
	}
	// some nodes answer consensus queries (all epochs incl. the running one) while the chain grows
	readers := t.Choose(4) // 0 nobody, 1 node a, 2 node b, 3 both
	st := &rewardState{lastEpoch: map[types.Address]int64{}, history: map[types.Address]map[uint64]map[types.Address][2]*big.Int{}, deposit: map[types.Address]map[types.Address][2]*big.Int{}}
	for _, c := range rewardContracts {
		st.lastEpoch[c] = lastEpochOf(a.Chain.GetFrontierMomentumStore(), c)
		st.history[c] = map[uint64]map[types.Address][2]*big.Int{}
		st.deposit[c] = map[types.Address][2]*big.Int{}
	}
	slots := 60 + t.Choose(200)
	if r.Tier == "thorough" {
		slots = 150 + t.Choose(700)
	}
	epochsCredited, collects := 0, 0
	judged := uint64(1)

	judge := func(n *simnode.Node) {
		ms := n.Chain.GetFrontierMomentumStore()
		accounts := oracle.Accounts(n.Mgr.Frontier())
		for h := judged + 1; h <= n.Height(); h++ {
			// momentum-granular conservation needs the view after each momentum
			m, _ := ms.GetMomentumByHeight(h)
			view := n.Chain.GetMomentumStore(m.Identifier())
			if view == nil {
				r.Fail("ledger-scan", "no-view", "no view at height %d", h)
			}
			d := n.Detailed(h)
			collected := map[types.Address]map[types.Address][2]*big.Int{}
			for _, blk := range d.AccountBlocks {
				if blk.BlockType != nom.BlockTypeContractReceive || len(blk.Data) != 8 || common.BytesToUint64(blk.Data) != 1 {
					continue
				}
				send, err := ms.GetAccountBlockByHash(blk.FromBlockHash)
				if err != nil || send == nil || callKeyMethod(send) != "CollectReward" {
					continue
				}
				c := blk.Address
				if collected[c] == nil {
					collected[c] = map[types.Address][2]*big.Int{}
				}
				got := [2]*big.Int{new(big.Int), new(big.Int)}
				for _, ds := range blk.DescendantBlocks {
					if ds.ToAddress != types.TokenContract {
						r.Fail("collect-wrong", "descendant", "CollectReward on %v emits a block to %v", c, ds.ToAddress)
					}
					p := new(definition.MintParam)
					if err := definition.ABIToken.UnpackMethod(p, definition.MintMethodName, ds.Data); err != nil {
						r.Fail("collect-wrong", "not-a-mint", "CollectReward on %v emits something else than a mint", c)
					}
					if p.ReceiveAddress != send.Address {
						r.Fail("collect-wrong", "recipient", "reward of %v minted to %v", send.Address, p.ReceiveAddress)
					}
					switch p.TokenStandard {
					case types.ZnnTokenStandard:
						got[0].Add(got[0], p.Amount)
					case types.QsrTokenStandard:
						got[1].Add(got[1], p.Amount)
					default:
						r.Fail("collect-wrong", "token", "reward minted in %v", p.TokenStandard)
					}
				}
				prev := collected[c][send.Address]
				if prev[0] == nil {
					prev = [2]*big.Int{new(big.Int), new(big.Int)}
				}
				collected[c][send.Address] = [2]*big.Int{prev[0].Add(prev[0], got[0]), prev[1].Add(prev[1], got[1])}
				collects++
			}
			for _, c := range rewardContracts {
				le := lastEpochOf(view, c)
				if le < st.lastEpoch[c] {
					r.Fail("epoch-cursor", "went-back", "contract %v: rewarded-epoch cursor went from %d to %d at momentum %d", c, st.lastEpoch[c], le, h)
				}
				credits := map[types.Address][2]*big.Int{}
				for e := st.lastEpoch[c] + 1; e <= le; e++ {
					// never before the epoch ended plus the grace period
					end := oracle.GenesisUnixTS + (e+1)*epochSec
					if int64(m.TimestampUnix) < end+rewardLimit {
						r.Fail("epoch-cursor", "too-early", "contract %v rewarded epoch %d at momentum time %d, before its end %d + grace %d", c, e, m.TimestampUnix, end, rewardLimit)
					}
					sumZ, sumQ := new(big.Int), new(big.Int)
					hist := map[types.Address][2]*big.Int{}
					for _, acc := range accounts {
						v := readHistory(view, c, uint64(e), acc)
						if v[0].Sign() == 0 && v[1].Sign() == 0 {
							continue
						}
						if v[0].Sign() < 0 || v[1].Sign() < 0 {
							r.Fail("reward-negative", nameOf(c), "negative reward credited")
						}
						hist[acc] = v
						sumZ.Add(sumZ, v[0])
						sumQ.Add(sumQ, v[1])
						cur := credits[acc]
						if cur[0] == nil {
							cur = [2]*big.Int{new(big.Int), new(big.Int)}
						}
						credits[acc] = [2]*big.Int{cur[0].Add(cur[0], v[0]), cur[1].Add(cur[1], v[1])}
					}
					st.history[c][uint64(e)] = hist
					produced := int64(0)
					for x := uint64(2); x <= n.Height(); x++ {
						mm, _ := ms.GetMomentumByHeight(x)
						if mm == nil {
							break
						}
						if int64(mm.TimestampUnix) >= end-epochSec && int64(mm.TimestampUnix) < end {
							produced++
						}
						if int64(mm.TimestampUnix) >= end {
							break
						}
					}
					bz, bq := goldenBound(c, uint64(e), slotsPerEpoch, produced)
					if sumZ.Cmp(bz) > 0 || sumQ.Cmp(bq) > 0 {
						r.Fail("reward-exceeds-emission", nameOf(c), "contract %v credited %v ZNN / %v QSR for epoch %d; the protocol emission allows %v / %v", c, sumZ, sumQ, e, bz, bq)
					}
					if sumZ.Sign() > 0 || sumQ.Sign() > 0 {
						r.Probe("epoch-credited-" + nameOf(c))
						// how close to the bound the credits come (reach measure)
						if bz.Sign() > 0 {
							pc := int(new(big.Int).Quo(new(big.Int).Mul(sumZ, big.NewInt(100)), bz).Int64())
							if pc > r.Probes["max-percent-of-znn-bound-"+nameOf(c)] {
								r.Probes["max-percent-of-znn-bound-"+nameOf(c)] = pc
							}
						}
						if bq.Sign() > 0 {
							pc := int(new(big.Int).Quo(new(big.Int).Mul(sumQ, big.NewInt(100)), bq).Int64())
							if pc > r.Probes["max-percent-of-qsr-bound-"+nameOf(c)] {
								r.Probes["max-percent-of-qsr-bound-"+nameOf(c)] = pc
							}
						}
					}
					epochsCredited++
				}
				st.lastEpoch[c] = le
				// once credited, an epoch's entries never change again (each epoch is rewarded once)
				if t.Choose(6) == 0 {
					for e, hist := range st.history[c] {
						for _, acc := range accounts {
							v := readHistory(view, c, e, acc)
							old := hist[acc]
							if old[0] == nil {
								old = [2]*big.Int{new(big.Int), new(big.Int)}
							}
							if v[0].Cmp(old[0]) != 0 || v[1].Cmp(old[1]) != 0 {
								r.Fail("epoch-rewarded-twice", nameOf(c), "contract %v: credit of %v for epoch %d changed from %v/%v to %v/%v at momentum %d", c, acc, e, old[0], old[1], v[0], v[1], h)
							}
						}
					}
				}
				// deposit conservation per address: after = before + credited − collected
				for _, acc := range accounts {
					before := st.deposit[c][acc]
					if before[0] == nil {
						before = [2]*big.Int{new(big.Int), new(big.Int)}
					}
					after := readDeposit(view, c, acc)
					for i := 0; i < 2; i++ {
						want := new(big.Int).Set(before[i])
						if cr := credits[acc]; cr[i] != nil {
							want.Add(want, cr[i])
						}
						if co := collected[c][acc]; co[i] != nil {
							want.Sub(want, co[i])
						}
						if want.Cmp(after[i]) != 0 {
							r.Fail("deposit-not-conserved", nameOf(c), "contract %v address %v token#%d at momentum %d: deposit %v != before %v + credited %v - collected %v", c, acc, i, h, after[i], before[i], credits[acc][i], collected[c][acc][i])
						}
					}
					st.deposit[c][acc] = after
				}
			}
			judged = h
		}
	}

	for s := 0; s < slots; s++ {
		t.Span(func() {
			n := []*simnode.Node{a, b}[t.Choose(2)]
			wl.G.RefreshTokens(n)
			wl.Ops(n)
			t.Loop(2, 3, 4, func() { nomsim.FlowByName(rewardFlows[t.Choose(len(rewardFlows))]).Run(wl.G, n) })
			w.Net.Flush()
			switch t.Choose(20) {
			case 0:
				w.SkipSlots(int64(1 + t.Choose(int(slotsPerEpoch)*3)))
				r.Fault("missed-slots")
			case 1:
				// one producer side stalls for a while: its pillars miss their slots
				k := 1 + t.Choose(int(slotsPerEpoch))
				side := []*simnode.Node{a, b}[t.Choose(2)]
				r.Fault("producer-stalled")
				for i := 0; i < k; i++ {
					s := w.Slot
					w.Slot++
					w.AdvanceTo(s)
					other := a
					if side == a {
						other = b
					}
					if ok, _ := other.ProduceAt(w.SlotTime(s)); ok {
						w.Net.Flush()
					}
				}
				return
			}
			w.StepSlot()
			w.Net.Flush()
			if readers != 0 && t.Choose(3) == 0 {
				for i, n := range []*simnode.Node{a, b} {
					if readers&(1<<i) != 0 {
						_ = consensusView(n, 2, 2)
						r.Probe("consensus-queries-while-running")
					}
				}
			}
			if a.Frontier().Hash != b.Frontier().Hash {
				if a.Height() >= b.Height() {
					w.Net.SyncFrom(a, b)
				} else {
					w.Net.SyncFrom(b, a)
				}
			}
		})
	}
	w.Net.Flush()
	if a.Height() < b.Height() {
		w.Net.SyncFrom(b, a)
	}
	judge(a)
	// a follower fed afterwards in other batches, restarted in the middle, cold consensus cache
	for fol.Height() < a.Height() {
		from := fol.Height() + 1
		to := from + uint64(t.Choose(100))
		if to > a.Height() {
			to = a.Height()
		}
		idx, err := fol.Bridge.InsertChain(a.Batch(from, to))
		if err != nil || idx != 0 {
			r.Fail("honest-batch-refused", "follower", "follower refuses [%d..%d] (reward blocks inside): idx=%d err=%v", from, to, idx, err)
		}
		if t.Choose(4) == 0 {
			r.Fault("restart-follower")
			if err := fol.Restart(t.Bool()); err != nil {
				r.Fail("restart", "open", "%v", err)
			}
		}
	}
	compareNodes(r, "same-momentums-different-state", a, fol, pickIds(r, a, 3))
	if consensusView(a, 30, 10) != consensusView(fol, 30, 10) {
		r.Fail("same-momentums-different-state", "consensus-view", "producer and follower disagree on epoch statistics")
	}
	r.Probes["epochs-judged"] += epochsCredited
	r.Probes["collects-judged"] += collects
	r.NonTrivial = epochsCredited >= 4 && (r.Probes["epoch-credited-pillar"] > 0)
	r.Finger = a.Frontier().Hash.String()
	r.Sample["height"] = a.Height()
	r.Sample["epoch_seconds"] = epochSec
	r.Sample["epochs_collects"] = []int{epochsCredited, collects}
}

func nameOf(c types.Address) string {
	if x := nomsim.ContractByAddr(c); x != nil {
		return x.Name
	}
	return "unknown"
}

func callKeyMethod(send *nom.AccountBlock) string {
	k := callKey(send)
	for i := len(k) - 1; i >= 0; i-- {
		if k[i] == '.' {
			return k[i+1:]
		}
	}
	return k
}

var _ = fmt.Sprint
