package checks

import (
	"bytes"
	"fmt"
	"math/big"
	"strings"
	"time"

	"github.com/zenon-network/go-zenon/chain/nom"
	"github.com/zenon-network/go-zenon/common/types"
	"github.com/zenon-network/go-zenon/verifrt"

	"verif/sim/nomsim"
	"verif/sim/oracle"
	"verif/sim/sched"
	"verif/sim/simnode"
	"verif/sim/simrt"
)

func init() { register("C14", runC14) }

// ---- reference pool model: per account one chain on top of the confirmed head ----

type poolModel struct {
	head map[types.Address]types.HashHeight
	pool map[types.Address][]*nom.AccountBlock
}

func newPoolModel() *poolModel {
	return &poolModel{head: map[types.Address]types.HashHeight{}, pool: map[types.Address][]*nom.AccountBlock{}}
}

// better is the statement's antisymmetric rule: higher plasma ratio, then smaller hash.
func better(a, b *nom.AccountBlock) bool {
	l := new(big.Int).Mul(new(big.Int).SetUint64(a.TotalPlasma), new(big.Int).SetUint64(b.BasePlasma))
	r := new(big.Int).Mul(new(big.Int).SetUint64(b.TotalPlasma), new(big.Int).SetUint64(a.BasePlasma))
	if c := l.Cmp(r); c != 0 {
		return c > 0
	}
	return bytes.Compare(a.Hash[:], b.Hash[:]) < 0
}

func (m *poolModel) first(b *nom.AccountBlock) (types.HashHeight, uint64) {
	if len(b.DescendantBlocks) > 0 {
		d := b.DescendantBlocks[0]
		return types.HashHeight{Hash: d.PreviousHash, Height: d.Height - 1}, d.Height
	}
	return types.HashHeight{Hash: b.PreviousHash, Height: b.Height - 1}, b.Height
}

// add mirrors what the statement allows: extend the chain, be a no-op for a block
// already there, or replace the block at its height (dropping everything above) when
// it wins the priority rule (or is forced). Returns whether the pool changed.
func (m *poolModel) add(b *nom.AccountBlock, force bool) (changed bool, refused bool) {
	a := b.Address
	prev, startH := m.first(b)
	chainTop := m.head[a]
	if n := len(m.pool[a]); n > 0 {
		chainTop = m.pool[a][n-1].Identifier()
	}
	if prev == chainTop {
		m.pool[a] = append(m.pool[a], flatten(b)...)
		return true, false
	}
	for i, pb := range m.pool[a] {
		if pb.Height == startH {
			if pb.Hash == firstHash(b) {
				return false, false // already there
			}
			// must link to the block below
			below := m.head[a]
			if i > 0 {
				below = m.pool[a][i-1].Identifier()
			}
			if below != prev {
				return false, true
			}
			if force || better(b, m.pool[a][i]) {
				m.pool[a] = append(append([]*nom.AccountBlock(nil), m.pool[a][:i]...), flatten(b)...)
				return true, false
			}
			return false, true
		}
	}
	return false, true
}

func firstHash(b *nom.AccountBlock) types.Hash {
	if len(b.DescendantBlocks) > 0 {
		return b.DescendantBlocks[0].Hash
	}
	return b.Hash
}

func flatten(b *nom.AccountBlock) []*nom.AccountBlock {
	out := append([]*nom.AccountBlock(nil), b.DescendantBlocks...)
	return append(out, b)
}

// confirm applies a momentum: confirmed blocks leave the pool, what no longer links is dropped.
func (m *poolModel) confirm(d *nom.DetailedMomentum) {
	touched := map[types.Address]types.HashHeight{}
	for _, b := range d.AccountBlocks {
		if cur, ok := touched[b.Address]; !ok || b.Height > cur.Height {
			touched[b.Address] = b.Identifier()
		}
	}
	for a, newHead := range touched {
		m.head[a] = newHead
		var keep []*nom.AccountBlock
		link := newHead
		for _, pb := range m.pool[a] {
			if pb.Height <= newHead.Height {
				continue
			}
			if pb.PreviousHash == link.Hash && pb.Height == link.Height+1 {
				keep = append(keep, pb)
				link = pb.Identifier()
			} else {
				break
			}
		}
		m.pool[a] = keep
	}
}

func comparePool(r *simrt.Run, n *simnode.Node, m *poolModel, addrs []types.Address, after string) {
	for _, a := range addrs {
		got := n.Chain.GetUncommittedAccountBlocksByAddress(a)
		want := m.pool[a]
		ok := len(got) == len(want)
		for i := 0; ok && i < len(got); i++ {
			ok = got[i].Hash == want[i].Hash && got[i].Height == want[i].Height
		}
		if !ok {
			r.Fail("pool-differs-from-model", opClass(after), "after %s the pool of %v holds %s, the reference pool holds %s", after, a, blockList(got), blockList(want))
		}
		// always a single chain on top of the confirmed head
		head := n.Chain.GetFrontierMomentumStore().GetAccountStore(a).Identifier()
		link := head
		for _, b := range got {
			if b.PreviousHash != link.Hash || b.Height != link.Height+1 {
				r.Fail("pool-not-a-chain", opClass(after), "after %s the pool of %v is not a chain on its confirmed head %d: %s", after, a, head.Height, blockList(got))
			}
			link = b.Identifier()
		}
	}
}

func opClass(s string) string {
	for i := 0; i < len(s); i++ {
		if s[i] == ' ' {
			return s[:i]
		}
	}
	return s
}

func blockList(bs []*nom.AccountBlock) string {
	s := "["
	for _, b := range bs {
		s += fmt.Sprintf("%d:%s ", b.Height, b.Hash.String()[:6])
	}
	return s + "]"
}

// candidate builds (without inserting) a valid block of `u` on top of `prev`, with a plasma choice.
func candidate(r *simrt.Run, n *simnode.Node, w *nomsim.World, u types.Address, prev types.HashHeight, variant int) *nom.AccountBlockTransaction {
	t := r.T
	tmpl := &nom.AccountBlock{BlockType: nom.BlockTypeUserSend, Address: u, ToAddress: w.Users[t.Choose(len(w.Users))].Address,
		TokenStandard: types.ZnnTokenStandard, Amount: big.NewInt(int64(1 + t.Choose(1000))), PreviousHash: prev.Hash, Height: prev.Height + 1}
	switch variant {
	case 1:
		tmpl.FusedPlasma = 21000 + uint64(1+t.Choose(20000)) // higher ratio
	case 2:
		tmpl.Data = t.Bytes(1 + t.Choose(20)) // other base cost
	}
	tx, err := n.Sup.GenerateFromTemplate(tmpl, w.Keys[u].Signer)
	if err != nil {
		return nil
	}
	return tx
}

func runC14(r *simrt.Run) {
	r.WatchLocks() // a lock of the node that is never released is a violation, not a hang
	t := r.T
	mode := nomsim.SporkMode(t.Choose(3))
	w := nomsim.NewWorld(r, nomsim.MockGenesis(mode))
	w.EnforceReceiverRule(0)
	w.Net.Gossip = false
	wl := nomsim.NewWorkload(w, mode)
	wl.MaxOps = 1 + t.Choose(4)
	scenario := t.Choose(5)
	switch scenario {
	case 0:
		c14Sequential(r, w, wl)
	case 1:
		c14ReadersVsInserter(r, w, wl)
	case 2:
		c14PillarVsSync(r, w, wl)
	case 3:
		c14ReadersVsReorg(r, w, wl)
	case 4:
		c14PillarVsGossip(r, w, wl)
	}
	r.Sample["scenario"] = []string{"sequential-model", "readers-vs-inserter", "pillar-vs-sync", "readers-vs-reorg", "pillar-vs-gossip"}[scenario]
}

// ---- W/O 1: sequential operations against the model, two nodes in opposite orders ----

func c14Sequential(r *simrt.Run, w *nomsim.World, wl *nomsim.Workload) {
	t := r.T
	p := w.AddNode("P", nomsim.MockPillars(), false)
	x := w.AddNode("X", nil, false)
	y := w.AddNode("Y", nil, false)
	users := []types.Address{}
	for _, k := range w.Users[:5] {
		users = append(users, k.Address)
	}
	for i := 0; i < 3; i++ {
		w.StepSlot()
	}
	x.Bridge.InsertChain(p.Batch(2, p.Height()))
	y.Bridge.InsertChain(p.Batch(2, p.Height()))
	mx, my := newPoolModel(), newPoolModel()
	for _, m := range []*poolModel{mx, my} {
		for _, a := range users {
			m.head[a] = p.Chain.GetFrontierMomentumStore().GetAccountStore(a).Identifier()
		}
	}
	insert := func(n *simnode.Node, m *poolModel, tx *nom.AccountBlockTransaction, force bool, what string) {
		// a fresh transaction object per node: inserting steals the change set
		cp, err := n.Sup.ApplyBlock(nomsim.CloneBlock(tx.Block))
		if err != nil {
			// not applicable on this node's pool state (its predecessor was replaced): the model must refuse as well
			if ch, _ := m.add(tx.Block, force); ch {
				r.Fail("pool-differs-from-model", "apply-refused", "%s: node %s cannot apply %d:%s (%v) but the reference pool takes it", what, n.Name, tx.Block.Height, tx.Block.Hash.String()[:6], err)
			}
			return
		}
		ins := n.Chain.AcquireInsert("c14")
		if force {
			err = n.Chain.ForceAddAccountBlockTransaction(ins, cp)
		} else {
			err = n.Chain.AddAccountBlockTransaction(ins, cp)
		}
		ins.Unlock()
		changed, refused := m.add(tx.Block, force)
		r.Logf("%s on %s: %d:%s force=%v -> err=%v (model changed=%v refused=%v)", what, n.Name, tx.Block.Height, tx.Block.Hash.String()[:6], force, err != nil, changed, refused)
		if (err != nil) != refused {
			r.Fail("pool-decision-differs", opClass(what), "%s: node %s returned err=%v, the reference rule says refused=%v", what, n.Name, err, refused)
		}
		comparePool(r, n, m, users, what+" on "+n.Name)
	}
	// contract accounts are part of the comparison too: their receive blocks (with descendant
	// batches) are pooled by the producer's pillar and gossiped
	contracts := append([]types.Address(nil), types.EmbeddedContracts...)
	for _, m := range []*poolModel{mx, my} {
		for _, a := range contracts {
			m.head[a] = p.Chain.GetFrontierMomentumStore().GetAccountStore(a).Identifier()
		}
	}
	all := append(append([]types.Address(nil), users...), contracts...)
	var pillarBlocks []*nom.AccountBlock
	p.OnBlock = func(_ *simnode.Node, b *nom.AccountBlock) {
		if types.IsEmbeddedAddress(b.Address) {
			pillarBlocks = append(pillarBlocks, b)
		}
	}
	gn := nomsim.NewGen(w)
	steps := 10 + t.Choose(40)
	ops := 0
	for s := 0; s < steps; s++ {
		t.Span(func() {
			u := users[t.Choose(len(users))]
			switch t.Choose(6) {
			case 0, 1: // extend
				top := x.Chain.GetFrontierAccountStore(u).Identifier()
				if tx := candidate(r, x, w, u, top, 0); tx != nil {
					insert(x, mx, tx, false, "extend")
					insert(y, my, tx, false, "extend")
					ops++
				}
			case 2, 3: // a competing pair at one height, delivered in opposite orders
				pool := mx.pool[u]
				prev := mx.head[u]
				if len(pool) > 0 && t.Bool() {
					i := t.Choose(len(pool))
					if i > 0 {
						prev = pool[i-1].Identifier()
					}
				} else if len(pool) > 0 {
					prev = pool[len(pool)-1].Identifier()
				}
				// both candidates are built on a node whose pool ends at prev: use P's verifier state via X when possible
				a := candidate(r, x, w, u, prev, t.Choose(3))
				b := candidate(r, x, w, u, prev, t.Choose(3))
				if a == nil || b == nil || a.Block.Hash == b.Block.Hash {
					return
				}
				r.Probe("competing-pair")
				if better(a.Block, b.Block) == better(b.Block, a.Block) {
					r.Fail("priority-rule", "not-antisymmetric", "reference rule is not antisymmetric for %v / %v", a.Block.Hash, b.Block.Hash)
				}
				insert(x, mx, a, false, "pair-first")
				insert(x, mx, b, false, "pair-second")
				insert(y, my, b, false, "pair-first")
				insert(y, my, a, false, "pair-second")
				// whatever the order, both nodes hold the same winner
				gx, gy := x.Chain.GetUncommittedAccountBlocksByAddress(u), y.Chain.GetUncommittedAccountBlocksByAddress(u)
				if blockList(gx) != blockList(gy) {
					r.Fail("order-dependent-winner", "pair", "two nodes that received the same competing pair in opposite orders hold %s and %s", blockList(gx), blockList(gy))
				}
				ops += 2
			case 4: // forced insertion of a losing sibling
				pool := mx.pool[u]
				if len(pool) == 0 {
					return
				}
				i := t.Choose(len(pool))
				prev := mx.head[u]
				if i > 0 {
					prev = pool[i-1].Identifier()
				}
				if tx := candidate(r, x, w, u, prev, 0); tx != nil && tx.Block.Hash != pool[i].Hash {
					insert(x, mx, tx, true, "forced")
					insert(y, my, tx, true, "forced")
					r.Probe("forced-insert")
					ops++
				}
			case 5: // a momentum: P confirms what X's pool holds for some accounts (its own gossip), others stay pooled;
				// for some accounts P confirms a CONFLICTING block (a double spend the nodes did not see): the
				// cemented block must displace whatever the pool holds, whatever its priority
				for _, a := range users {
					switch t.Choose(4) {
					case 0, 1:
						for _, b := range mx.pool[a] {
							p.Bridge.AddAccountBlocks([]*nom.AccountBlock{nomsim.CloneBlock(b)})
						}
					case 2:
						if len(mx.pool[a]) > 0 {
							head := p.Chain.GetFrontierAccountStore(a).Identifier()
							if head == mx.head[a] {
								if tx := candidate(r, p, w, a, head, t.Choose(3)); tx != nil && tx.Block.Hash != mx.pool[a][0].Hash {
									p.CreateAccountBlock(tx)
									r.Probe("cemented-block-conflicts-with-pool")
								}
							}
						}
					}
				}
				// contract calls whose receives carry descendant batches (payouts, refunds with value)
				if t.Bool() {
					for i := 0; i < 1+t.Choose(3); i++ {
						nomsim.FlowByName([]string{"cancel-fuse", "fuse", "donate", "stake", "issue-token", "register-pillar"}[t.Choose(6)]).Run(gn, p)
					}
				}
				// sometimes the producer loses its pool (restart) right before producing: the receives
				// it had gossiped stay pooled on the other nodes across a momentum that lacks them
				if t.Choose(4) == 0 {
					r.Fault("producer-restart-before-slot")
					if err := p.Restart(false); err != nil {
						r.Fail("restart", "open", "%v", err)
					}
				}
				h0 := p.Height()
				pillarBlocks = nil
				w.StepSlot()
				for h := h0 + 1; h <= p.Height(); h++ {
					d := p.Detailed(h)
					for _, n := range []*simnode.Node{x, y} {
						if idx, err := n.Bridge.InsertChain([]*nom.DetailedMomentum{d}); err != nil || idx != 0 {
							r.Fail("honest-momentum-refused", "sequential", "node %s: idx=%d err=%v", n.Name, idx, err)
						}
					}
					// blocks of the momentum that the nodes did not hold were force-added: same in the model
					for _, m := range []*poolModel{mx, my} {
						for _, b := range d.AccountBlocks {
							if b.BlockType != nom.BlockTypeContractSend {
								m.add(b, true)
							}
						}
						m.confirm(d)
					}
					comparePool(r, x, mx, all, "momentum on X")
					comparePool(r, y, my, all, "momentum on Y")
					r.Probe("momentum-with-pooled-blocks")
				}
				// the pillar's receives (acknowledging the new momentum) are gossiped to both nodes
				for _, b := range pillarBlocks {
					if b.BlockType == nom.BlockTypeContractSend {
						continue
					}
					for i, n := range []*simnode.Node{x, y} {
						m := []*poolModel{mx, my}[i]
						err := n.Bridge.AddAccountBlocks([]*nom.AccountBlock{nomsim.CloneBlock(b)})
						changed, refused := m.add(b, false)
						if (err != nil) != refused {
							r.Fail("pool-decision-differs", "contract-receive", "node %s: gossiped contract receive %v/%d: err=%v, reference refused=%v changed=%v", n.Name, b.Address, b.Height, err, refused, changed)
						}
						if len(b.DescendantBlocks) > 0 {
							r.Probe("batched-receive-pooled")
						}
					}
				}
				comparePool(r, x, mx, all, "contract-receives on X")
				comparePool(r, y, my, all, "contract-receives on Y")
			}
		})
	}
	r.Probes["pool-operations"] += ops
	r.NonTrivial = ops >= 5
	r.Finger = fmt.Sprintf("seq-%s-%d", p.Frontier().Hash.String()[:16], ops)
	// W/O 2 at the very end (map iteration order of the pool is the runtime's: nothing after this is logged)
	c14Content(r, w, p)
}

// ---- W/O 2: momentum content never splits a batch and respects the cap ----

func c14Content(r *simrt.Run, w *nomsim.World, p *simnode.Node) {
	t := r.T
	// contract calls whose receives carry descendants, then a large number of user blocks
	gn := nomsim.NewGen(w)
	for i := 0; i < 12; i++ {
		nomsim.FlowByName([]string{"register-pillar", "cancel-fuse", "stake", "donate", "fuse", "issue-token"}[t.Choose(6)]).Run(gn, p)
	}
	w.StepSlot() // confirms the calls; the pillar then pools the receives (with descendant batches)
	target := 80 + t.Choose(320)
	if r.Tier != "thorough" && target > 200 {
		target = 200
	}
	for i := 0; i < target; i++ {
		u := w.Users[i%len(w.Users)]
		w.Send(p, u.Address, w.Users[(i+1)%len(w.Users)].Address, types.ZnnTokenStandard, big.NewInt(1), nil)
	}
	pool := p.Chain.GetAllUncommittedAccountBlocks()
	inPool := map[types.Hash]bool{}
	for _, b := range pool {
		inPool[b.Hash] = true
	}
	// the order in which the pool's accounts are walked is the simulator's choice (map-order seam): six
	// tape-chosen permutations; without the seam (tree under test changed that loop) the runtime's own
	// varying map order takes its place
	defer func() { verifrt.MapOrder = nil }()
	for rep := 0; rep < 6; rep++ {
		seedPerm := r.T.Uint64()
		verifrt.MapOrder = func(n int) []int {
			p := make([]int, n)
			for i := range p {
				p[i] = i
			}
			x := seedPerm
			for i := n - 1; i > 0; i-- {
				x += 0x9e3779b97f4a7c15
				z := x
				z = (z ^ (z >> 30)) * 0xbf58476d1ce4e5b9
				z = (z ^ (z >> 27)) * 0x94d049bb133111eb
				z ^= z >> 31
				j := int(z % uint64(i+1))
				p[i], p[j] = p[j], p[i]
			}
			return p
		}
		content := p.Chain.GetNewMomentumContent()
		verifrt.MapOrder = nil
		if len(content) > 100 {
			r.Fail("momentum-content", "over-limit", "content offered for production has %d blocks (pool %d)", len(content), len(pool))
		}
		seen := map[types.Hash]bool{}
		perAddr := map[types.Address][]*nom.AccountBlock{}
		for _, b := range content {
			if !inPool[b.Hash] {
				r.Fail("momentum-content", "not-in-pool", "content holds a block that is not pooled")
			}
			seen[b.Hash] = true
			perAddr[b.Address] = append(perAddr[b.Address], b)
		}
		for _, b := range content {
			if b.BlockType == nom.BlockTypeContractReceive {
				for _, d := range b.DescendantBlocks {
					if !seen[d.Hash] {
						r.Fail("momentum-content", "batch-split", "content holds contract receive %v/%d without its descendant at height %d", b.Address, b.Height, d.Height)
					}
				}
			}
		}
		// a descendant never appears without its receive
		for _, b := range content {
			if b.BlockType == nom.BlockTypeContractSend {
				found := false
				for _, o := range content {
					if o.BlockType == nom.BlockTypeContractReceive && o.Address == b.Address {
						for _, d := range o.DescendantBlocks {
							if d.Hash == b.Hash {
								found = true
							}
						}
					}
				}
				if !found {
					r.Fail("momentum-content", "batch-split", "content holds contract send %v/%d without the receive that produced it", b.Address, b.Height)
				}
			}
		}
		// per address: a prefix of the pooled chain
		for a, bs := range perAddr {
			full := p.Chain.GetUncommittedAccountBlocksByAddress(a)
			for i, b := range bs {
				if i >= len(full) || full[i].Hash != b.Hash {
					r.Fail("momentum-content", "not-a-prefix", "content of %v is not a prefix of its pooled chain", a)
				}
			}
		}
	}
	r.Probe("content-checked")
	if len(pool) > 100 {
		r.Probe("content-checked-over-100-pooled")
	}
}

// ---- W/O 3a: readers against the inserting goroutine, scheduled at lock sites ----

func c14ReadersVsInserter(r *simrt.Run, w *nomsim.World, wl *nomsim.Workload) {
	t := r.T
	p := w.AddNode("P", nomsim.MockPillars(), false)
	f := w.AddNode("F", nil, false)
	var fresh []*nom.AccountBlock
	p.OnBlock = func(_ *simnode.Node, b *nom.AccountBlock) { fresh = append(fresh, b) }
	for i := 0; i < 2+t.Choose(4); i++ {
		wl.Ops(p)
		w.StepSlot()
	}
	f.Bridge.InsertChain(p.Batch(2, p.Height()))
	fresh = nil
	// material for the inserter: a few slots of traffic on P
	type item struct {
		blocks []*nom.AccountBlock
		mom    *nom.DetailedMomentum
	}
	var items []item
	rounds := 2 + t.Choose(4)
	for i := 0; i < rounds; i++ {
		wl.G.RefreshTokens(p)
		wl.Ops(p)
		wl.G.Transfer(p)
		h0 := p.Height()
		w.StepSlot()
		var before, after []*nom.AccountBlock
		for _, b := range fresh {
			if b.MomentumAcknowledged.Height > h0 {
				after = append(after, b)
			} else {
				before = append(before, b)
			}
		}
		fresh = nil
		if len(before) > 0 {
			items = append(items, item{blocks: before})
		}
		if p.Height() > h0 {
			items = append(items, item{mom: p.Detailed(p.Height())})
		}
		if len(after) > 0 {
			items = append(items, item{blocks: after})
		}
	}
	honest := map[types.Hash]bool{}
	addrs := map[types.Address]bool{}
	for _, it := range items {
		for _, b := range it.blocks {
			honest[b.Hash] = true
			addrs[b.Address] = true
			for _, d := range b.DescendantBlocks {
				honest[d.Hash] = true
			}
		}
		if it.mom != nil {
			for _, b := range it.mom.AccountBlocks {
				honest[b.Hash] = true
				addrs[b.Address] = true
			}
		}
	}
	var addrList []types.Address
	for a := range addrs {
		addrList = append(addrList, a)
	}
	sortAddrs(addrList)
	if len(addrList) == 0 {
		r.Skip("no-traffic")
		return
	}
	s := sched.New(r)
	if t.Bool() {
		s.Sticky = 70
	}
	var viol []string
	report := func(clause, disc, msg string) { viol = append(viol, clause+"\x00"+disc+"\x00"+msg) }
	// momentum event listeners: two stay for the whole run, two leave while momentums are being announced
	mk := func(name string) *c14Listener {
		l := &c14Listener{name: name, touch: func() { f.Chain.GetFrontierMomentumStore() }}
		f.Chain.Register(l)
		return l
	}
	tempA, stay1, tempB, stay2 := mk("tempA"), mk("stay1"), mk("tempB"), mk("stay2")
	if t.Bool() {
		// the moment of leaving is spread over the inserter's work: a tape-chosen number of harmless
		// reads (each a scheduling point) before each UnRegister
		padA, padB := t.Choose(120), t.Choose(120)
		s.Go("unsubscriber", func() {
			for i := 0; i < padA; i++ {
				f.Chain.GetFrontierMomentumStore()
			}
			f.Chain.UnRegister(tempA)
			for i := 0; i < padB; i++ {
				f.Chain.GetFrontierMomentumStore()
			}
			f.Chain.UnRegister(tempB)
		})
		r.Probe("listeners-leave-during-announcements")
	}
	s.Go("inserter", func() {
		for _, it := range items {
			if it.mom != nil {
				if idx, err := f.Bridge.InsertChain([]*nom.DetailedMomentum{it.mom}); err != nil || idx != 0 {
					report("honest-momentum-refused", "under-readers", fmt.Sprintf("idx=%d err=%v", idx, err))
				}
			} else {
				f.Bridge.AddAccountBlocks(it.blocks)
			}
		}
	})
	nReaders := 1 + t.Choose(3)
	reads := make([]int, nReaders)
	for ri := 0; ri < nReaders; ri++ {
		ri := ri
		// what each reader looks at is decided up front by the tape
		var plan []int
		for i := 0; i < 3+t.Choose(8); i++ {
			plan = append(plan, t.Choose(3*len(addrList)))
		}
		s.Go(fmt.Sprintf("reader%d", ri), func() {
			for _, pl := range plan {
				a := addrList[pl%len(addrList)]
				switch pl / len(addrList) {
				case 0: // the pooled chain of one account: a single chain of known blocks
					bs := f.Chain.GetUncommittedAccountBlocksByAddress(a)
					for i, b := range bs {
						if !honest[b.Hash] {
							report("reader-saw-unknown-block", "pool", fmt.Sprintf("%v/%d", a, b.Height))
						}
						if i > 0 && (b.PreviousHash != bs[i-1].Hash || b.Height != bs[i-1].Height+1) {
							report("reader-saw-broken-chain", "pool", fmt.Sprintf("%v: %s", a, blockList(bs)))
						}
					}
				case 1: // the frontier account store: identifier, frontier block and every block below agree
					st := f.Chain.GetFrontierAccountStore(a)
					id := st.Identifier()
					fr, err := st.Frontier()
					if err != nil || (fr == nil) != (id.Height == 0) || (fr != nil && fr.Identifier() != id) {
						report("reader-saw-half-applied-block", "frontier-store", fmt.Sprintf("%v: identifier %v frontier %v err %v", a, id, fr, err))
						break
					}
					var up *nom.AccountBlock
					for h := id.Height; h >= 1 && h+6 > id.Height; h-- {
						b, err := st.ByHeight(h)
						if err != nil || b == nil {
							report("reader-saw-half-applied-block", "missing-height", fmt.Sprintf("%v: no block at %d below frontier %d", a, h, id.Height))
							break
						}
						if up != nil && up.PreviousHash != b.Hash && len(up.DescendantBlocks) == 0 {
							report("reader-saw-broken-chain", "frontier-store", fmt.Sprintf("%v: %d does not link to %d", a, up.Height, b.Height))
						}
						up = b
					}
					// the balance belongs to the same snapshot: never negative, and for a send frontier the debit is already applied
					if bal, err := st.GetBalance(types.ZnnTokenStandard); err != nil || bal.Sign() < 0 {
						report("reader-saw-half-applied-block", "balance", fmt.Sprintf("%v: %v %v", a, bal, err))
					}
				case 2: // everything pooled: every block known, per address a chain
					all := f.Chain.GetAllUncommittedAccountBlocks()
					last := map[types.Address]*nom.AccountBlock{}
					for _, b := range all {
						if !honest[b.Hash] {
							report("reader-saw-unknown-block", "all", fmt.Sprintf("%v/%d", b.Address, b.Height))
						}
						if l := last[b.Address]; l != nil && (b.PreviousHash != l.Hash || b.Height != l.Height+1) {
							report("reader-saw-broken-chain", "all", fmt.Sprintf("%v at %d", b.Address, b.Height))
						}
						last[b.Address] = b
					}
				}
				reads[ri]++
			}
		})
	}
	panics := s.Run()
	for _, pn := range panics {
		r.Fail("task-panic", "readers-vs-inserter", "%v", pn)
	}
	if s.Deadlock != "" {
		r.Fail("deadlock", "readers-vs-inserter", "%s", s.Deadlock)
	}
	for _, v := range viol {
		parts := bytes.SplitN([]byte(v), []byte{0}, 3)
		r.Fail(string(parts[0]), string(parts[1]), "%s (schedule of %d steps)", parts[2], s.Steps)
	}
	r.Logf("schedule: %d readers", nReaders)
	for _, st := range s.Trace {
		logSched(r, st)
	}
	// every listener that stayed heard of every inserted momentum exactly once, in order; one that left
	// heard a prefix
	for _, l := range []*c14Listener{tempA, stay1, tempB, stay2} {
		f.Chain.UnRegister(l)
	}
	var inserted []uint64
	for _, it := range items {
		if it.mom != nil && it.mom.Momentum.Height <= f.Height() {
			inserted = append(inserted, it.mom.Momentum.Height)
		}
	}
	for _, l := range []*c14Listener{stay1, stay2} {
		if fmt.Sprint(l.inserted) != fmt.Sprint(inserted) || len(l.deleted) != 0 {
			r.Fail("listener-missed-or-repeated-event", "stayed", "listener %s heard insertions %v and deletions %v; the node inserted %v (schedule of %d steps)", l.name, l.inserted, l.deleted, inserted, s.Steps)
		}
	}
	for _, l := range []*c14Listener{tempA, tempB} {
		ok := len(l.inserted) <= len(inserted)
		for i := 0; ok && i < len(l.inserted); i++ {
			ok = l.inserted[i] == inserted[i]
		}
		if !ok {
			r.Fail("listener-missed-or-repeated-event", "left", "listener %s, which left, heard %v; the node inserted %v", l.name, l.inserted, inserted)
		}
	}
	r.Probe("listener-histories-checked")
	// afterwards the node equals the producer
	if f.Height() == p.Height() {
		compareNodes(r, "same-momentums-different-state", p, f, nil)
	}
	poolOnHead(r, f, addrList, "after readers vs inserter")
	r.Probes["schedule-steps"] += s.Steps
	r.NonTrivial = s.Steps >= 20
	r.Finger = fmt.Sprintf("rvi-%s", r.Digest())
	r.Sample["schedule_steps"] = s.Steps
	r.Sample["readers"] = nReaders
}

// poolOnHead: for every account the pooled blocks form one chain that starts on the account's confirmed
// head, and the pool's frontier store stands on the last of them (on the confirmed head if none).
func poolOnHead(r *simrt.Run, n *simnode.Node, addrs []types.Address, where string) {
	for _, a := range addrs {
		head := n.Chain.GetFrontierMomentumStore().GetAccountStore(a).Identifier()
		got := n.Chain.GetUncommittedAccountBlocksByAddress(a)
		link := head
		for _, b := range got {
			if b.PreviousHash != link.Hash || b.Height != link.Height+1 {
				r.Fail("pool-not-a-chain", where, "%s: the pool of %v on node %s is not a chain on its confirmed head %d/%v: %s", where, a, n.Name, head.Height, head.Hash, blockList(got))
			}
			link = b.Identifier()
		}
		if pf := n.Chain.GetFrontierAccountStore(a).Identifier(); pf != link {
			r.Fail("pool-frontier-off-chain", where, "%s: the pool frontier of %v on node %s is %d/%v, but its confirmed head is %d/%v and the pooled chain ends at %d/%v", where, a, n.Name, pf.Height, pf.Hash, head.Height, head.Hash, link.Height, link.Hash)
		}
		r.Probe("pool-on-head-checked")
	}
}

// ---- W/O 3c: pool readers against a reorganisation ----

// c14ReadersVsReorg: an observer on the shorter branch adopts the longer one through InsertChain
// (rollback, then insertion) while readers look at the pools of the accounts whose blocks are being
// abandoned or adopted; the scheduler decides who runs at every lock site.
func c14ReadersVsReorg(r *simrt.Run, w *nomsim.World, wl *nomsim.Workload) {
	t := r.T
	f := nomsim.NewFork(w, wl, t.Choose(6), true, true)
	f.Common(3+t.Choose(8), true)
	f.Split(2+t.Choose(8), true, true)
	win, lose, ok := f.Longer()
	for tries := 0; !ok && tries < 40; tries++ {
		w.StepSlot()
		w.Net.Flush()
		win, lose, ok = f.Longer()
	}
	if !ok {
		r.Skip("branches-stayed-equal")
		return
	}
	x := f.XB
	if lose == f.A {
		x = f.XA
	}
	w.Net.Gossip = false
	base := nomsim.CommonAncestor(x, win)
	depth := x.Height() - base
	if depth == 0 || depth > 30 || win.Height() <= x.Height() {
		r.Skip("no-reorganisation-to-race")
		return
	}
	batch := win.Batch(base+1, win.Height())
	addrs := map[types.Address]bool{}
	known := map[types.Hash]bool{}
	note := func(d *nom.DetailedMomentum) {
		if d == nil {
			return
		}
		for _, b := range d.AccountBlocks {
			addrs[b.Address] = true
			known[b.Hash] = true
		}
	}
	for h := base + 1; h <= x.Height(); h++ {
		note(x.Detailed(h))
	}
	for _, d := range batch {
		note(d)
	}
	for _, b := range x.Chain.GetAllUncommittedAccountBlocks() {
		addrs[b.Address] = true
		known[b.Hash] = true
	}
	var addrList []types.Address
	for a := range addrs {
		addrList = append(addrList, a)
	}
	sortAddrs(addrList)
	if len(addrList) == 0 {
		r.Skip("no-traffic")
		return
	}
	sc := sched.New(r)
	switch t.Choose(3) {
	case 1:
		sc.Sticky = 70
	case 2:
		sc.Sticky = 92
	}
	var viol []string
	report := func(clause, disc, msg string) { viol = append(viol, clause+"\x00"+disc+"\x00"+msg) }
	var idx int
	var ierr error
	sc.Go("sync", func() { idx, ierr = x.Bridge.InsertChain(batch) })
	nReaders := 1 + t.Choose(3)
	for ri := 0; ri < nReaders; ri++ {
		var plan []int
		for i := 0; i < 4+t.Choose(12); i++ {
			plan = append(plan, t.Choose(3*len(addrList)))
		}
		sc.Go(fmt.Sprintf("reader%d", ri), func() {
			for _, pl := range plan {
				a := addrList[pl%len(addrList)]
				switch pl / len(addrList) {
				case 0:
					bs := x.Chain.GetUncommittedAccountBlocksByAddress(a)
					for i, b := range bs {
						if i > 0 && (b.PreviousHash != bs[i-1].Hash || b.Height != bs[i-1].Height+1) {
							report("reader-saw-broken-chain", "pool", fmt.Sprintf("%v: %s", a, blockList(bs)))
						}
					}
				case 1:
					st := x.Chain.GetFrontierAccountStore(a)
					id := st.Identifier()
					fr, err := st.Frontier()
					if err != nil || (fr == nil) != (id.Height == 0) || (fr != nil && fr.Identifier() != id) {
						report("reader-saw-half-applied-block", "frontier-store", fmt.Sprintf("%v: identifier %v frontier %v err %v", a, id, fr, err))
					}
				case 2:
					_ = x.Chain.GetAllUncommittedAccountBlocks()
				}
			}
		})
	}
	panics := sc.Run()
	for _, pn := range panics {
		r.Fail("task-panic", "readers-vs-reorg", "%v", pn)
	}
	if sc.Deadlock != "" {
		r.Fail("deadlock", "readers-vs-reorg", "%s", sc.Deadlock)
	}
	for _, v := range viol {
		parts := bytes.SplitN([]byte(v), []byte{0}, 3)
		r.Fail(string(parts[0]), string(parts[1]), "%s (schedule of %d steps)", parts[2], sc.Steps)
	}
	r.Logf("reorg of depth %d under %d readers: idx=%d err=%v", depth, nReaders, idx, ierr)
	for _, st := range sc.Trace {
		logSched(r, st)
	}
	if ierr != nil || idx != 0 {
		r.Fail("honest-batch-refused", "under-readers", "the observer refused the longer branch [%d..%d] while readers ran: idx=%d err=%v", base+1, win.Height(), idx, ierr)
	}
	if x.Frontier().Hash != win.Frontier().Hash {
		r.Fail("reorged-node-diverges", "under-readers", "observer is at %d/%v, the adopted branch ends at %d/%v", x.Height(), x.Frontier().Hash, win.Height(), win.Frontier().Hash)
	}
	r.Fault("reorg-under-readers")
	// afterwards: every pool stands on the adopted ledger, and the node equals one that never saw the other branch
	poolOnHead(r, x, addrList, "after a reorganisation under readers")
	ref := freshFollower(r, w, "R", win, 64)
	compareNodes(r, "reorged-node-differs-from-fresh", ref, x, nil)
	// whatever the observer still pools is acceptable to the fresh node
	for _, b := range x.Chain.GetAllUncommittedAccountBlocks() {
		if b.BlockType == nom.BlockTypeContractSend {
			continue
		}
		if err := ref.Bridge.AddAccountBlocks([]*nom.AccountBlock{b}); err != nil && !poolPriorityRefusal(err) {
			r.Fail("pool-trace", "unacceptable-block", "block %v/%d left in the observer's pool is refused by a fresh node: %v", b.Address, b.Height, err)
		}
	}
	// and the observer keeps following: the winner's next momentums apply
	for i := 0; i < 2; i++ {
		wl.Ops(win)
		w.StepSlot()
	}
	if win.Height() > x.Height() {
		if idx, err := x.Bridge.InsertChain(win.Batch(x.Height()+1, win.Height())); err != nil || idx != 0 {
			r.Fail("honest-batch-refused", "after-reorg", "after the reorganisation the observer refuses the next momentums: idx=%d err=%v", idx, err)
		}
		poolOnHead(r, x, addrList, "after following the adopted branch")
	}
	r.Probes["schedule-steps"] += sc.Steps
	r.NonTrivial = sc.Steps >= 20
	r.Finger = fmt.Sprintf("rvr-%s", r.Digest())
	r.Sample["schedule_steps"] = sc.Steps
	r.Sample["readers"] = nReaders
	r.Sample["depth"] = depth
}

// c14Listener records the momentum events it is told about; touch gives the scheduler a yield point
// inside the callback (a read that takes a lock, as the real listeners do).
type c14Listener struct {
	name              string
	inserted, deleted []uint64
	touch             func()
}

func (l *c14Listener) InsertMomentum(d *nom.DetailedMomentum) {
	l.touch()
	l.inserted = append(l.inserted, d.Momentum.Height)
}
func (l *c14Listener) DeleteMomentum(d *nom.DetailedMomentum) {
	l.touch()
	l.deleted = append(l.deleted, d.Momentum.Height)
}

// ---- W/O 3d: the producing pillar against gossip that replaces what it is about to confirm ----

// c14PillarVsGossip: node A pools block X of an account; a second node B, on the same chain, pools a
// competitor X' for the same height that pays more plasma, and a block Y on top of it. While A's pillar
// produces (generate the momentum from the pool, release the insert lock, take it again, insert), X' and Y
// arrive on A through the bridge. Whatever the interleaving: A's own momentum is one a fresh node accepts,
// and afterwards A's pool is one chain on the confirmed head.
func c14PillarVsGossip(r *simrt.Run, w *nomsim.World, wl *nomsim.Workload) {
	t := r.T
	a := w.AddNode("A", nomsim.MockPillars(), false)
	b := w.AddNode("B", nil, false)
	for i := 0; i < 2+t.Choose(4); i++ {
		wl.Ops(a)
		w.StepSlot()
	}
	if idx, err := b.Bridge.InsertChain(a.Batch(2, a.Height())); err != nil || idx != 0 {
		r.Fail("honest-batch-refused", "setup", "idx=%d err=%v", idx, err)
	}
	races := 0
	rounds := 2 + t.Choose(4)
	for i := 0; i < rounds; i++ {
		t.Span(func() {
			// a slot in which A's pillar is elected
			var ts time.Time
			found := false
			for tries := 0; tries < 30 && !found; tries++ {
				s := w.Slot
				w.Slot++
				w.AdvanceTo(s)
				ts = w.SlotTime(s)
				if exp, err := a.Cons.GetMomentumProducer(ts); err == nil && a.Hosts(*exp) != nil {
					found = true
				}
			}
			if !found {
				return
			}
			u := w.Users[t.Choose(5)]
			o := w.Users[5+t.Choose(5)]
			fr := a.Chain.GetFrontierAccountStore(u.Address).Identifier()
			if b.Chain.GetFrontierAccountStore(u.Address).Identifier() != fr {
				return
			}
			mk := func(n *simnode.Node, prev types.HashHeight, amount int64, fused uint64) *nom.AccountBlock {
				tx, err := n.Sup.GenerateFromTemplate(&nom.AccountBlock{BlockType: nom.BlockTypeUserSend, Address: u.Address, ToAddress: o.Address, TokenStandard: types.ZnnTokenStandard,
					Amount: big.NewInt(amount), PreviousHash: prev.Hash, Height: prev.Height + 1, FusedPlasma: fused}, u.Signer)
				if err != nil {
					return nil
				}
				return tx.Block
			}
			x := mk(a, fr, int64(1+t.Choose(100)), 21000)
			if x == nil || a.Bridge.AddAccountBlocks([]*nom.AccountBlock{x}) != nil {
				return
			}
			x2 := mk(b, fr, int64(200+t.Choose(100)), 21000+uint64(1+t.Choose(2000)))
			if x2 == nil || b.Bridge.AddAccountBlocks([]*nom.AccountBlock{x2}) != nil {
				return
			}
			gossip := []*nom.AccountBlock{x2}
			if t.Bool() {
				if y := mk(b, x2.Identifier(), int64(1+t.Choose(100)), 21000); y != nil && b.Bridge.AddAccountBlocks([]*nom.AccountBlock{y}) == nil {
					gossip = append(gossip, y)
				}
			}
			sc := sched.New(r)
			switch t.Choose(3) {
			case 1:
				sc.Filter = func(site string) bool { return strings.HasPrefix(site, "chain/chain.go") }
			case 2:
				sc.Sticky = 85
			}
			h0, own0 := a.Height(), a.OwnMomentums
			sc.Go("pillar", func() { a.ProduceAt(ts) })
			sc.Go("gossip", func() { a.Bridge.AddAccountBlocks(gossip) })
			for _, pn := range sc.Run() {
				r.Fail("task-panic", "pillar-vs-gossip", "%v", pn)
			}
			if sc.Deadlock != "" {
				r.Fail("deadlock", "pillar-vs-gossip", "%s", sc.Deadlock)
			}
			races++
			r.Probes["schedule-steps"] += sc.Steps
			r.Logf("pillar/gossip race: A %d -> %d, own momentums +%d, %d gossiped blocks", h0, a.Height(), a.OwnMomentums-own0, len(gossip))
			for _, st := range sc.Trace {
				logSched(r, st)
			}
			poolOnHead(r, a, []types.Address{u.Address, o.Address}, "after a pillar/gossip race")
			// B follows A's chain (its own pool is forced over where it conflicts) and must accept it
			if a.Height() > b.Height() {
				if idx, err := b.Bridge.InsertChain(a.Batch(b.Height()+1, a.Height())); err != nil || idx != 0 {
					r.Fail("own-momentum-refused-by-others", "pillar-vs-gossip", "node B refuses the momentum A produced during the race: idx=%d err=%v", idx, err)
				}
			}
			// and A keeps producing: the next slot's momentum is built from a pool that stands on the ledger
			w.StepSlot()
			if a.LastOwnMomentumErr != nil {
				r.Fail("producer-wedged", "pillar-vs-gossip", "after the race A cannot insert its next momentum: %v", a.LastOwnMomentumErr)
			}
			if a.Height() > b.Height() {
				if idx, err := b.Bridge.InsertChain(a.Batch(b.Height()+1, a.Height())); err != nil || idx != 0 {
					r.Fail("own-momentum-refused-by-others", "after-race", "node B refuses A's next momentum: idx=%d err=%v", idx, err)
				}
			}
			poolOnHead(r, a, []types.Address{u.Address, o.Address}, "one slot after a pillar/gossip race")
		})
	}
	if a.Height() == b.Height() {
		compareNodes(r, "same-momentums-different-state", a, b, nil)
	}
	r.Probes["pillar-vs-gossip-races"] += races
	r.NonTrivial = races >= 1
	r.Finger = fmt.Sprintf("pvg-%s", r.Digest())
	r.Sample["races"] = races
}

// logSched puts one schedule step into the event log. Steps of goroutines the node itself spawns ("helper":
// the pillar's task runner) are left out: how many lock sites such a goroutine passes depends on map
// iteration inside the node (observed: the same seed gave 286 or 328 steps with identical decisions and an
// identical outcome), while every CHOICE of the scheduler - made only between two or more runnable
// goroutines - is on the tape.
func logSched(r *simrt.Run, st string) {
	if !strings.HasPrefix(st, "helper@") {
		r.Logf("sched %s", st)
	}
}

func sortAddrs(a []types.Address) {
	for i := 1; i < len(a); i++ {
		for j := i; j > 0 && bytes.Compare(a[j][:], a[j-1][:]) < 0; j-- {
			a[j], a[j-1] = a[j-1], a[j]
		}
	}
}

// ---- W/O 3b: a producing pillar against sync inserting a competing momentum ----

func c14PillarVsSync(r *simrt.Run, w *nomsim.World, wl *nomsim.Workload) {
	t := r.T
	f := nomsim.NewFork(w, wl, t.Choose(6), false, false)
	f.Common(3+t.Choose(10), true)
	w.Net.Gossip = false
	// B runs ahead on its own for a while, without A hearing of it
	w.Net.Partition(f.SideA(), f.SideB())
	races := 0
	rounds := 2 + t.Choose(5)
	for i := 0; i < rounds; i++ {
		t.Span(func() {
			// find the next slot in which A's pillar is elected (as A sees it) while B holds a momentum A lacks
			for tries := 0; tries < 40; tries++ {
				s := w.Slot
				ts := w.SlotTime(s)
				expected, err := f.A.Cons.GetMomentumProducer(ts)
				if err != nil {
					w.Slot++
					continue
				}
				if f.A.Hosts(*expected) == nil {
					// somebody else's slot: B may produce, A hears nothing
					w.Slot++
					w.AdvanceTo(s)
					wl.Ops(f.B)
					f.B.ProduceAt(ts)
					continue
				}
				// A's slot. Deliver, concurrently, B's chain (if B is ahead and within reach) or its next momentum.
				if f.B.Height() <= f.A.Height() || f.B.Height()-nomsim.CommonAncestor(f.A, f.B) > 25 {
					w.Slot++
					w.AdvanceTo(s)
					f.A.ProduceAt(ts)
					w.Net.SyncFrom(f.A, f.B) // B gives up its branch when A is longer
					continue
				}
				w.Slot++
				w.AdvanceTo(s)
				wl.Ops(f.A)
				base := nomsim.CommonAncestor(f.A, f.B)
				batch := f.B.Batch(base+1, f.B.Height())
				sc := sched.New(r)
				// swarm over scheduling strategies: every lock site / only the global insert lock; uniform / sticky
				switch t.Choose(3) {
				case 1:
					sc.Filter = func(site string) bool { return strings.HasPrefix(site, "chain/chain.go") }
					r.Probe("granularity-insert-lock")
				case 2:
					sc.Sticky = 85
					r.Probe("strategy-sticky")
				}
				var idx int
				var ierr error
				own0, tail := f.A.OwnMomentums, batch[len(batch)-1].Momentum
				sc.Go("pillar", func() { f.A.ProduceAt(ts) })
				sc.Go("sync", func() { idx, ierr = f.A.Bridge.InsertChain(batch) })
				panics := sc.Run()
				for _, pn := range panics {
					r.Fail("task-panic", "pillar-vs-sync", "%v", pn)
				}
				if sc.Deadlock != "" {
					r.Fail("deadlock", "pillar-vs-sync", "%s", sc.Deadlock)
				}
				races++
				r.Probes["schedule-steps"] += sc.Steps
				r.Logf("race at slot %d: A height %d, batch [%d..%d] -> idx=%d err=%v, own momentum err=%v", s, f.A.Height(), base+1, f.B.Height(), idx, ierr != nil, f.A.LastOwnMomentumErr != nil)
				for _, st := range sc.Trace {
					logSched(r, st)
				}
				// a node leaves its chain only for a strictly longer one: if its own momentum went in and it
				// nevertheless ends on the delivered branch, that branch must end above the own momentum
				if f.A.OwnMomentums > own0 && f.A.Frontier().Hash == tail.Hash && tail.Height <= f.A.LastOwnMomentum.Height {
					r.Fail("adopt-rule", "not-strictly-longer-under-race", "node A inserted its own momentum at height %d and then left it for a delivered branch ending at height %d (schedule of %d steps)", f.A.LastOwnMomentum.Height, tail.Height, sc.Steps)
				}
				// A must hold one consistent chain: linked, and equal to a node that applied only that chain
				checkLinkage(r, f.A, 40)
				ref := freshFollower(r, w, fmt.Sprintf("R%d", races), f.A, 64)
				da, dr := oracle.Dump(f.A.Mgr.Frontier()), oracle.Dump(ref.Mgr.Frontier())
				if oracle.Digest(da) != oracle.Digest(dr) {
					r.Fail("store-mixes-two-momentums", "pillar-vs-sync", "after a pillar/sync race node A (height %d) differs from a node that applied its chain only: %s", f.A.Height(), oracle.Diff(da, dr))
				}
				ref.Stop()
				return
			}
		})
	}
	r.Probes["pillar-vs-sync-races"] += races
	r.NonTrivial = races >= 1
	r.Finger = fmt.Sprintf("pvs-%s", r.Digest())
	r.Sample["races"] = races
	_ = time.Second
}
