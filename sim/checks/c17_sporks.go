package checks

import (
	"errors"
	"fmt"
	"github.com/zenon-network/go-zenon/wallet"
	"math/big"
	"os"
	"os/exec"
	"strconv"
	"strings"

	g "github.com/zenon-network/go-zenon/chain/genesis/mock"
	"github.com/zenon-network/go-zenon/chain/nom"
	"github.com/zenon-network/go-zenon/common"
	"github.com/zenon-network/go-zenon/common/types"
	"github.com/zenon-network/go-zenon/vm/constants"
	"github.com/zenon-network/go-zenon/vm/embedded/definition"

	"verif/sim/golden"
	"verif/sim/nomsim"
	"verif/sim/simnode"
	"verif/sim/simrt"
)

func init() { register("C17", runC17) }

// featureOf names the spork that guards a "contract.method" key according to
// the pinned method tables: a method of the origin table is ungated; otherwise
// it belongs to the first table (accelerator, bridge-liquidity, htlc) it occurs in.
func featureOf(key string) string {
	if _, ok := golden.MethodPlasma("origin", key); ok {
		return ""
	}
	if _, ok := golden.MethodPlasma("accelerator", key); ok {
		return "accelerator"
	}
	if _, ok := golden.MethodPlasma("bridge", key); ok {
		return "bridge-liquidity"
	}
	if _, ok := golden.MethodPlasma("htlc", key); ok {
		return "htlc"
	}
	return "none"
}

func gatedKeys() []string {
	var out []string
	for k := range golden.Methods("htlc") {
		if featureOf(k) != "" {
			out = append(out, k)
		}
	}
	sortStringsC(out)
	return out
}

func sortStringsC(s []string) {
	for i := 1; i < len(s); i++ {
		for j := i; j > 0 && s[j] < s[j-1]; j-- {
			s[j], s[j-1] = s[j-1], s[j]
		}
	}
}

func isUnavailable(err error) bool {
	return errors.Is(err, constants.ErrContractMethodNotFound) || errors.Is(err, constants.ErrContractDoesntExist)
}

type sporkFacts struct {
	enforcement map[string]uint64 // feature -> enforcement height (0 = not activated)
}

func runC17(r *simrt.Run) {
	r.WatchLocks() // a lock of the node that is never released is a violation, not a hang
	t := r.T
	w := nomsim.NewWorld(r, nomsim.MockGenesis(nomsim.SporksDeclared))
	w.EnforceReceiverRule(0)
	w.Net.Gossip = false
	p := w.AddNode("P", nomsim.MockPillars(), false)
	f := w.AddNode("F", nil, false)
	wl := nomsim.NewWorkload(w, nomsim.SporksDeclared)
	wl.MaxOps = 1 + t.Choose(3)
	wl.Mix.Spork = 0 // activations are scripted here
	facts := &sporkFacts{enforcement: map[string]uint64{}}
	keys := gatedKeys()
	var fresh []*nom.AccountBlock
	p.OnBlock = func(_ *simnode.Node, b *nom.AccountBlock) { fresh = append(fresh, b) }
	sporkStorage := func(n *simnode.Node) *definition.Spork { return nil }
	_ = sporkStorage
	activationOrder := nomsim.ImplementedSporks
	perm := []int{0, 1, 2}
	for i := 2; i > 0; i-- {
		j := t.Choose(i + 1)
		perm[i], perm[j] = perm[j], perm[i]
	}
	inOrder := perm[0] == 0 && (perm[1] == 2 || perm[2] == 1) // accelerator first, then bridge before htlc
	_ = inOrder
	nextAct := 0
	slots := 30 + t.Choose(50)
	if r.Tier == "thorough" {
		slots = 60 + t.Choose(200)
	}
	probes, checked := 0, 0
	// the second designated key: valid only while the chain height lies inside a window. Half of the runs
	// make a harness key that key, with a window inside the run
	var community *wallet.KeyPair
	var winFrom, winTo uint64
	if t.Bool() {
		community = w.Users[5+t.Choose(5)]
		winFrom = uint64(2 + t.Choose(25))
		winTo = winFrom + 1 + uint64(t.Choose(30))
		o1, o2, o3 := types.CommunitySporkAddress, definition.CommunitySporkAddressStartHeight, definition.CommunitySporkAddressEndHeight
		types.CommunitySporkAddress, definition.CommunitySporkAddressStartHeight, definition.CommunitySporkAddressEndHeight = community.Address, winFrom, winTo
		w.OnClose(func() {
			types.CommunitySporkAddress, definition.CommunitySporkAddressStartHeight, definition.CommunitySporkAddressEndHeight = o1, o2, o3
		})
		r.Probe("knob-community-key")
	}

	sync := func() {
		pend := fresh
		fresh = nil
		for _, b := range pend {
			f.Bridge.AddAccountBlocks([]*nom.AccountBlock{b})
		}
		if f.Height() < p.Height() {
			idx, err := f.Bridge.InsertChain(p.Batch(f.Height()+1, p.Height()))
			if err != nil || idx != 0 {
				r.Fail("honest-momentum-refused", "follower", "idx=%d err=%v", idx, err)
			}
			for _, b := range pend {
				f.Bridge.AddAccountBlocks([]*nom.AccountBlock{b})
			}
		}
	}

	// probe availability of a gated method for a block acknowledging momentum `ack`
	probe := func(key string, ack uint64) {
		parts := strings.SplitN(key, ".", 2)
		var c *nomsim.Contract
		for i := range nomsim.Contracts {
			if nomsim.Contracts[i].Name == parts[0] {
				c = &nomsim.Contracts[i]
			}
		}
		if c == nil {
			return
		}
		if _, ok := c.ABI.Methods[parts[1]]; !ok {
			return
		}
		m, err := p.Bridge.GetBlockByNumber(ack)
		if err != nil || m == nil {
			return
		}
		u := w.Users[t.Choose(5)]
		// never older than the account's previous acknowledgement (that would be refused for another reason)
		if prev, _ := p.Chain.GetFrontierAccountStore(u.Address).Frontier(); prev != nil && prev.MomentumAcknowledged.Height > ack {
			return
		}
		data, err := wl.G.PackRandom(c, parts[1])
		if err != nil {
			return
		}
		tmpl := &nom.AccountBlock{BlockType: nom.BlockTypeUserSend, Address: u.Address, ToAddress: c.Addr, TokenStandard: types.ZnnTokenStandard,
			Data: data, MomentumAcknowledged: m.Identifier()}
		tx, gerr := p.Sup.GenerateFromTemplate(tmpl, u.Signer)
		availableP := !isUnavailable(gerr)
		feature := featureOf(key)
		eh := facts.enforcement[feature]
		want := eh != 0 && ack >= eh
		probes++
		r.Logf("probe %s ack=%d (feature %s enforced from %d): available=%v err=%v", key, ack, feature, eh, availableP, gerr)
		if availableP != want {
			cls := "boundary"
			if eh == 0 {
				cls = "spork-never-activated"
			}
			if availableP {
				// the method tables are cumulative (htlc > bridge-liquidity > accelerator): a LATER
				// spork that is enforced at `ack` switches on the earlier features as well
				later := map[string][]string{"accelerator": {"bridge-liquidity", "htlc"}, "bridge-liquidity": {"htlc"}}
				for _, l := range later[feature] {
					if le := facts.enforcement[l]; le != 0 && ack >= le {
						cls = "enabled-by-later-spork"
					}
				}
				r.Report("gated-feature-available-early", cls, "%s (guarded by the %s spork, enforcement height %d) is available to a block acknowledging height %d", key, feature, eh, ack)
				if !r.Known["gated-feature-available-early|"+cls] {
					r.Abort()
				}
			} else {
				r.Fail("gated-feature-unavailable", cls, "%s (guarded by the %s spork enforced from %d) is refused as unknown for a block acknowledging height %d: %v", key, feature, eh, ack, gerr)
			}
			return
		}
		checked++
		// the follower must decide the same for the same acknowledged momentum
		if gerr == nil && tx != nil {
			_, ferr := f.Sup.ApplyBlock(nomsim.CloneBlock(tx.Block))
			if ferr != nil {
				r.Fail("nodes-disagree", "follower-refuses", "producer accepts %s acknowledging %d, follower refuses: %v", key, ack, ferr)
			}
			r.Probe("accepted-gated-call-agreed-by-follower")
			// publish some of them so that receive-time execution is exercised across the boundary
			if t.Choose(3) == 0 {
				p.CreateAccountBlock(tx)
				sync() // gossip reaches the follower before the next probe builds on this block
			}
		}
	}

	for s := 0; s < slots; s++ {
		t.Span(func() {
			wl.G.RefreshTokens(p)
			wl.Ops(p)
			// scripted spork traffic
			switch t.Choose(8) {
			case 0:
				if nextAct < 3 {
					sp := activationOrder[perm[nextAct]]
					if b := wl.G.ActivateSpork(p, sp.S.SporkId, g.Spork.Address); b != nil {
						nextAct++
						r.Fault("spork-activation-" + sp.Name)
					}
				}
			case 1: // activation by a key that is not the spork key: must be refused at send time
				sp := activationOrder[t.Choose(3)]
				u := w.Users[t.Choose(5)]
				if b := wl.G.ActivateSpork(p, sp.S.SporkId, u.Address); b != nil {
					r.Fail("spork-by-wrong-key", "activate", "activation of the %s spork by %v was accepted", sp.Name, u.Address)
				}
				if b := wl.G.CreateSpork(p, u.Address, "sim-created"); b != nil {
					r.Fail("spork-by-wrong-key", "create", "spork creation by %v was accepted", u.Address)
				}
				r.Probe("wrong-key-refused")
			case 3, 4: // the community key creates a spork, acknowledging the frontier or an older momentum
				if community == nil {
					break
				}
				tmpl := &nom.AccountBlock{BlockType: nom.BlockTypeUserSend, Address: community.Address, ToAddress: types.SporkContract, TokenStandard: types.ZnnTokenStandard,
					Amount: big.NewInt(0), Data: definition.ABISpork.PackMethodPanic(definition.SporkCreateMethodName, fmt.Sprintf("community-%d", s), "created by the community key")}
				if d := uint64([]int{0, 0, 1, 3, 8, 20}[t.Choose(6)]); d > 0 && p.Height() > d+1 {
					target := p.Height() - d
					if prev, err := p.Chain.GetFrontierAccountStore(community.Address).Frontier(); err == nil && prev != nil && prev.MomentumAcknowledged.Height > target {
						target = prev.MomentumAcknowledged.Height
					}
					if m, err := p.Chain.GetFrontierMomentumStore().GetMomentumByHeight(target); err == nil && m != nil {
						tmpl.MomentumAcknowledged = m.Identifier()
					}
				}
				if _, err := w.Submit(p, tmpl); err == nil {
					r.Probe("community-key-create-sent")
				}
			case 2: // second activation of an already activated spork: accepted as a send, must fail at receive
				for _, sp := range activationOrder {
					if facts.enforcement[sp.Name] != 0 && t.Bool() {
						wl.G.ActivateSpork(p, sp.S.SporkId, g.Spork.Address)
						r.Probe("second-activation-sent")
					}
				}
			}
			h0 := p.Height()
			w.StepSlot()
			sync()
			// learn activations from the ledger: the receive block of an ActivateSpork call
			ms := p.Chain.GetFrontierMomentumStore()
			for h := h0 + 1; h <= p.Height(); h++ {
				for _, b := range p.Detailed(h).AccountBlocks {
					if b.BlockType != nom.BlockTypeContractReceive || b.Address != types.SporkContract {
						continue
					}
					send, _ := ms.GetAccountBlockByHash(b.FromBlockHash)
					if send != nil && community != nil && send.Address == community.Address && len(b.Data) == 8 && common.BytesToUint64(b.Data) == 1 {
						// a call of the community key took effect: the chain height it was executed at must lie
						// inside the key's window (whatever momentum the SEND acknowledged)
						at := b.MomentumAcknowledged.Height
						if at < winFrom || at >= winTo {
							r.Fail("spork-by-wrong-key", "community-key-outside-window", "%s by the community key took effect at height %d (its send acknowledged %d); the key is valid in [%d,%d) only", callKey(send), at, send.MomentumAcknowledged.Height, winFrom, winTo)
						}
						r.Probe("community-key-call-took-effect-inside-window")
					}
					if send == nil || callKey(send) != "spork.ActivateSpork" {
						continue
					}
					id := new(types.Hash)
					if definition.ABISpork.UnpackMethod(id, definition.SporkActivateMethodName, send.Data) != nil {
						continue
					}
					ok := len(b.Data) == 8 && common.BytesToUint64(b.Data) == 1
					for _, sp := range activationOrder {
						if sp.S.SporkId != *id {
							continue
						}
						if facts.enforcement[sp.Name] != 0 {
							if ok {
								r.Fail("activation-repeated", sp.Name, "second activation of the %s spork succeeded", sp.Name)
							}
							r.Probe("second-activation-refused")
							continue
						}
						if !ok {
							continue
						}
						// takes effect only after the minimum delay, counted from the momentum the receive acknowledges
						want := b.MomentumAcknowledged.Height + 6
						st := definition.GetSporkInfoById(ms.GetAccountStore(types.SporkContract).Storage(), *id)
						if st == nil || !st.Activated || st.EnforcementHeight != want {
							r.Fail("activation-delay", sp.Name, "the %s spork activated at acknowledged height %d records enforcement %v, expected %d", sp.Name, b.MomentumAcknowledged.Height, st, want)
						}
						facts.enforcement[sp.Name] = want
						r.Logf("spork %s activated: enforcement height %d", sp.Name, want)
					}
				}
			}
			// a recorded enforcement height never changes
			for _, sp := range activationOrder {
				if eh := facts.enforcement[sp.Name]; eh != 0 {
					st := definition.GetSporkInfoById(ms.GetAccountStore(types.SporkContract).Storage(), sp.S.SporkId)
					if st == nil || st.EnforcementHeight != eh {
						r.Fail("activation-repeated", sp.Name+"-enforcement-moved", "enforcement height of the %s spork changed from %d to %v", sp.Name, eh, st)
					}
				}
			}
			// availability probes around every known boundary and at the frontier
			t.Loop(3, 4, 6, func() {
				key := keys[t.Choose(len(keys))]
				ack := p.Height()
				if eh := facts.enforcement[featureOf(key)]; eh != 0 && t.Choose(3) != 0 {
					cand := int64(eh) - 2 + int64(t.Choose(5))
					if cand >= 2 && uint64(cand) <= p.Height() {
						ack = uint64(cand)
					}
				} else if t.Bool() && p.Height() > 3 {
					ack = p.Height() - uint64(t.Choose(3))
				}
				probe(key, ack)
			})
		})
	}
	compareNodes(r, "same-momentums-different-state", p, f, nil)

	// halt clause in a child process
	if t.Choose(5) == 0 {
		haltInChild(r)
	}
	r.Probes["availability-probes"] += probes
	r.Probes["availability-agreed-with-reference"] += checked
	activated := 0
	for _, v := range facts.enforcement {
		if v != 0 {
			activated++
		}
	}
	r.NonTrivial = probes >= 10 && activated >= 1
	r.Finger = fmt.Sprintf("%s-%v", p.Frontier().Hash.String()[:16], perm)
	r.Sample["activation_order"] = []string{activationOrder[perm[0]].Name, activationOrder[perm[1]].Name, activationOrder[perm[2]].Name}
	r.Sample["enforcement_heights"] = facts.enforcement
	r.Sample["probes"] = probes
}

func haltInChild(r *simrt.Run) {
	dir := r.TempDir()
	run := func(phase string) (int, string) {
		cmd := exec.Command(os.Args[0], "-test.run", "^TestC17Child$", "-test.timeout", "120s")
		cmd.Env = append(os.Environ(), "VERIF_C17_DIR="+dir, "VERIF_C17_PHASE="+phase, "VERIF_C17_SEED="+strconv.FormatUint(uint64(r.T.Choose(1000)), 10), "VERIF_KEEP_STDOUT=1", "VERIF_PROP=")
		out, err := cmd.CombinedOutput()
		code := 0
		if ee, ok := err.(*exec.ExitError); ok {
			code = ee.ExitCode()
		} else if err != nil {
			code = -1
		}
		return code, string(out)
	}
	code, out := run("first")
	enforcement, lastAlive := uint64(0), uint64(0)
	for _, l := range strings.Split(out, "\n") {
		if strings.HasPrefix(l, "C17CHILD enforcement=") {
			enforcement, _ = strconv.ParseUint(strings.TrimPrefix(l, "C17CHILD enforcement="), 10, 64)
		}
		if strings.HasPrefix(l, "C17CHILD alive height=") {
			lastAlive, _ = strconv.ParseUint(strings.TrimPrefix(l, "C17CHILD alive height="), 10, 64)
		}
	}
	r.Logf("child: exit=%d enforcement=%d last-alive-height=%d", code, enforcement, lastAlive)
	if strings.Contains(out, "C17CHILD late-receive") {
		// the activation's receive was confirmed only after the height it announces: the node must stop when
		// that momentum goes in (and refuse to start again), not run on
		if strings.Contains(out, "C17CHILD restart failed") {
			r.Skip("child-restart-failed")
			return
		}
		if strings.Contains(out, "C17CHILD survived") || code != 2 {
			r.Fail("unimplemented-spork-not-halted", "late-receive", "a node kept running (status %d, last height %d) although an unimplemented spork was enforced by a receive confirmed after its enforcement height:\n%s", code, lastAlive, tail(out, 600))
		}
		code, out = run("restart")
		if strings.Contains(out, "restart survived") || code != 2 {
			r.Fail("unimplemented-spork-not-halted", "restart", "restart on the halted database ended with status %d:\n%s", code, tail(out, 400))
		}
		r.Probe("halt-in-child-verified-late-receive")
		return
	}
	if enforcement == 0 {
		r.Skip("child-did-not-activate")
		return
	}
	if strings.Contains(out, "C17CHILD survived") || code != 2 {
		r.Fail("unimplemented-spork-not-halted", "running-node", "a node that does not implement an enforced spork kept running or ended with status %d (enforcement %d, last height %d):\n%s", code, enforcement, lastAlive, tail(out, 600))
	}
	// it must stop exactly when the enforcement momentum is inserted: alive at enforcement-1, never reports enforcement
	if lastAlive != enforcement-1 {
		r.Fail("unimplemented-spork-not-halted", "wrong-height", "node stopped after height %d, enforcement height is %d", lastAlive, enforcement)
	}
	code, out = run("restart")
	if strings.Contains(out, "restart survived") || code != 2 {
		r.Fail("unimplemented-spork-not-halted", "restart", "restart on the halted database ended with status %d:\n%s", code, tail(out, 400))
	}
	r.Probe("halt-in-child-verified")
}

func tail(s string, n int) string {
	if len(s) > n {
		return s[len(s)-n:]
	}
	return s
}
