package checks

import (
	"fmt"
	"math/big"
	"time"

	"github.com/zenon-network/go-zenon/chain/nom"
	"github.com/zenon-network/go-zenon/chain/store"
	"github.com/zenon-network/go-zenon/common"
	"github.com/zenon-network/go-zenon/common/types"
	"github.com/zenon-network/go-zenon/vm/embedded/definition"

	"verif/sim/nomsim"
	"verif/sim/oracle"
	"verif/sim/simnode"
	"verif/sim/simrt"
)

func init() { register("C01", runC01) }

// supplyDeltaFromMomentum derives, from the token contract's receive blocks in
// one momentum, the supply change each of them is entitled to make.
func supplyDeltaFromMomentum(ms store.Momentum, d *nom.DetailedMomentum) (map[types.ZenonTokenStandard]*big.Int, int, error) {
	out := map[types.ZenonTokenStandard]*big.Int{}
	add := func(z types.ZenonTokenStandard, v *big.Int) {
		if out[z] == nil {
			out[z] = new(big.Int)
		}
		out[z].Add(out[z], v)
	}
	n := 0
	for _, b := range d.AccountBlocks {
		if b.BlockType != nom.BlockTypeContractReceive || b.Address != types.TokenContract {
			continue
		}
		if len(b.Data) != 8 || common.BytesToUint64(b.Data) != 1 {
			continue // failed call: no supply change allowed
		}
		send, err := ms.GetAccountBlockByHash(b.FromBlockHash)
		if err != nil || send == nil {
			return nil, 0, fmt.Errorf("token receive %v references unknown send", b.Hash)
		}
		m, err := definition.ABIToken.MethodById(send.Data)
		if err != nil {
			continue
		}
		switch m.Name {
		case definition.MintMethodName:
			p := new(definition.MintParam)
			if err := definition.ABIToken.UnpackMethod(p, m.Name, send.Data); err != nil {
				return nil, 0, err
			}
			add(p.TokenStandard, p.Amount)
			n++
		case definition.BurnMethodName:
			add(send.TokenStandard, new(big.Int).Neg(send.Amount))
			n++
		case definition.IssueMethodName:
			p := new(definition.IssueParam)
			if err := definition.ABIToken.UnpackMethod(p, m.Name, send.Data); err != nil {
				return nil, 0, err
			}
			// the new standard is not derivable without the implementation; the
			// caller matches it against "a token that did not exist before"
			add(types.ZeroTokenStandard, p.TotalSupply)
			n++
		}
	}
	return out, n, nil
}

func poolAccounts(n *simnode.Node) []types.Address {
	accs := oracle.Accounts(n.Mgr.Frontier())
	seen := map[types.Address]bool{}
	for _, a := range accs {
		seen[a] = true
	}
	for _, b := range n.Chain.GetAllUncommittedAccountBlocks() {
		if !seen[b.Address] {
			seen[b.Address] = true
			accs = append(accs, b.Address)
		}
	}
	return accs
}

// runC01Fork: the equation on every node across a partition, a reorganisation of up to 30
// momentums (the adopted chain must satisfy it, whatever was pooled or abandoned) and restarts.
func runC01Fork(r *simrt.Run) {
	t := r.T
	mode := nomsim.SporkMode(t.Choose(3))
	w := nomsim.NewWorld(r, nomsim.MockGenesis(mode))
	w.EnforceReceiverRule(0)
	wl := nomsim.NewWorkload(w, mode)
	wl.Huge = t.Choose(4) == 0
	wl.MaxOps = 2 + t.Choose(5)
	f := nomsim.NewFork(w, wl, t.Choose(6), t.Bool(), t.Bool())
	check := func(stage string) {
		for _, n := range w.Nodes {
			if !n.Up {
				continue
			}
			if _, err := oracle.Conservation(n.Chain.GetFrontierMomentumStore(), n.Mgr.Frontier()); err != nil {
				r.Fail("conservation-frontier", clauseOf(err), "%s on node %s at height %d: %v", stage, n.Name, n.Height(), err)
			}
			if _, err := oracle.ConservationFn(poolAccounts(n), n.Chain.GetFrontierAccountStore); err != nil {
				r.Fail("conservation-pool", clauseOf(err), "%s pool view on node %s: %v", stage, n.Name, err)
			}
			r.Probe("pool-state-checked")
		}
	}
	f.Common(4+t.Choose(20), true)
	check("common prefix")
	f.Split(2+t.Choose(30), true, true)
	check("partitioned")
	w.Net.Heal()
	win, lose, ok := f.Longer()
	if ok && lose.Height()-f.ForkHeight <= 30 {
		for _, n := range w.Nodes {
			if n != win {
				w.Net.SyncFrom(win, n)
			}
		}
		r.Fault("reorg-depth-" + bucket(int(lose.Height()-f.ForkHeight)))
		check("after reorganisation")
	}
	if t.Bool() {
		for _, n := range w.Nodes {
			if t.Bool() {
				r.Fault("restart")
				if err := n.Restart(false); err != nil {
					r.Fail("restart", "open", "%v", err)
				}
			}
		}
	}
	w.Net.Gossip = true
	for i := 0; i < 3+t.Choose(10); i++ {
		t.Span(func() {
			if win.Up {
				wl.G.RefreshTokens(win)
				wl.Ops(win)
			}
			w.Net.Flush()
			w.StepSlot()
			w.Net.Flush()
		})
	}
	check("after continuing")
	acc := 0
	for _, v := range wl.G.Accepted {
		acc += v
	}
	r.Probes["accepted-ops"] += acc
	r.NonTrivial = acc >= 5 && win.Height() >= 10
	r.Finger = win.Frontier().Hash.String()
	r.Sample["scenario"] = "partition-reorg"
	r.Sample["heights"] = []uint64{f.A.Height(), f.B.Height()}
}

func runC01(r *simrt.Run) {
	r.WatchLocks() // a lock of the node that is never released is a violation, not a hang
	t := r.T
	if t.Choose(4) == 3 {
		runC01Fork(r)
		return
	}
	mode := nomsim.SporkMode(t.Choose(3))
	gen := nomsim.MockGenesis(mode)
	if t.Choose(5) == 0 {
		// the caps of ZNN and QSR lie just above the genesis supply: reward mints of the contracts hit them
		gen = nomsim.TightCaps(gen, int64(t.Choose(3))*int64(1+t.Choose(1000))*100000000)
		r.Probe("knob-tight-supply-caps")
	}
	w := nomsim.NewWorld(r, gen)
	w.EnforceReceiverRule(0)
	shortEpoch := t.Choose(3) != 0
	if shortEpoch {
		w.SetEpochDuration(time.Duration(300*(2+t.Choose(3))) * time.Second) // 300 s (== one election tick) is not a supported configuration: points.go derives lastCompletedEpoch = -2
		w.ShortRewardKnobs(int64(10*t.Choose(6)), uint64(1+t.Choose(10)))
	}
	p := w.AddNode("P", nomsim.MockPillars(), false)
	wl := nomsim.NewWorkload(w, mode)
	wl.Huge = t.Choose(4) == 0
	wl.MaxOps = 2 + t.Choose(6)
	slots := 25 + t.Choose(60)
	if r.Tier == "thorough" {
		slots = 60 + t.Choose(240)
	}
	restartAt := -1
	if t.Choose(4) == 0 {
		restartAt = t.Choose(slots)
	}

	frontierCheck := func(where string) *oracle.Supply {
		ms := p.Chain.GetFrontierMomentumStore()
		s, err := oracle.Conservation(ms, p.Mgr.Frontier())
		if err != nil {
			r.Fail("conservation-frontier", clauseOf(err), "%s at height %d: %v", where, p.Height(), err)
		}
		return s
	}
	prev := frontierCheck("genesis")
	prevTokens := map[types.ZenonTokenStandard]*big.Int{}
	for z, ti := range prev.Tokens {
		prevTokens[z] = new(big.Int).Set(ti.TotalSupply)
	}
	supplyChanges, refundsSeen := 0, 0
	slotBody := func(s int) {
		wl.G.RefreshTokens(p)
		wl.Ops(p)
		if t.Choose(3) == 0 {
			// pool-state view
			accs := poolAccounts(p)
			if _, err := oracle.ConservationFn(accs, p.Chain.GetFrontierAccountStore); err != nil {
				r.Fail("conservation-pool", clauseOf(err), "pool view before slot %d: %v", w.Slot, err)
			}
			r.Probe("pool-state-checked")
		}
		if s == restartAt {
			r.Fault("restart")
			r.Logf("restart P")
			if err := p.Restart(false); err != nil {
				r.Fail("restart", "open", "%v", err)
			}
		}
		if t.Choose(12) == 0 {
			w.SkipSlots(int64(1 + t.Choose(40)))
			r.Fault("missed-slots")
		}
		h0 := p.Height()
		w.StepSlot()
		if p.Height() == h0 {
			return
		}
		for h := h0 + 1; h <= p.Height(); h++ {
			d := p.Detailed(h)
			cur := frontierCheck(fmt.Sprintf("after momentum %d", h))
			// supply deltas explained by token-contract receives of this momentum
			want, n, err := supplyDeltaFromMomentum(p.Chain.GetFrontierMomentumStore(), d)
			if err != nil {
				r.Fail("supply-delta", "decode", "%v", err)
			}
			supplyChanges += n
			issued := new(big.Int)
			if want[types.ZeroTokenStandard] != nil {
				issued = want[types.ZeroTokenStandard]
			}
			newTokensTotal := new(big.Int)
			for z, ti := range cur.Tokens {
				old, ok := prevTokens[z]
				if !ok {
					newTokensTotal.Add(newTokensTotal, ti.TotalSupply)
					continue
				}
				delta := new(big.Int).Sub(ti.TotalSupply, old)
				exp := want[z]
				if exp == nil {
					exp = new(big.Int)
				}
				if delta.Cmp(exp) != 0 {
					r.Fail("supply-delta", "unexplained", "momentum %d token %v: supply changed by %v but token-contract receives of this momentum explain %v", h, z, delta, exp)
				}
			}
			if newTokensTotal.Cmp(issued) != 0 {
				r.Fail("supply-delta", "issue", "momentum %d: new tokens appeared with total supply %v but successful issue calls declare %v", h, newTokensTotal, issued)
			}
			for z := range prevTokens {
				if cur.Tokens[z] == nil {
					r.Fail("supply-delta", "token-vanished", "token %v disappeared at momentum %d", z, h)
				}
			}
			prevTokens = map[types.ZenonTokenStandard]*big.Int{}
			for z, ti := range cur.Tokens {
				prevTokens[z] = new(big.Int).Set(ti.TotalSupply)
			}
			for _, b := range d.AccountBlocks {
				if b.BlockType == nom.BlockTypeContractReceive && len(b.Data) == 8 && common.BytesToUint64(b.Data) == 2 {
					refundsSeen++
					if len(b.DescendantBlocks) > 0 {
						r.Probe("refund-with-value")
					}
				}
			}
		}
	}
	for s := 0; s < slots; s++ {
		t.Span(func() { slotBody(s) })
	}
	// drain contract inboxes with empty slots, keep checking
	for i := 0; i < 3; i++ {
		w.StepSlot()
		frontierCheck("drain")
	}
	acc := 0
	for _, v := range wl.G.Accepted {
		acc += v
	}
	r.Probes["accepted-ops"] += acc
	r.Probes["supply-changing-receives"] += supplyChanges
	r.Probes["failed-contract-receives"] += refundsSeen
	r.NonTrivial = acc >= 5 && p.Height() >= 10 && (supplyChanges > 0 || refundsSeen > 0)
	r.Finger = p.Frontier().Hash.String()
	r.Sample["height"] = p.Height()
	r.Sample["spork_mode"] = int(mode)
	r.Sample["accepted_by_method"] = wl.G.Accepted
	r.Sample["tokens"] = len(prevTokens)
}

// clauseOf maps an oracle error to a short discriminator.
func clauseOf(err error) string {
	s := err.Error()
	switch {
	case contains(s, "negative balance"):
		return "negative-balance"
	case contains(s, "exceeds max supply"):
		return "max-supply"
	case contains(s, "!= recorded total supply"):
		return "sum-mismatch"
	case contains(s, "not recorded by the token contract"):
		return "unrecorded-token"
	case contains(s, "received") && contains(s, "times"):
		return "double-receive"
	}
	return "other"
}

func contains(s, sub string) bool {
	return len(sub) <= len(s) && (func() bool {
		for i := 0; i+len(sub) <= len(s); i++ {
			if s[i:i+len(sub)] == sub {
				return true
			}
		}
		return false
	})()
}
