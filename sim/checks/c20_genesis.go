package checks

// C20 — genesis: same config, same chain; inconsistent config or database refused.
//
// (i)   determinism: genesis.NewGenesis over a generated, consistent configuration is built
//       repeatedly, under tape-chosen permutations of every list that carries no order, and —
//       on a sample — in a fresh child process; hash, content, changes and the full initial
//       state of a node opened on it must be identical.           (input sampling)
// (ii)  refusal: single-entry perturbations; whenever one breaks a sum the statement names
//       (balances vs. declared supplies, pillar / plasma / swap contract holdings) CheckGenesis
//       and ReadGenesisConfigFromFile must refuse; stored-byte faults of the genesis file must
//       never yield a genesis the file does not describe.          (input sampling + file at rest)
// (iii) restart history: a database created under config A is reopened under B (B = A, a
//       permutation of A, or A with one entry changed): chain.Init must fail iff the genesis
//       hashes differ, a refused start leaves the database untouched and a later start under A
//       finds the same frontier.                                    (simulated)

import (
	"bytes"
	"crypto/sha256"
	"encoding/hex"
	"encoding/json"
	"fmt"
	"math/big"
	"os"
	"os/exec"
	"path/filepath"
	"sort"
	"strings"
	"sync"

	"github.com/syndtr/goleveldb/leveldb"
	"github.com/syndtr/goleveldb/leveldb/opt"

	"github.com/zenon-network/go-zenon/chain/genesis"
	"github.com/zenon-network/go-zenon/common/types"
	"github.com/zenon-network/go-zenon/vm/embedded/definition"
	"github.com/zenon-network/go-zenon/wallet"

	"verif/sim/nomsim"
	"verif/sim/oracle"
	"verif/sim/simnode"
	"verif/sim/simrt"
)

func init() { register("C20", runC20) }

// ---------------------------------------------------------------------------
// keys
// ---------------------------------------------------------------------------

var (
	c20KeyMu   sync.Mutex
	c20KeyPool []*wallet.KeyPair
)

// c20Key returns the i-th producer key of a fixed, deterministic family.
func c20Key(i int) *wallet.KeyPair {
	c20KeyMu.Lock()
	defer c20KeyMu.Unlock()
	for len(c20KeyPool) <= i {
		kp, err := wallet.DeriveWithIndex(uint32(len(c20KeyPool)), []byte("verif-c20-pillar-keys-0123456789"))
		if err != nil {
			panic(err)
		}
		c20KeyPool = append(c20KeyPool, kp)
	}
	return c20KeyPool[i]
}

// ---------------------------------------------------------------------------
// generator of consistent configurations
// ---------------------------------------------------------------------------

type c20Case struct {
	cfg  *genesis.GenesisConfig
	keys []*wallet.KeyPair
}

func c20Amount(r *simrt.Run) *big.Int {
	t := r.T
	switch t.Choose(6) {
	case 0:
		return big.NewInt(int64(1+t.Choose(1000)) * 1e8)
	case 1:
		return big.NewInt(int64(1 + t.Choose(1000)))
	case 2:
		return big.NewInt(int64(t.Uint32()) * int64(1+t.Choose(100000)))
	case 3:
		return big.NewInt(1)
	case 4:
		return new(big.Int).Lsh(big.NewInt(1), uint(t.Choose(50)))
	default:
		return big.NewInt(int64(t.Uint32()))
	}
}

// c20Addr draws a user address that cannot collide with c20UserAddr's (no unbounded
// retry loops: a minimised tape answers every draw with 0).
func c20Addr(r *simrt.Run) types.Address {
	var a types.Address
	copy(a[1:], r.T.Bytes(19))
	a[1], a[2] = 0xff, 0xfe
	return a
}

func c20UserAddr(r *simrt.Run, i int) types.Address {
	var a types.Address
	copy(a[1:], r.T.Bytes(19))
	a[1], a[2] = byte(i), byte(i>>8)
	return a
}

func c20Generate(r *simrt.Run) *c20Case {
	t := r.T
	ts := int64(simrt.GenesisUnix)
	cfg := &genesis.GenesisConfig{
		ChainIdentifier:     []uint64{100, 1, 3, 73404, 1 << 40}[t.Choose(5)],
		ExtraData:           []string{"verif generated genesis", "", "a", strings.Repeat("x", 300), "\u00e9\u4e16\u754c"}[t.Choose(5)],
		GenesisTimestampSec: ts,
		PillarConfig:        &genesis.PillarContractConfig{},
		TokenConfig:         &genesis.TokenContractConfig{},
		PlasmaConfig:        &genesis.PlasmaContractConfig{},
		SwapConfig:          &genesis.SwapContractConfig{},
		GenesisBlocks:       &genesis.GenesisBlocksConfig{},
	}
	c := &c20Case{cfg: cfg}
	// Variable-length lists are drawn with t.Loop (one span per entry) so that the minimiser
	// can delete entries; a zero tape gives the smallest configuration.
	large := t.Choose(6) == 5
	pick := func(small, big [2]int) (int, int) {
		if large {
			return big[0], big[1]
		}
		return small[0], small[1]
	}
	// user accounts (at least two)
	users := []types.Address{c20UserAddr(r, 0), c20UserAddr(r, 1)}
	un, ud := pick([2]int{4, 5}, [2]int{29, 30})
	t.Loop(un, ud, 58, func() { users = append(users, c20UserAddr(r, len(users))) })
	spork := users[t.Choose(len(users))]
	cfg.SporkAddress = &spork
	// tokens
	zts := []types.ZenonTokenStandard{types.ZnnTokenStandard, types.QsrTokenStandard}
	t.Loop(1, 3, 3, func() {
		var z types.ZenonTokenStandard
		copy(z[:], t.Bytes(10))
		z[0], z[1] = 0xee, byte(len(zts)) // distinct from ZNN/QSR and from each other
		zts = append(zts, z)
	})
	balances := map[types.Address]map[types.ZenonTokenStandard]*big.Int{}
	order := []types.Address{}
	give := func(a types.Address, z types.ZenonTokenStandard, v *big.Int) {
		if balances[a] == nil {
			balances[a] = map[types.ZenonTokenStandard]*big.Int{}
			order = append(order, a)
		}
		if balances[a][z] == nil {
			balances[a][z] = new(big.Int)
		}
		balances[a][z].Add(balances[a][z], v)
	}
	// pillars (at least one)
	pillarSum := new(big.Int)
	backers := map[types.Address]bool{}
	onePillar := func() {
		i := len(cfg.PillarConfig.Pillars)
		kp := c20Key(i)
		c.keys = append(c.keys, kp)
		amt := big.NewInt(15000 * 1e8)
		if t.Choose(3) == 2 {
			amt = c20Amount(r)
		}
		stake := kp.Address
		if t.Choose(3) == 2 {
			stake = users[t.Choose(len(users))]
		}
		p := &definition.PillarInfo{
			Name:                         fmt.Sprintf("pillar-%d-%x", i, t.Bytes(1+t.Choose(6))),
			BlockProducingAddress:        kp.Address,
			StakeAddress:                 stake,
			RewardWithdrawAddress:        stake,
			Amount:                       amt,
			RegistrationTime:             ts,
			GiveBlockRewardPercentage:    uint8(t.Choose(101)),
			GiveDelegateRewardPercentage: uint8(t.Choose(101)),
			PillarType:                   uint8(1 + t.Choose(2)),
		}
		if i > 0 && t.Choose(5) == 0 {
			// a pillar that was revoked before genesis: listed, holds no collateral any more
			p.RevokeTime = ts + int64(1+t.Choose(100000))
			p.Amount = new(big.Int)
			amt = new(big.Int)
			r.Probe("revoked-pillar-in-config")
		}
		cfg.PillarConfig.Pillars = append(cfg.PillarConfig.Pillars, p)
		pillarSum.Add(pillarSum, amt)
		// the pillar's own weight: a delegating, funded producer address
		if t.Choose(5) != 4 {
			give(kp.Address, types.ZnnTokenStandard, c20Amount(r))
			if !backers[kp.Address] {
				backers[kp.Address] = true
				cfg.PillarConfig.Delegations = append(cfg.PillarConfig.Delegations, &definition.DelegationInfo{Backer: kp.Address, Name: p.Name})
			}
		}
	}
	t.Span(onePillar)
	pn, pd := pick([2]int{2, 3}, [2]int{19, 20})
	t.Loop(pn, pd, 39, onePillar)
	nP := len(cfg.PillarConfig.Pillars)
	give(types.PillarContract, types.ZnnTokenStandard, pillarSum)
	t.Loop(1, 3, 2, func() {
		i := len(cfg.PillarConfig.LegacyEntries)
		cfg.PillarConfig.LegacyEntries = append(cfg.PillarConfig.LegacyEntries,
			&definition.LegacyPillarEntry{KeyIdHash: types.NewHash(append([]byte{byte(i), 'l'}, t.Bytes(8)...)), PillarCount: uint8(1 + t.Choose(5))})
	})
	// user delegations and balances
	for _, u := range users {
		t.Span(func() {
			if t.Choose(3) != 0 && !backers[u] {
				backers[u] = true
				cfg.PillarConfig.Delegations = append(cfg.PillarConfig.Delegations,
					&definition.DelegationInfo{Backer: u, Name: cfg.PillarConfig.Pillars[t.Choose(nP)].Name})
			}
			for _, z := range zts {
				if t.Choose(3) != 0 {
					give(u, z, c20Amount(r))
				}
			}
		})
	}
	for _, z := range zts { // every declared token is held by somebody
		held := false
		for _, m := range balances {
			held = held || m[z] != nil
		}
		if !held {
			give(users[0], z, c20Amount(r))
		}
	}
	// fusions
	fusionSum := new(big.Int)
	fn, fd := pick([2]int{2, 3}, [2]int{14, 15})
	t.Loop(fn, fd, 25, func() {
		i := len(cfg.PlasmaConfig.Fusions)
		f := &definition.FusionInfo{
			Owner:       users[t.Choose(len(users))],
			Id:          types.NewHash(append([]byte{byte(i)}, t.Bytes(4)...)),
			Amount:      c20Amount(r),
			Beneficiary: users[t.Choose(len(users))],
		}
		if t.Choose(3) == 0 {
			f.Beneficiary = c.keys[t.Choose(len(c.keys))].Address
		}
		if t.Choose(4) == 3 {
			f.ExpirationHeight = uint64(t.Choose(1000))
		}
		cfg.PlasmaConfig.Fusions = append(cfg.PlasmaConfig.Fusions, f)
		fusionSum.Add(fusionSum, f.Amount)
	})
	if len(cfg.PlasmaConfig.Fusions) > 0 || t.Choose(3) == 2 {
		give(types.PlasmaContract, types.QsrTokenStandard, fusionSum)
	}
	// swap entries (assets are minted on retrieval: the swap contract holds nothing)
	t.Loop(1, 2, 4, func() {
		i := len(cfg.SwapConfig.Entries)
		cfg.SwapConfig.Entries = append(cfg.SwapConfig.Entries,
			&definition.SwapAssets{KeyIdHash: types.NewHash(append([]byte{byte(i), 's'}, t.Bytes(4)...)), Znn: c20Amount(r), Qsr: c20Amount(r)})
	})
	if t.Choose(6) == 5 {
		give(types.SwapContract, types.ZnnTokenStandard, new(big.Int))
		give(types.SwapContract, types.QsrTokenStandard, new(big.Int))
	}
	// sporks
	t.Span(func() {
		switch t.Choose(4) {
		case 1:
			cfg.SporkConfig = &genesis.SporkConfig{}
		case 2, 3:
			cfg.SporkConfig = &genesis.SporkConfig{}
			for _, s := range nomsim.ImplementedSporks {
				if t.Choose(4) == 3 {
					continue
				}
				sp := &definition.Spork{Id: s.S.SporkId, Name: "spork-" + s.Name, Description: "declared in genesis"}
				if t.Bool() {
					sp.Activated, sp.EnforcementHeight = true, uint64(1+t.Choose(3))
				}
				cfg.SporkConfig.Sporks = append(cfg.SporkConfig.Sporks, sp)
			}
			if t.Choose(3) == 2 { // an unknown spork, declared but never activated
				cfg.SporkConfig.Sporks = append(cfg.SporkConfig.Sporks, &definition.Spork{Id: types.NewHash(t.Bytes(6)), Name: "future", Description: "not active"})
			}
		}
	})
	// blocks and token declarations from the balance sheet
	totals := map[types.ZenonTokenStandard]*big.Int{}
	for _, a := range order {
		b := &genesis.GenesisBlockConfig{Address: a, BalanceList: map[types.ZenonTokenStandard]*big.Int{}}
		for z, v := range balances[a] {
			b.BalanceList[z] = new(big.Int).Set(v)
			if totals[z] == nil {
				totals[z] = new(big.Int)
			}
			totals[z].Add(totals[z], v)
		}
		if len(b.BalanceList) >= 2 && t.Choose(3) == 0 {
			// the same address in several entries, one per token (the list carries no order and the
			// balance check sums every entry)
			zs := make([]types.ZenonTokenStandard, 0, len(b.BalanceList))
			for z := range b.BalanceList {
				zs = append(zs, z)
			}
			sort.Slice(zs, func(i, j int) bool { return bytes.Compare(zs[i][:], zs[j][:]) < 0 })
			for _, z := range zs {
				cfg.GenesisBlocks.Blocks = append(cfg.GenesisBlocks.Blocks, &genesis.GenesisBlockConfig{Address: a,
					BalanceList: map[types.ZenonTokenStandard]*big.Int{z: b.BalanceList[z]}})
			}
			r.Probe("address-split-over-entries")
			continue
		}
		cfg.GenesisBlocks.Blocks = append(cfg.GenesisBlocks.Blocks, b)
	}
	maxSupply := new(big.Int).SetUint64(4611686018427387903)
	for i, z := range zts {
		ti := &definition.TokenInfo{TokenStandard: z, TotalSupply: new(big.Int).Set(totals[z]), MaxSupply: new(big.Int).Set(maxSupply), Decimals: 8,
			IsMintable: true, IsBurnable: true, IsUtility: true, TokenDomain: "zenon.network"}
		switch i {
		case 0:
			ti.Owner, ti.TokenName, ti.TokenSymbol = types.PillarContract, "Zenon Coin", "ZNN"
		case 1:
			ti.Owner, ti.TokenName, ti.TokenSymbol = types.StakeContract, "QuasarCoin", "QSR"
		default:
			ti.Owner, ti.TokenName, ti.TokenSymbol = users[t.Choose(len(users))], fmt.Sprintf("Token %d", i), fmt.Sprintf("TK%d", i)
			ti.IsMintable, ti.IsBurnable, ti.IsUtility = t.Bool(), t.Bool(), false
			ti.Decimals = uint8(t.Choose(19))
			if !ti.IsMintable {
				ti.MaxSupply = new(big.Int).Set(ti.TotalSupply)
			}
		}
		if ti.TotalSupply.Cmp(ti.MaxSupply) > 0 {
			ti.MaxSupply = new(big.Int).Set(ti.TotalSupply)
		}
		cfg.TokenConfig.Tokens = append(cfg.TokenConfig.Tokens, ti)
	}
	return c
}

// ---------------------------------------------------------------------------
// deep copy, permutation
// ---------------------------------------------------------------------------

func c20Big(v *big.Int) *big.Int {
	if v == nil {
		return nil
	}
	return new(big.Int).Set(v)
}

func c20Clone(a *genesis.GenesisConfig) *genesis.GenesisConfig {
	b := &genesis.GenesisConfig{ChainIdentifier: a.ChainIdentifier, ExtraData: a.ExtraData, GenesisTimestampSec: a.GenesisTimestampSec}
	if a.SporkAddress != nil {
		s := *a.SporkAddress
		b.SporkAddress = &s
	}
	if a.PillarConfig != nil {
		b.PillarConfig = &genesis.PillarContractConfig{}
		for _, p := range a.PillarConfig.Pillars {
			q := *p
			q.Amount = c20Big(p.Amount)
			b.PillarConfig.Pillars = append(b.PillarConfig.Pillars, &q)
		}
		for _, d := range a.PillarConfig.Delegations {
			q := *d
			b.PillarConfig.Delegations = append(b.PillarConfig.Delegations, &q)
		}
		for _, d := range a.PillarConfig.LegacyEntries {
			q := *d
			b.PillarConfig.LegacyEntries = append(b.PillarConfig.LegacyEntries, &q)
		}
	}
	if a.TokenConfig != nil {
		b.TokenConfig = &genesis.TokenContractConfig{}
		for _, p := range a.TokenConfig.Tokens {
			q := *p
			q.TotalSupply, q.MaxSupply = c20Big(p.TotalSupply), c20Big(p.MaxSupply)
			b.TokenConfig.Tokens = append(b.TokenConfig.Tokens, &q)
		}
	}
	if a.PlasmaConfig != nil {
		b.PlasmaConfig = &genesis.PlasmaContractConfig{}
		for _, p := range a.PlasmaConfig.Fusions {
			q := *p
			q.Amount = c20Big(p.Amount)
			b.PlasmaConfig.Fusions = append(b.PlasmaConfig.Fusions, &q)
		}
	}
	if a.SwapConfig != nil {
		b.SwapConfig = &genesis.SwapContractConfig{}
		for _, p := range a.SwapConfig.Entries {
			q := *p
			q.Znn, q.Qsr = c20Big(p.Znn), c20Big(p.Qsr)
			b.SwapConfig.Entries = append(b.SwapConfig.Entries, &q)
		}
	}
	if a.SporkConfig != nil {
		b.SporkConfig = &genesis.SporkConfig{}
		for _, p := range a.SporkConfig.Sporks {
			q := *p
			b.SporkConfig.Sporks = append(b.SporkConfig.Sporks, &q)
		}
	}
	if a.GenesisBlocks != nil {
		b.GenesisBlocks = &genesis.GenesisBlocksConfig{}
		for _, p := range a.GenesisBlocks.Blocks {
			q := &genesis.GenesisBlockConfig{Address: p.Address, BalanceList: map[types.ZenonTokenStandard]*big.Int{}}
			for z, v := range p.BalanceList {
				q.BalanceList[z] = c20Big(v)
			}
			b.GenesisBlocks.Blocks = append(b.GenesisBlocks.Blocks, q)
		}
	}
	return b
}

func c20Shuffle[T any](r *simrt.Run, s []T) {
	for i := len(s) - 1; i > 0; i-- {
		j := r.T.Choose(i + 1)
		s[i], s[j] = s[j], s[i]
	}
}

var c20Lists = []string{"blocks", "tokens", "pillars", "delegations", "legacy", "fusions", "swap", "sporks"}

// c20Permute returns a copy of cfg with the named list (or all lists) reordered.
func c20Permute(r *simrt.Run, cfg *genesis.GenesisConfig, which string) *genesis.GenesisConfig {
	b := c20Clone(cfg)
	do := func(n string) bool { return which == "all" || which == n }
	if do("blocks") {
		c20Shuffle(r, b.GenesisBlocks.Blocks)
	}
	if do("tokens") {
		c20Shuffle(r, b.TokenConfig.Tokens)
	}
	if do("pillars") {
		c20Shuffle(r, b.PillarConfig.Pillars)
	}
	if do("delegations") {
		c20Shuffle(r, b.PillarConfig.Delegations)
	}
	if do("legacy") {
		c20Shuffle(r, b.PillarConfig.LegacyEntries)
	}
	if do("fusions") {
		c20Shuffle(r, b.PlasmaConfig.Fusions)
	}
	if do("swap") {
		c20Shuffle(r, b.SwapConfig.Entries)
	}
	if do("sporks") && b.SporkConfig != nil {
		c20Shuffle(r, b.SporkConfig.Sporks)
	}
	return b
}

// ---------------------------------------------------------------------------
// building and comparing
// ---------------------------------------------------------------------------

type c20Built struct {
	Hash, Changes, Momentum, Patch string
}

func (b *c20Built) String() string {
	return fmt.Sprintf("hash=%s changesHash=%s momentum=%s patch=%s", b.Hash, b.Changes, b.Momentum, b.Patch)
}

func c20Sha(b []byte) string { h := sha256.Sum256(b); return hex.EncodeToString(h[:10]) }

// c20Build runs genesis.NewGenesis and fingerprints everything it returns.
func c20Build(cfg *genesis.GenesisConfig) (out *c20Built, err error) {
	defer func() {
		if p := recover(); p != nil {
			err = fmt.Errorf("panic: %v", p)
		}
	}()
	g := genesis.NewGenesis(cfg)
	tx := g.GetGenesisTransaction()
	m := g.GetGenesisMomentum()
	ser, serr := m.Serialize()
	if serr != nil {
		return nil, serr
	}
	return &c20Built{Hash: m.Hash.String(), Changes: m.ChangesHash.String(), Momentum: c20Sha(ser), Patch: c20Sha(tx.Changes.Dump())}, nil
}

// c20OpenState opens a fresh node on cfg and dumps the whole frontier state.
func c20OpenState(r *simrt.Run, cfg *genesis.GenesisConfig, name string) (dump []oracle.KV, conserved error, err error) {
	defer func() {
		if p := recover(); p != nil {
			err = fmt.Errorf("panic: %v", p)
		}
	}()
	n := simnode.New(r, name, simnode.Config{Genesis: cfg})
	if e := n.Open(); e != nil {
		return nil, nil, e
	}
	dump = oracle.Dump(n.Mgr.Frontier())
	_, conserved = oracle.Conservation(n.Chain.GetFrontierMomentumStore(), n.Mgr.Frontier())
	n.Stop()
	return dump, conserved, nil
}

// ---------------------------------------------------------------------------
// the consistency rule of the statement, evaluated on the configuration itself
// ---------------------------------------------------------------------------

// c20Consistent evaluates "balances add up to the declared token supplies and contract
// holdings". ambiguous is set when an address is listed more than once (the statement does not
// say how such entries combine).
func c20Consistent(cfg *genesis.GenesisConfig) (ok bool, why string, ambiguous bool) {
	ok, why, _, ambiguous = c20ConsistentClass(cfg)
	return
}

// c20ConsistentClass also names the broken sum (stable discriminator of a violation).
func c20ConsistentClass(cfg *genesis.GenesisConfig) (ok bool, why string, class string, ambiguous bool) {
	sum := map[types.ZenonTokenStandard]*big.Int{}
	per := map[types.Address]map[types.ZenonTokenStandard]*big.Int{}
	for _, b := range cfg.GenesisBlocks.Blocks {
		if per[b.Address] != nil {
			ambiguous = true
		} else {
			per[b.Address] = map[types.ZenonTokenStandard]*big.Int{}
		}
		for z, v := range b.BalanceList {
			if sum[z] == nil {
				sum[z] = new(big.Int)
			}
			sum[z].Add(sum[z], v)
			if per[b.Address][z] == nil {
				per[b.Address][z] = new(big.Int)
			}
			per[b.Address][z].Add(per[b.Address][z], v)
		}
	}
	declared := map[types.ZenonTokenStandard]bool{}
	for _, tk := range cfg.TokenConfig.Tokens {
		declared[tk.TokenStandard] = true
		s := sum[tk.TokenStandard]
		if s == nil {
			s = new(big.Int)
		}
		if s.Cmp(tk.TotalSupply) != 0 {
			return false, fmt.Sprintf("token %s: balances add up to %v, declared supply %v", tk.TokenSymbol, s, tk.TotalSupply), "supply-sum", ambiguous
		}
	}
	var zs []types.ZenonTokenStandard
	for z := range sum {
		zs = append(zs, z)
	}
	sort.Slice(zs, func(i, j int) bool { return bytes.Compare(zs[i][:], zs[j][:]) < 0 })
	for _, z := range zs {
		if !declared[z] && sum[z].Sign() != 0 {
			return false, fmt.Sprintf("token %v is held (%v) but not declared", z, sum[z]), "token-declaration", ambiguous
		}
	}
	bal := func(a types.Address, z types.ZenonTokenStandard) *big.Int {
		if per[a] == nil || per[a][z] == nil {
			return new(big.Int)
		}
		return per[a][z]
	}
	// a contract whose holding is declared by its entries but which has no balance entry at all
	holding := func(a types.Address, otherwise string) string {
		if per[a] == nil {
			return "contract-holding-unbacked"
		}
		return otherwise
	}
	ps := new(big.Int)
	for _, p := range cfg.PillarConfig.Pillars {
		ps.Add(ps, p.Amount)
	}
	if bal(types.PillarContract, types.ZnnTokenStandard).Cmp(ps) != 0 {
		return false, fmt.Sprintf("pillar contract holds %v ZNN, pillar stakes add up to %v", bal(types.PillarContract, types.ZnnTokenStandard), ps), holding(types.PillarContract, "pillar-sum"), ambiguous
	}
	fs := new(big.Int)
	for _, f := range cfg.PlasmaConfig.Fusions {
		fs.Add(fs, f.Amount)
	}
	if bal(types.PlasmaContract, types.QsrTokenStandard).Cmp(fs) != 0 {
		return false, fmt.Sprintf("plasma contract holds %v QSR, fusions add up to %v", bal(types.PlasmaContract, types.QsrTokenStandard), fs), holding(types.PlasmaContract, "fusion-sum"), ambiguous
	}
	if bal(types.SwapContract, types.ZnnTokenStandard).Sign() != 0 || bal(types.SwapContract, types.QsrTokenStandard).Sign() != 0 {
		return false, "swap contract holds funds although swap assets are minted on retrieval", "swap-holds-funds", ambiguous
	}
	return true, "", "", ambiguous
}

func c20Check(cfg *genesis.GenesisConfig) (err error, panicked bool) {
	defer func() {
		if p := recover(); p != nil {
			err, panicked = fmt.Errorf("panic: %v", p), true
		}
	}()
	return genesis.CheckGenesis(cfg), false
}

// ---------------------------------------------------------------------------
// perturbations
// ---------------------------------------------------------------------------

var c20Perturbations = []string{
	"balance+-1", "supply+-1", "pillar-amount", "fusion-amount", "block-removed", "block-duplicated", "pillar-removed",
	"pillar-duplicated", "fusion-removed", "fusion-duplicated", "token-removed", "token-added", "swap-changed", "swap-removed",
	"block-readdressed-fresh", "contract-block-readdressed", "block-readdressed-onto-existing", "amount-moved",
	"amount-moved-negative", "delegation-changed", "spork-toggled", "extra-data", "chain-id", "spork-address", "timestamp",
	"token-property",
}

func c20PlusMinus(r *simrt.Run, v *big.Int) *big.Int {
	d := big.NewInt(1)
	if r.T.Choose(3) == 2 {
		d = c20Amount(r)
	}
	if r.T.Bool() && v.Cmp(d) >= 0 {
		return new(big.Int).Sub(v, d)
	}
	return new(big.Int).Add(v, d)
}

// c20Perturb applies one single-entry change; ok=false when the kind does not apply.
func c20Perturb(r *simrt.Run, a *genesis.GenesisConfig, kind string) (b *genesis.GenesisConfig, detail string, ok bool) {
	t := r.T
	b = c20Clone(a)
	blocks := b.GenesisBlocks.Blocks
	pickBlock := func(contract int) int { // contract: 0 any, 1 user only, 2 pillar/plasma contract with funds
		var idx []int
		for i, bl := range blocks {
			isC := bl.Address == types.PillarContract || bl.Address == types.PlasmaContract
			nz := false
			for _, v := range bl.BalanceList {
				nz = nz || v.Sign() != 0
			}
			if !nz {
				continue
			}
			if contract == 0 || (contract == 1 && !types.IsEmbeddedAddress(bl.Address)) || (contract == 2 && isC) {
				idx = append(idx, i)
			}
		}
		if len(idx) == 0 {
			return -1
		}
		return idx[t.Choose(len(idx))]
	}
	pickZts := func(bl *genesis.GenesisBlockConfig) (types.ZenonTokenStandard, bool) {
		var zs []types.ZenonTokenStandard
		for z, v := range bl.BalanceList {
			if v.Sign() != 0 {
				zs = append(zs, z)
			}
		}
		if len(zs) == 0 {
			return types.ZeroTokenStandard, false
		}
		sort.Slice(zs, func(i, j int) bool { return bytes.Compare(zs[i][:], zs[j][:]) < 0 })
		return zs[t.Choose(len(zs))], true
	}
	switch kind {
	case "balance+-1":
		i := pickBlock(0)
		if i < 0 {
			return nil, "", false
		}
		z, _ := pickZts(blocks[i])
		old := blocks[i].BalanceList[z]
		blocks[i].BalanceList[z] = c20PlusMinus(r, old)
		return b, fmt.Sprintf("block %v token %v: %v -> %v", blocks[i].Address, z, old, blocks[i].BalanceList[z]), true
	case "supply+-1":
		tk := b.TokenConfig.Tokens[t.Choose(len(b.TokenConfig.Tokens))]
		old := tk.TotalSupply
		tk.TotalSupply = c20PlusMinus(r, old)
		if tk.MaxSupply.Cmp(tk.TotalSupply) < 0 {
			tk.MaxSupply = new(big.Int).Set(tk.TotalSupply)
		}
		return b, fmt.Sprintf("token %s supply %v -> %v", tk.TokenSymbol, old, tk.TotalSupply), true
	case "pillar-amount":
		p := b.PillarConfig.Pillars[t.Choose(len(b.PillarConfig.Pillars))]
		old := p.Amount
		p.Amount = c20PlusMinus(r, old)
		return b, fmt.Sprintf("pillar %s amount %v -> %v", p.Name, old, p.Amount), true
	case "fusion-amount":
		if len(b.PlasmaConfig.Fusions) == 0 {
			return nil, "", false
		}
		f := b.PlasmaConfig.Fusions[t.Choose(len(b.PlasmaConfig.Fusions))]
		old := f.Amount
		f.Amount = c20PlusMinus(r, old)
		return b, fmt.Sprintf("fusion %v amount %v -> %v", f.Id, old, f.Amount), true
	case "block-removed":
		i := pickBlock(0)
		if i < 0 {
			return nil, "", false
		}
		detail = fmt.Sprintf("block of %v removed", blocks[i].Address)
		b.GenesisBlocks.Blocks = append(blocks[:i:i], blocks[i+1:]...)
		return b, detail, true
	case "block-duplicated":
		i := pickBlock(0)
		if i < 0 {
			return nil, "", false
		}
		cp := &genesis.GenesisBlockConfig{Address: blocks[i].Address, BalanceList: map[types.ZenonTokenStandard]*big.Int{}}
		for z, v := range blocks[i].BalanceList {
			cp.BalanceList[z] = c20Big(v)
		}
		b.GenesisBlocks.Blocks = append(blocks, cp)
		return b, fmt.Sprintf("block of %v listed twice", cp.Address), true
	case "pillar-removed", "pillar-duplicated":
		ps := b.PillarConfig.Pillars
		i := t.Choose(len(ps))
		if ps[i].Amount.Sign() == 0 {
			return nil, "", false
		}
		if kind == "pillar-removed" {
			detail = "pillar " + ps[i].Name + " removed"
			b.PillarConfig.Pillars = append(ps[:i:i], ps[i+1:]...)
		} else {
			q := *ps[i]
			q.Amount = c20Big(q.Amount)
			b.PillarConfig.Pillars = append(ps, &q)
			detail = "pillar " + q.Name + " listed twice"
		}
		return b, detail, true
	case "fusion-removed", "fusion-duplicated":
		fs := b.PlasmaConfig.Fusions
		if len(fs) == 0 {
			return nil, "", false
		}
		i := t.Choose(len(fs))
		if fs[i].Amount.Sign() == 0 {
			return nil, "", false
		}
		if kind == "fusion-removed" {
			detail = fmt.Sprintf("fusion %v removed", fs[i].Id)
			b.PlasmaConfig.Fusions = append(fs[:i:i], fs[i+1:]...)
		} else {
			q := *fs[i]
			q.Amount = c20Big(q.Amount)
			b.PlasmaConfig.Fusions = append(fs, &q)
			detail = fmt.Sprintf("fusion %v listed twice", q.Id)
		}
		return b, detail, true
	case "token-removed":
		ts := b.TokenConfig.Tokens
		i := t.Choose(len(ts))
		detail = "token " + ts[i].TokenSymbol + " no longer declared"
		b.TokenConfig.Tokens = append(ts[:i:i], ts[i+1:]...)
		return b, detail, true
	case "token-added":
		var z types.ZenonTokenStandard
		copy(z[:], t.Bytes(10))
		z[0], z[1] = 0xee, 0xff
		b.TokenConfig.Tokens = append(b.TokenConfig.Tokens, &definition.TokenInfo{TokenStandard: z, TokenName: "Ghost", TokenSymbol: "GHOST", TokenDomain: "zenon.network",
			TotalSupply: c20Amount(r), MaxSupply: new(big.Int).SetUint64(4611686018427387903), Decimals: 8, Owner: *b.SporkAddress})
		return b, "token GHOST declared with a supply nobody holds", true
	case "swap-changed", "swap-removed":
		es := b.SwapConfig.Entries
		if len(es) == 0 {
			return nil, "", false
		}
		i := t.Choose(len(es))
		if kind == "swap-removed" {
			b.SwapConfig.Entries = append(es[:i:i], es[i+1:]...)
			return b, "swap entry removed", true
		}
		es[i].Znn = c20PlusMinus(r, es[i].Znn)
		return b, "swap entry ZNN changed", true
	case "block-readdressed-fresh":
		i := pickBlock(1)
		if i < 0 {
			return nil, "", false
		}
		old := blocks[i].Address
		blocks[i].Address = c20Addr(r)
		return b, fmt.Sprintf("block of %v now belongs to fresh address %v", old, blocks[i].Address), true
	case "contract-block-readdressed":
		i := pickBlock(2)
		if i < 0 {
			return nil, "", false
		}
		old := blocks[i].Address
		blocks[i].Address = c20Addr(r)
		return b, fmt.Sprintf("balance entry of contract %v now names %v", old, blocks[i].Address), true
	case "block-readdressed-onto-existing":
		i, j := pickBlock(1), pickBlock(1)
		if i < 0 || i == j {
			return nil, "", false
		}
		old := blocks[i].Address
		blocks[i].Address = blocks[j].Address
		return b, fmt.Sprintf("block of %v now names %v, which has a block already", old, blocks[j].Address), true
	case "amount-moved", "amount-moved-negative":
		i, j := pickBlock(1), pickBlock(1)
		if i < 0 || i == j {
			return nil, "", false
		}
		z, _ := pickZts(blocks[i])
		d := big.NewInt(1)
		if kind == "amount-moved-negative" {
			d = new(big.Int).Add(blocks[i].BalanceList[z], big.NewInt(int64(1+t.Choose(1000))))
		}
		blocks[i].BalanceList[z] = new(big.Int).Sub(blocks[i].BalanceList[z], d)
		if blocks[j].BalanceList[z] == nil {
			blocks[j].BalanceList[z] = new(big.Int)
		}
		blocks[j].BalanceList[z] = new(big.Int).Add(blocks[j].BalanceList[z], d)
		return b, fmt.Sprintf("%v of %v moved from %v to %v", d, z, blocks[i].Address, blocks[j].Address), true
	case "delegation-changed":
		ds := b.PillarConfig.Delegations
		if len(ds) == 0 {
			return nil, "", false
		}
		i := t.Choose(len(ds))
		if t.Bool() {
			b.PillarConfig.Delegations = append(ds[:i:i], ds[i+1:]...)
			return b, "delegation removed", true
		}
		ds[i].Name += "x"
		return b, "delegation renamed", true
	case "spork-toggled":
		if b.SporkConfig == nil {
			b.SporkConfig = &genesis.SporkConfig{}
			return b, "empty spork config added", true
		}
		if len(b.SporkConfig.Sporks) == 0 {
			b.SporkConfig = nil
			return b, "empty spork config removed", true
		}
		s := b.SporkConfig.Sporks[t.Choose(len(b.SporkConfig.Sporks))]
		if types.ImplementedSporksMap[s.Id] {
			s.Activated = !s.Activated
			s.EnforcementHeight = 0
			if s.Activated {
				s.EnforcementHeight = 1
			}
		} else {
			s.Name += "x"
		}
		return b, "spork " + s.Name + " changed", true
	case "extra-data":
		b.ExtraData += "!"
		return b, "extra data changed", true
	case "chain-id":
		b.ChainIdentifier++
		return b, "chain identifier changed", true
	case "spork-address":
		x := c20Addr(r)
		b.SporkAddress = &x
		return b, "spork address changed", true
	case "timestamp":
		b.GenesisTimestampSec -= int64(1 + t.Choose(100))
		return b, "genesis timestamp changed", true
	case "token-property":
		tk := b.TokenConfig.Tokens[t.Choose(len(b.TokenConfig.Tokens))]
		tk.TokenName += "x"
		return b, "token name changed", true
	}
	return nil, "", false
}

// ---------------------------------------------------------------------------
// file path
// ---------------------------------------------------------------------------

func c20ReadFile(path string) (hash string, isNil bool, err error) {
	defer func() {
		if p := recover(); p != nil {
			err = fmt.Errorf("panic: %v", p)
		}
	}()
	g, e := genesis.ReadGenesisConfigFromFile(path)
	if e != nil {
		return "", false, e
	}
	if g == nil {
		return "", true, nil
	}
	return g.GetGenesisMomentum().Hash.String(), false, nil
}

// c20LevelDBDigest reads every key of a stopped node's database directly.
func c20LevelDBDigest(dir string) (string, int, error) {
	ldb, err := leveldb.OpenFile(dir, &opt.Options{ErrorIfMissing: true})
	if err != nil {
		return "", 0, err
	}
	defer ldb.Close()
	it := ldb.NewIterator(nil, nil)
	defer it.Release()
	h := sha256.New()
	n := 0
	for it.Next() {
		fmt.Fprintf(h, "%d:%x=%d:%x;", len(it.Key()), it.Key(), len(it.Value()), it.Value())
		n++
	}
	return hex.EncodeToString(h.Sum(nil)[:10]), n, it.Error()
}

// ---------------------------------------------------------------------------
// the run
// ---------------------------------------------------------------------------

func runC20(r *simrt.Run) {
	t := r.T
	var c *c20Case
	t.Span(func() { c = c20Generate(r) })
	A := c.cfg
	r.Logf("config: chain %d, %d pillars, %d delegations, %d tokens, %d fusions, %d swap entries, sporks=%v, %d blocks",
		A.ChainIdentifier, len(A.PillarConfig.Pillars), len(A.PillarConfig.Delegations), len(A.TokenConfig.Tokens), len(A.PlasmaConfig.Fusions),
		len(A.SwapConfig.Entries), A.SporkConfig != nil, len(A.GenesisBlocks.Blocks))
	r.Sample["pillars"] = len(A.PillarConfig.Pillars)
	r.Sample["blocks"] = len(A.GenesisBlocks.Blocks)
	r.Sample["tokens"] = len(A.TokenConfig.Tokens)
	r.Sample["fusions"] = len(A.PlasmaConfig.Fusions)

	// the generator's promise, by the statement's rule and by the code's own check
	if ok, why, _ := c20Consistent(A); !ok {
		r.Fail("harness", "generator-inconsistent", "generated config is not consistent: %s", why)
	}
	if err, _ := c20Check(A); err != nil {
		r.Fail("consistent-config-rejected", "check-genesis", "CheckGenesis rejects a configuration whose sums are all intact: %v", err)
	}
	base, err := c20Build(A)
	if err != nil {
		r.Fail("determinism", "build-failed", "NewGenesis failed on a consistent configuration: %v", err)
	}
	r.Logf("genesis %s", base)
	r.Finger = base.Hash

	// ---- (i) determinism ----
	compared := 0
	same := func(what string, cfg *genesis.GenesisConfig, disc string) {
		b, err := c20Build(cfg)
		if err != nil {
			r.Report("determinism", disc+"-build-failed", "%s: NewGenesis failed: %v", what, err)
			return
		}
		compared++
		if *b != *base {
			r.Report("determinism", disc, "%s: genesis differs\n first: %s\n now:   %s", what, base, b)
		}
	}
	for i, n := 0, 1+t.Choose(3); i < n; i++ {
		same("same configuration built again", A, "rebuild")
		r.Probe("rebuilds")
	}
	same("deep copy of the configuration", c20Clone(A), "copy")
	var permAll *genesis.GenesisConfig
	t.Span(func() {
		permAll = c20Permute(r, A, "all")
		same("all unordered lists permuted", permAll, "permutation-all")
		r.Probe("permutation-all")
	})
	t.Span(func() {
		which := c20Lists[t.Choose(len(c20Lists))]
		same("list "+which+" permuted", c20Permute(r, A, which), "permutation-"+which)
		r.Probe("permutation-" + which)
	})
	// full initial state of a node opened on A and on the permuted config
	dumpA, consA, err := c20OpenState(r, A, "g0")
	if err != nil {
		r.Fail("determinism", "open-failed", "a node does not start on a consistent configuration: %v", err)
	}
	if consA != nil {
		r.Report("initial-state", "not-conserving", "initial state of a consistent configuration violates the supply equation: %v", consA)
	}
	stateA := oracle.Digest(dumpA)
	r.Logf("initial state %s (%d keys)", stateA, len(dumpA))
	t.Span(func() {
		cfg := permAll
		what := "all lists permuted"
		if t.Choose(3) == 2 {
			cfg, what = A, "same configuration, second node"
		}
		d, _, err := c20OpenState(r, cfg, "g1")
		if err != nil {
			r.Report("determinism", "open-failed", "%s: node does not start: %v", what, err)
			return
		}
		if oracle.Digest(d) != stateA {
			r.Report("determinism", "initial-state", "%s: full initial state differs: %s", what, oracle.Diff(dumpA, d))
		}
		r.Probe("initial-state-compared")
	})

	// JSON file round trip
	dir := r.TempDir()
	fileA := filepath.Join(dir, "genesis.json")
	rawA, jerr := json.MarshalIndent(A, "", "  ")
	if jerr != nil {
		r.Fail("harness", "marshal", "%v", jerr)
	}
	if err := os.WriteFile(fileA, rawA, 0o600); err != nil {
		panic(err)
	}
	if h, isNil, err := c20ReadFile(fileA); err != nil || isNil || h != base.Hash {
		r.Report("determinism", "file-round-trip", "configuration written as JSON and read back: hash %q nil=%v err=%v, built directly: %s", h, isNil, err, base.Hash)
	} else {
		r.Probe("file-round-trip")
	}
	// fresh process (sample)
	childEvery := 8
	if r.Tier == "thorough" {
		childEvery = 3
	}
	if t.Choose(childEvery) == 1 {
		t.Span(func() { c20Child(r, fileA, base, stateA) })
	}

	// ---- (ii) refusal ----
	judged := 0
	nPert := 3 + t.Choose(4)
	if r.Tier == "thorough" {
		nPert = 8 + t.Choose(12)
	}
	var hashChanging []*genesis.GenesisConfig // consistent variants, for (iii)
	var hashChangingKind []string
	for i := 0; i < nPert; i++ {
		t.Span(func() {
			kind := c20Perturbations[(t.Choose(len(c20Perturbations))+14)%len(c20Perturbations)] // 0 = the simplest: block-readdressed-fresh
			B, detail, ok := c20Perturb(r, A, kind)
			if !ok {
				r.Skip("perturbation-not-applicable")
				return
			}
			cons, why, class, ambiguous := c20ConsistentClass(B)
			cerr, panicked := c20Check(B)
			r.Logf("perturbation %s (%s): consistent=%v ambiguous=%v CheckGenesis error=%v", kind, detail, cons, ambiguous, cerr != nil)
			r.Probe("perturb-" + kind)
			judged++
			if panicked {
				r.Report("refusal", "check-panics", "CheckGenesis panics on perturbation %s (%s): %v", kind, detail, cerr)
				return
			}
			viaFile := t.Choose(3) == 0
			fh, fnil, ferr := "", false, error(nil)
			if viaFile {
				p := filepath.Join(dir, fmt.Sprintf("perturbed-%d.json", i))
				raw, _ := json.MarshalIndent(B, "", "  ")
				os.WriteFile(p, raw, 0o600)
				fh, fnil, ferr = c20ReadFile(p)
				r.Probe("perturbation-through-file")
			}
			switch {
			case !cons && cerr == nil:
				r.Report("refusal", "accepted-"+class, "perturbation %s (%s) breaks a sum (%s) but CheckGenesis accepts the configuration", kind, detail, why)
			case !cons:
				r.Probe("inconsistent-rejected")
				if viaFile && ferr == nil {
					r.Report("refusal", "file-accepted-"+class, "perturbation %s (%s): CheckGenesis refuses but ReadGenesisConfigFromFile returned hash %q nil=%v", kind, detail, fh, fnil)
				}
			case cerr != nil:
				r.Probe("consistent-but-rejected") // allowed: the code may be stricter than the statement
			default:
				r.Probe("consistent-accepted")
				bb, berr := c20Build(B)
				if berr != nil {
					r.Probe("accepted-config-does-not-build")
					r.Logf("accepted config does not build: %v", berr)
					return
				}
				if viaFile && (ferr != nil || fnil || fh != bb.Hash) {
					r.Report("determinism", "file-round-trip", "perturbation %s: file path gives hash %q nil=%v err=%v, direct build %s", kind, fh, fnil, ferr, bb.Hash)
				}
				if bb.Hash == base.Hash {
					r.Probe("config-differs-hash-same-" + kind)
				} else if !ambiguous {
					hashChanging = append(hashChanging, B)
					hashChangingKind = append(hashChangingKind, kind)
				}
				// what a node would start from (observation only: duplicate or negative entries)
				if ambiguous || kind == "amount-moved-negative" {
					if _, consB, err := c20OpenState(r, B, fmt.Sprintf("p%d", i)); err == nil && consB != nil {
						r.Probe("accepted-config-state-not-conserving-" + kind)
						r.Logf("accepted config gives a non-conserving initial state: %v", consB)
					} else if err != nil {
						r.Probe("accepted-config-node-does-not-start-" + kind)
					}
				}
			}
		})
	}

	// stored-byte faults of the genesis file
	t.Span(func() { c20FileFaults(r, dir, rawA, base) })

	// ---- (iii) restart history ----
	restarted := false
	t.Span(func() { restarted = c20Restart(r, c, base, permAll, hashChanging, hashChangingKind) })

	r.NonTrivial = compared >= 3 && judged >= 1 && restarted
}

// c20Child builds the genesis of the file in a fresh process of the same binary.
func c20Child(r *simrt.Run, file string, base *c20Built, state string) {
	cmd := exec.Command(os.Args[0], "-test.run", "^TestC20Child$", "-test.timeout", "120s")
	env := []string{"VERIF_C20_CHILD=" + file, "VERIF_C20_DIR=" + r.TempDir(), "GOMAXPROCS=" + []string{"1", "3", "8"}[r.T.Choose(3)]}
	for _, e := range os.Environ() {
		if strings.HasPrefix(e, "VERIF_") || strings.HasPrefix(e, "GOMAXPROCS=") {
			continue
		}
		env = append(env, e)
	}
	cmd.Env = env
	out, err := cmd.CombinedOutput()
	line := ""
	for _, l := range strings.Split(string(out), "\n") {
		if strings.HasPrefix(l, "C20CHILD ") {
			line = strings.TrimSpace(strings.TrimPrefix(l, "C20CHILD "))
		}
	}
	if err != nil || line == "" {
		// not logged: a child that cannot be started says nothing about the property and
		// must not change the event-log digest
		r.Skip("child-process-failed")
		return
	}
	want := base.String() + " state=" + state
	if line != want {
		r.Report("determinism", "fresh-process", "a fresh process builds another genesis from the same file\n here:  %s\n child: %s", want, line)
	}
	r.Probe("fresh-process-compared")
}

// c20FileFaults damages the stored genesis file and demands: an error, or a genesis that the
// damaged file really describes and that is consistent.
func c20FileFaults(r *simrt.Run, dir string, raw []byte, base *c20Built) {
	t := r.T
	kind := []string{"truncate", "bit-flip", "digit-overwrite", "zero-tail"}[t.Pick([]int{3, 3, 3, 1})]
	b := append([]byte(nil), raw...)
	detail := ""
	switch kind {
	case "truncate":
		off := t.Choose(len(b))
		if t.Choose(4) == 0 {
			off = len(b) - 1 - t.Choose(20)
		}
		b = b[:off]
		detail = fmt.Sprintf("cut at %d of %d", off, len(raw))
	case "bit-flip":
		pos := t.Choose(len(b))
		b[pos] ^= 1 << uint(t.Choose(8))
		detail = fmt.Sprintf("offset %d %q -> %q", pos, raw[pos], b[pos])
	case "digit-overwrite":
		var digits []int
		for i, ch := range b {
			if ch >= '0' && ch <= '9' {
				digits = append(digits, i)
			}
		}
		pos := digits[t.Choose(len(digits))]
		b[pos] = "0123456789-"[t.Choose(11)]
		detail = fmt.Sprintf("offset %d %q -> %q", pos, raw[pos], b[pos])
	case "zero-tail":
		off := t.Choose(len(b))
		for i := off; i < len(b); i++ {
			b[i] = 0
		}
		detail = fmt.Sprintf("zeroed from %d", off)
	}
	r.Fault("file-" + kind)
	p := filepath.Join(dir, "damaged.json")
	os.WriteFile(p, b, 0o600)
	h, isNil, err := c20ReadFile(p)
	r.Logf("genesis file fault %s (%s): hash=%q nil=%v err=%v", kind, detail, h, isNil, err != nil)
	switch {
	case err != nil:
		r.Probe("damaged-file-refused")
	case isNil:
		r.Probe("damaged-file-nil-genesis-without-error")
	default:
		// what does the damaged file describe?
		cfg := new(genesis.GenesisConfig)
		if e := json.NewDecoder(bytes.NewReader(b)).Decode(cfg); e != nil {
			r.Report("file", "undecodable-accepted", "fault %s (%s): the stored bytes are not a JSON document (%v) yet a genesis %s was returned", kind, detail, e, h)
			return
		}
		if kind == "truncate" && len(b) < len(bytes.TrimRight(raw, " \n\t")) {
			r.Report("file", "partial-file-accepted", "genesis file cut at %d of %d bytes is accepted (hash %s)", len(b), len(raw), h)
			return
		}
		cons, why, class, _ := c20ConsistentClass(cfg)
		if !cons {
			r.Report("refusal", "file-accepted-"+class, "fault %s (%s): the damaged file describes an inconsistent configuration (%s) yet it is accepted", kind, detail, why)
			return
		}
		bb, berr := c20Build(cfg)
		if berr != nil || bb.Hash != h {
			r.Report("file", "other-genesis", "fault %s (%s): returned genesis %s, the file describes %v (%v)", kind, detail, h, bb, berr)
			return
		}
		if h == base.Hash {
			r.Probe("damaged-file-same-genesis")
		} else {
			r.Probe("damaged-file-other-consistent-genesis")
		}
	}
}

// c20Restart: database created under A, reopened under B.
func c20Restart(r *simrt.Run, c *c20Case, base *c20Built, perm *genesis.GenesisConfig, variants []*genesis.GenesisConfig, variantKinds []string) bool {
	t := r.T
	A := c.cfg
	w := nomsim.NewWorld(r, A)
	var keys []*wallet.KeyPair
	slots := 0
	if t.Choose(4) != 3 {
		keys = c.keys
		slots = 1 + t.Choose(6)
	}
	n := w.AddNode("A", keys, false)
	for i := 0; i < slots; i++ {
		w.StepSlot()
	}
	heightBefore := n.Height()
	frontierBefore := n.Frontier().Hash
	stateBefore := oracle.Digest(oracle.Dump(n.Mgr.Frontier()))
	if heightBefore > 1 {
		r.Probe("restart-with-produced-momentums")
	} else {
		r.Probe("restart-genesis-only")
	}
	n.Stop()
	before, nkeys, err := c20LevelDBDigest(n.Dir)
	if err != nil {
		r.Fail("harness", "leveldb", "cannot read the stopped database: %v", err)
	}
	r.Logf("database under A: height %d frontier %s, %d raw keys, digest %s", heightBefore, frontierBefore.String()[:8], nkeys, before)

	attempts := 1 + t.Choose(3)
	if r.Tier == "thorough" {
		attempts = 2 + t.Choose(5)
	}
	for k := 0; k < attempts; k++ {
		var B *genesis.GenesisConfig
		what := ""
		switch choice := t.Choose(4); {
		case choice == 0 && len(variants) > 0:
			i := t.Choose(len(variants))
			B, what = variants[i], "A with "+variantKinds[i]
		case choice == 1:
			B, what = c20Clone(A), "copy of A"
		case choice == 2:
			B, what = perm, "permutation of A"
		default:
			kind := []string{"extra-data", "chain-id", "timestamp", "delegation-changed", "token-property", "amount-moved", "spork-toggled", "spork-address"}[t.Choose(8)]
			b, _, ok := c20Perturb(r, A, kind)
			if !ok {
				b, kind = c20Clone(A), "nothing"
			}
			B, what = b, "A with "+kind
		}
		bb, berr := c20Build(B)
		if berr != nil {
			r.Skip("variant-does-not-build")
			continue
		}
		differs := bb.Hash != base.Hash
		nb := simnode.NewOnDir(r, fmt.Sprintf("B%d", k), simnode.Config{Genesis: B}, n.Dir)
		var oerr error
		func() {
			defer func() {
				if p := recover(); p != nil {
					oerr = fmt.Errorf("panic: %v", p)
					r.Report("restart", "open-panics", "start under %s on A's database panics: %v", what, p)
				}
			}()
			oerr = nb.Open()
		}()
		r.Logf("start under %s: genesis differs=%v, start error=%v", what, differs, oerr != nil)
		switch {
		case differs && oerr == nil:
			r.Report("restart", "foreign-database-accepted", "a node configured with %s (genesis %s) starts on a database whose first momentum is %s", what, bb.Hash, base.Hash)
			nb.Stop()
		case !differs && oerr != nil:
			r.Report("restart", "own-database-refused", "a node configured with %s (same genesis hash) is refused on its own database: %v", what, oerr)
		case differs:
			r.Probe("foreign-database-refused")
			after, _, err := c20LevelDBDigest(n.Dir)
			if err != nil || after != before {
				r.Report("restart", "refused-start-changed-database", "refused start under %s changed the database: digest %s -> %s (%v)", what, before, after, err)
			}
		default:
			r.Probe("same-genesis-accepted")
			if nb.Frontier().Hash != frontierBefore || oracle.Digest(oracle.Dump(nb.Mgr.Frontier())) != stateBefore {
				r.Report("restart", "frontier-changed", "start under %s: frontier %v height %d, was %v height %d", what, nb.Frontier().Hash, nb.Height(), frontierBefore, heightBefore)
			}
			nb.Stop()
		}
	}
	// finally A again
	if err := n.Open(); err != nil {
		r.Report("restart", "own-database-refused", "after the attempts the original configuration no longer starts: %v", err)
		return true
	}
	if n.Frontier().Hash != frontierBefore || oracle.Digest(oracle.Dump(n.Mgr.Frontier())) != stateBefore {
		r.Report("restart", "frontier-changed", "restart under A: frontier %v height %d, was %v height %d", n.Frontier().Hash, n.Height(), frontierBefore, heightBefore)
	}
	if slots > 0 {
		h := n.Height()
		w.StepSlot()
		if n.Height() > h {
			r.Probe("production-continues-after-restart")
		}
	}
	n.Stop()
	return true
}
