package checks

import (
	"bytes"
	"encoding/json"
	"fmt"
	"math/big"

	"github.com/ethereum/go-ethereum/rlp"

	"github.com/zenon-network/go-zenon/chain/nom"
	"github.com/zenon-network/go-zenon/common/types"

	"verif/sim/golden"
	"verif/sim/nomsim"
	"verif/sim/oracle"
	"verif/sim/simnode"
	"verif/sim/simrt"
)

func init() { register("C13", runC13) }

// roundTripBlock pushes a block through the three encodings and demands the
// decoded block re-serialises to the same bytes with the same hash.
func roundTripBlock(r *simrt.Run, b *nom.AccountBlock) {
	orig, err := b.Serialize()
	if err != nil {
		r.Fail("codec", "protobuf-encode", "%v", err)
	}
	same := func(codec string, got *nom.AccountBlock) {
		gb, err := got.Serialize()
		if err != nil {
			r.Fail("codec", codec+"-reencode", "%v", err)
		}
		if !bytes.Equal(gb, orig) {
			r.Fail("codec", codec+"-block-changed", "account block %v/%d changed through %s: fields %v", b.Address, b.Height, codec, oracle.BlockFieldDiff(b, got))
		}
		if golden.AccountBlockHash(got) != b.Hash {
			r.Fail("codec", codec+"-hash-changed", "hash of block %v/%d not preserved through %s", b.Address, b.Height, codec)
		}
	}
	pb, err := nom.DeserializeAccountBlock(orig)
	if err != nil {
		r.Fail("codec", "protobuf-decode", "%v", err)
	}
	same("protobuf", pb)
	rb, err := rlp.EncodeToBytes(b)
	if err != nil {
		r.Fail("codec", "rlp-encode", "block %v/%d: %v", b.Address, b.Height, err)
	}
	dec := new(nom.AccountBlock)
	if err := rlp.DecodeBytes(rb, dec); err != nil {
		r.Fail("codec", "rlp-decode", "block %v/%d: %v", b.Address, b.Height, err)
	}
	same("rlp", dec)
	jb, err := json.Marshal(b)
	if err != nil {
		r.Fail("codec", "json-encode", "%v", err)
	}
	jd := new(nom.AccountBlock)
	if err := json.Unmarshal(jb, jd); err != nil {
		r.Fail("codec", "json-decode", "block %v/%d: %v\n%s", b.Address, b.Height, err, jb)
	}
	same("json", jd)
	r.Probe("block-round-trips")
}

func roundTripMomentum(r *simrt.Run, d *nom.DetailedMomentum) {
	m := d.Momentum
	orig, err := m.Serialize()
	if err != nil {
		r.Fail("codec", "protobuf-encode", "%v", err)
	}
	same := func(codec string, got *nom.Momentum) {
		gb, err := got.Serialize()
		if err != nil || !bytes.Equal(gb, orig) {
			r.Fail("codec", codec+"-momentum-changed", "momentum %d changed through %s (err %v)", m.Height, codec, err)
		}
		if golden.MomentumHash(got) != m.Hash {
			r.Fail("codec", codec+"-hash-changed", "hash of momentum %d not preserved through %s", m.Height, codec)
		}
	}
	pm, err := nom.DeserializeMomentum(orig)
	if err != nil {
		r.Fail("codec", "protobuf-decode", "%v", err)
	}
	same("protobuf", pm)
	rb, err := rlp.EncodeToBytes(d)
	if err != nil {
		r.Fail("codec", "rlp-encode", "momentum %d: %v", m.Height, err)
	}
	dec := new(nom.DetailedMomentum)
	if err := rlp.DecodeBytes(rb, dec); err != nil {
		r.Fail("codec", "rlp-decode", "momentum %d: %v", m.Height, err)
	}
	same("rlp", dec.Momentum)
	if len(dec.AccountBlocks) != len(d.AccountBlocks) {
		r.Fail("codec", "rlp-momentum-changed", "momentum %d: account block list length changed through rlp", m.Height)
	}
	jb, err := json.Marshal(m)
	if err != nil {
		r.Fail("codec", "json-encode", "%v", err)
	}
	jd := new(nom.Momentum)
	if err := json.Unmarshal(jb, jd); err != nil {
		r.Fail("codec", "json-decode", "momentum %d: %v", m.Height, err)
	}
	same("json", jd)
	r.Probe("momentum-round-trips")
}

// canonicalCallData re-packs the decoded arguments of a contract call.
func canonicalCallData(b *nom.AccountBlock) ([]byte, bool) {
	c := nomsim.ContractByAddr(b.ToAddress)
	if c == nil || len(b.Data) < 4 {
		return nil, false
	}
	m, err := c.ABI.MethodById(b.Data[:4])
	if err != nil {
		return nil, false
	}
	vals, err := m.Inputs.UnpackValues(b.Data[4:])
	if err != nil {
		return nil, false
	}
	packed, err := c.ABI.PackMethod(m.Name, vals...)
	if err != nil {
		return nil, false
	}
	return packed, true
}

type variant struct {
	name  string
	apply func(r *simrt.Run, b *nom.AccountBlock) bool
}

// in-flight variants: same hash, altered fields that the hash does not cover,
// or call data in another encoding of the same arguments
var variants = []variant{
	{"changes-hash", func(r *simrt.Run, b *nom.AccountBlock) bool {
		b.ChangesHash[r.T.Choose(types.HashSize)] ^= 1
		return true
	}},
	{"changes-hash-zero", func(r *simrt.Run, b *nom.AccountBlock) bool {
		if b.ChangesHash.IsZero() {
			return false
		}
		b.ChangesHash = types.ZeroHash
		return true
	}},
	{"base-plasma", func(r *simrt.Run, b *nom.AccountBlock) bool { b.BasePlasma += 7; return true }},
	{"total-plasma", func(r *simrt.Run, b *nom.AccountBlock) bool { b.TotalPlasma += 7; return true }},
	{"base-plasma-lower", func(r *simrt.Run, b *nom.AccountBlock) bool {
		if b.BasePlasma < 2 {
			return false
		}
		b.BasePlasma = 1 + uint64(r.T.Choose(int(b.BasePlasma-1)))
		return true
	}},
	{"total-plasma-lower", func(r *simrt.Run, b *nom.AccountBlock) bool {
		if b.TotalPlasma < 2 {
			return false
		}
		b.TotalPlasma = 1 + uint64(r.T.Choose(int(b.TotalPlasma-1)))
		return true
	}},
	{"descendant-amount", func(r *simrt.Run, b *nom.AccountBlock) bool {
		if len(b.DescendantBlocks) == 0 {
			return false
		}
		d := b.DescendantBlocks[r.T.Choose(len(b.DescendantBlocks))]
		d.Amount = new(big.Int).Add(d.Amount, big.NewInt(1))
		return true
	}},
	{"descendant-to-address", func(r *simrt.Run, b *nom.AccountBlock) bool {
		if len(b.DescendantBlocks) == 0 {
			return false
		}
		d := b.DescendantBlocks[r.T.Choose(len(b.DescendantBlocks))]
		d.ToAddress[5] ^= 1
		return true
	}},
	{"descendant-uncovered", func(r *simrt.Run, b *nom.AccountBlock) bool {
		if len(b.DescendantBlocks) == 0 {
			return false
		}
		d := b.DescendantBlocks[r.T.Choose(len(b.DescendantBlocks))]
		d.TotalPlasma += 3
		return true
	}},
	{"call-data-trailing-bytes", func(r *simrt.Run, b *nom.AccountBlock) bool {
		if _, ok := canonicalCallData(b); !ok || len(b.Data) <= 4 {
			return false
		}
		b.Data = append(append([]byte(nil), b.Data...), r.T.Bytes(32)...)
		return true
	}},
	{"call-data-dirty-padding", func(r *simrt.Run, b *nom.AccountBlock) bool {
		if _, ok := canonicalCallData(b); !ok || len(b.Data) < 36 {
			return false
		}
		d := append([]byte(nil), b.Data...)
		w := r.T.Choose((len(d) - 4) / 32)
		d[4+32*w] ^= 0x80
		b.Data = d
		return true
	}},
	{"signature-trailing-bytes", func(r *simrt.Run, b *nom.AccountBlock) bool {
		if len(b.Signature) == 0 {
			return false
		}
		b.Signature = append(append([]byte(nil), b.Signature...), r.T.Bytes(1+r.T.Choose(8))...)
		return true
	}},
	{"public-key-dropped", func(r *simrt.Run, b *nom.AccountBlock) bool {
		if len(b.PublicKey) == 0 {
			return false
		}
		b.PublicKey = nil
		return true
	}},
}

func storedOn(n *simnode.Node, b *nom.AccountBlock) *nom.AccountBlock {
	for _, pb := range n.Chain.GetUncommittedAccountBlocksByAddress(b.Address) {
		if pb.Hash == b.Hash && pb.Height == b.Height {
			return pb
		}
	}
	if cb, err := n.Chain.GetFrontierMomentumStore().GetAccountBlockByHash(b.Hash); err == nil && cb != nil {
		return cb
	}
	return nil
}

func runC13(r *simrt.Run) {
	r.WatchLocks() // a lock of the node that is never released is a violation, not a hang
	t := r.T
	mode := nomsim.SporkMode(t.Choose(3))
	w := nomsim.NewWorld(r, nomsim.MockGenesis(mode))
	w.EnforceReceiverRule(0)
	w.Net.Gossip = false
	w.NonceNoise = true
	a := w.AddNode("A", nomsim.MockPillars(), false)
	b := w.AddNode("B", nil, false)
	wl := nomsim.NewWorkload(w, mode)
	wl.MaxOps = 1 + t.Choose(5)
	slots := 10 + t.Choose(40)
	if r.Tier == "thorough" {
		slots = 30 + t.Choose(170)
	}
	variantPct := []int{0, 15, 40}[t.Choose(3)]
	var fresh []*nom.AccountBlock
	a.OnBlock = func(_ *simnode.Node, blk *nom.AccountBlock) { fresh = append(fresh, blk) }
	variantsDelivered, variantsHeld := 0, 0
	stuck := false

	deliver := func(blk *nom.AccountBlock) {
		roundTripBlock(r, blk)
		// canonical call data
		if blk.BlockType == nom.BlockTypeUserSend && types.IsEmbeddedAddress(blk.ToAddress) {
			if canon, ok := canonicalCallData(blk); ok {
				if !bytes.Equal(canon, blk.Data) {
					r.Fail("call-data-not-canonical", nomsim.ContractByAddr(blk.ToAddress).Name, "accepted call to %v stores data %x, canonical encoding of the same arguments is %x", blk.ToAddress, blk.Data, canon)
				}
				r.Probe("call-data-canonical-checked")
			}
		}
		if blk.BlockType == nom.BlockTypeContractSend {
			return
		}
		send := nomsim.CloneBlock(blk)
		class := "honest"
		if variantPct > 0 && t.Prob(variantPct, 100) {
			v := variants[t.Choose(len(variants))]
			if v.apply(r, send) {
				class = v.name
				kind := "user"
				if types.IsEmbeddedAddress(blk.Address) {
					kind = "contract"
				}
				class = kind + "-" + class
				variantsDelivered++
				r.Fault("in-flight-variant-" + class)
			}
		}
		err := b.Bridge.AddAccountBlocks([]*nom.AccountBlock{send})
		r.Logf("deliver %s/%d (%s) -> B err=%v", blk.Address.String()[:10], blk.Height, class, err != nil)
		if class == "honest" {
			return
		}
		if err != nil {
			r.Probe("variant-refused")
			// the honest copy must still be acceptable afterwards
			if err := b.Bridge.AddAccountBlocks([]*nom.AccountBlock{nomsim.CloneBlock(blk)}); err != nil {
				r.Logf("honest copy after refused variant: %v", err)
			}
			return
		}
		held := storedOn(b, blk)
		if held == nil {
			return
		}
		hb, _ := held.Serialize()
		ab, _ := storedOn(a, blk).Serialize()
		if !bytes.Equal(hb, ab) {
			variantsHeld++
			diff := oracle.BlockFieldDiff(storedOn(a, blk), held)
			r.Report("same-hash-different-bytes", class, "node B accepted a variant of block %v/%d (hash %v) and stores bytes different from node A's: fields %v", blk.Address, blk.Height, blk.Hash, diff)
			if !r.Known["same-hash-different-bytes|"+class] {
				r.Abort()
			}
			stuck = true
		} else {
			r.Probe("variant-normalised-to-identical-bytes")
		}
	}

	for s := 0; s < slots; s++ {
		t.Span(func() {
			wl.G.RefreshTokens(a)
			wl.Ops(a)
			h0 := a.Height()
			w.StepSlot()
			pend := fresh
			fresh = nil
			// blocks created before the momentum reach B first (possibly as variants), then the
			// momentum, then the blocks created on top of it (contract receives)
			var after []*nom.AccountBlock
			for _, blk := range pend {
				if blk.MomentumAcknowledged.Height > h0 {
					after = append(after, blk)
					continue
				}
				t.Span(func() { deliver(blk) })
			}
			defer func() {
				if b.Height() == a.Height() {
					for _, blk := range after {
						t.Span(func() { deliver(blk) })
					}
				}
			}()
			for h := h0 + 1; h <= a.Height(); h++ {
				d := a.Detailed(h)
				roundTripMomentum(r, d)
				if b.Height() != h-1 {
					continue
				}
				if variantPct > 0 && t.Prob(variantPct, 100) {
					// the momentum itself arrives as a variant with the same hash first
					v := nomsim.CloneDetailed(d)
					class := "momentum-signature-trailing-bytes"
					if t.Bool() {
						v.Momentum.Signature = append(append([]byte(nil), v.Momentum.Signature...), t.Bytes(1+t.Choose(8))...)
					} else {
						class = "momentum-public-key-padded"
						v.Momentum.PublicKey = append(append([]byte(nil), v.Momentum.PublicKey...), 0)
					}
					r.Fault("in-flight-variant-" + class)
					variantsDelivered++
					if _, err := b.Bridge.InsertChain([]*nom.DetailedMomentum{v}); err == nil && b.Height() == h {
						am, _ := a.Chain.GetFrontierMomentumStore().GetMomentumByHeight(h)
						bm, _ := b.Chain.GetFrontierMomentumStore().GetMomentumByHeight(h)
						ab, _ := am.Serialize()
						bb, _ := bm.Serialize()
						if !bytes.Equal(ab, bb) {
							r.Fail("same-hash-different-bytes", class, "node B accepted a variant of momentum %d (hash %v) and stores bytes different from node A's (signature %d vs %d bytes, public key %d vs %d bytes)", h, d.Momentum.Hash, len(bm.Signature), len(am.Signature), len(bm.PublicKey), len(am.PublicKey))
						}
					} else {
						r.Probe("momentum-variant-refused")
					}
					if b.Height() != h-1 {
						continue
					}
				}
				idx, err := b.Bridge.InsertChain([]*nom.DetailedMomentum{d})
				if err != nil || idx != 0 {
					if stuck {
						// consequence of a reported (known) variant: B is wedged on its
						// pool copy. A restart drops the pool; then it can follow again.
						r.Probe("honest-momentum-refused-after-known-variant")
						if err := b.Restart(false); err != nil {
							r.Fail("restart", "open", "%v", err)
						}
						stuck = false
						idx, err = b.Bridge.InsertChain(a.Batch(b.Height()+1, h))
					}
					if err != nil || idx != 0 {
						r.Fail("honest-momentum-refused", "after-variants", "node B refused A's momentum %d: idx=%d err=%v", h, idx, err)
					}
				}
			}
			if b.Height() == a.Height() && t.Choose(4) == 0 {
				compareNodes(r, "same-momentums-different-state", a, b, nil)
			}
		})
	}
	if b.Height() < a.Height() {
		if idx, err := b.Bridge.InsertChain(a.Batch(b.Height()+1, a.Height())); err != nil || idx != 0 {
			if stuck {
				b.Restart(false)
				idx, err = b.Bridge.InsertChain(a.Batch(b.Height()+1, a.Height()))
			}
			if err != nil || idx != 0 {
				r.Fail("honest-momentum-refused", "final", "idx=%d err=%v", idx, err)
			}
		}
	}
	compareNodes(r, "same-momentums-different-state", a, b, nil)
	r.Probes["variants-delivered"] += variantsDelivered
	r.Probes["variants-held-with-different-bytes"] += variantsHeld
	r.NonTrivial = r.Probes["block-round-trips"] >= 10 && a.Height() >= 8
	r.Finger = fmt.Sprintf("%s-%d", a.Frontier().Hash.String()[:16], variantsDelivered)
	r.Sample["height"] = a.Height()
	r.Sample["variant_pct"] = variantPct
	r.Sample["variants_delivered_held"] = []int{variantsDelivered, variantsHeld}
}
