package checks

import (
	"fmt"
	"time"

	"github.com/zenon-network/go-zenon/chain/nom"
	"github.com/zenon-network/go-zenon/common"
	"github.com/zenon-network/go-zenon/common/types"
	"github.com/zenon-network/go-zenon/vm"

	"verif/sim/nomsim"
	"verif/sim/simnode"
	"verif/sim/simrt"
)

func init() { register("C09", runC09) }

func callKey(send *nom.AccountBlock) string {
	c := nomsim.ContractByAddr(send.ToAddress)
	if c == nil {
		return "unknown-contract"
	}
	if len(send.Data) < 4 {
		return c.Name + ".<short-data>"
	}
	m, err := c.ABI.MethodById(send.Data[:4])
	if err != nil {
		return c.Name + ".<unknown-method>"
	}
	return c.Name + "." + m.Name
}

// judgeReceive checks one generated or delivered contract receive against its send.
func judgeReceive(r *simrt.Run, send, rcv *nom.AccountBlock, where string) {
	key := callKey(send)
	if len(rcv.Data) != 8 {
		r.Fail("receive-malformed", key, "%s: receive of %s carries %d status bytes", where, key, len(rcv.Data))
	}
	status := common.BytesToUint64(rcv.Data)
	switch status {
	case 1:
		r.Probe("call-applied")
	case 2:
		r.Probe("call-refunded")
		if send.Amount.Sign() == 0 {
			if len(rcv.DescendantBlocks) != 0 {
				r.Fail("refund-wrong", key, "%s: failed call %s sent nothing but the receive emits %d blocks", where, key, len(rcv.DescendantBlocks))
			}
			return
		}
		if len(rcv.DescendantBlocks) != 1 {
			r.Fail("refund-wrong", key, "%s: failed call %s with amount %v must be refunded by exactly one block, got %d", where, key, send.Amount, len(rcv.DescendantBlocks))
		}
		d := rcv.DescendantBlocks[0]
		if d.ToAddress != send.Address || d.Amount.Cmp(send.Amount) != 0 || d.TokenStandard != send.TokenStandard || d.BlockType != nom.BlockTypeContractSend || len(d.Data) != 0 {
			r.Fail("refund-wrong", key, "%s: failed call %s sent %v %v from %v; refund block sends %v %v to %v", where, key, send.Amount, send.TokenStandard, send.Address, d.Amount, d.TokenStandard, d.ToAddress)
		}
		r.Probe("refund-with-value-checked")
	default:
		r.Fail("receive-malformed", key, "%s: receive of %s has status %d", where, key, status)
	}
}

func inboxHead(n *simnode.Node, c types.Address) *nom.AccountBlock {
	ms := n.Chain.GetFrontierMomentumStore()
	hd := n.Chain.GetFrontierAccountStore(c).SequencerFront(ms.GetAccountMailbox(c))
	if hd == nil {
		return nil
	}
	b, err := ms.GetAccountBlock(*hd)
	if err != nil {
		return nil
	}
	return b
}

func runC09(r *simrt.Run) {
	r.WatchLocks() // a lock of the node that is never released is a violation, not a hang
	t := r.T
	mode := nomsim.SporkMode(t.Choose(3))
	w := nomsim.NewWorld(r, nomsim.MockGenesis(mode))
	w.EnforceReceiverRule(0)
	w.Net.Gossip = false
	if t.Choose(3) != 0 {
		w.SetEpochDuration(time.Duration(300*(2+t.Choose(3))) * time.Second)
		w.ShortRewardKnobs(int64(10*t.Choose(6)), uint64(1+t.Choose(10)))
	}
	bridgeOn := false
	if t.Bool() {
		// a harness key administers bridge and liquidity: their gated methods run for real
		w.BridgeAdmin(w.Users[t.Choose(3)].Address, uint64(1+t.Choose(8)), 1+t.Choose(5))
		r.Probe("bridge-admin-installed")
		// and under the bridge spork the bridge is brought into a usable state (orchestrator, TSS key,
		// networks, token pairs), so that calls reach the states behind the initialisation guards
		bridgeOn = mode == nomsim.SporksActive && t.Bool()
	}
	p := w.AddNode("P", nomsim.MockPillars(), false)
	f := w.AddNode("F", nil, false)
	wl := nomsim.NewWorkload(w, mode)
	wl.MaxOps = 3 + t.Choose(8)
	wl.Mix = nomsim.Mix{Transfer: 1, Receive: 2, Flow: 8, RandomCall: 8, Spork: 1}
	slots := 15 + t.Choose(50)
	if r.Tier == "thorough" {
		slots = 40 + t.Choose(250)
	}
	var fresh []*nom.AccountBlock
	p.OnBlock = func(_ *simnode.Node, b *nom.AccountBlock) { fresh = append(fresh, b) }
	// one run in three pushes tokens with boundary supplies (2^63 .. 2^255-1) through calls
	wl.Huge = t.Choose(3) == 0
	if bridgeOn {
		wl.G.EnableBridge()
		r.Probe("bridge-enabled")
	}
	methods := map[string]int{}
	calls := 0

	for s := 0; s < slots; s++ {
		t.Span(func() {
			if s > 0 && t.Choose(12) == 0 {
				// the producer went down right after its slot: the receives it had pooled are lost and are
				// produced again later, when the momentum that confirmed the calls is no longer the frontier
				r.Fault("restart-producer-after-slot")
				r.Logf("restart P at height %d", p.Height())
				if err := p.Restart(false); err != nil {
					r.Fail("restart", "open", "%v", err)
				}
			}
			wl.G.RefreshTokens(p)
			if bridgeOn {
				nomsim.FlowByName("bridge-setup").Run(wl.G, p)
				t.Loop(1, 2, 3, func() {
					nomsim.FlowByName(nomsim.BridgeFlowNames[1+t.Choose(len(nomsim.BridgeFlowNames)-1)]).Run(wl.G, p)
				})
			}
			wl.Ops(p)
			if mode == nomsim.SporksActive {
				// hash-time-locks (a fifth of them locked to contracts or keyless addresses) and their unlocks
				if t.Choose(3) == 0 {
					nomsim.FlowByName("htlc-create").Run(wl.G, p)
				}
				if t.Choose(3) == 0 {
					nomsim.FlowByName("htlc-unlock").Run(wl.G, p)
				}
			}
			if t.Choose(14) == 0 {
				w.SkipSlots(int64(1 + t.Choose(60)))
				r.Fault("missed-slots")
			}
			h0 := p.Height()
			w.StepSlot()
			// after the producer ran, no accepted call may be left waiting in an inbox (in a slot of a pillar
			// nobody hosts - one registered during the run - nothing is produced, and a restarted producer
			// has not yet re-made the receives it lost)
			for _, c := range types.EmbeddedContracts {
				if p.Height() == h0 {
					break
				}
				if hd := inboxHead(p, c); hd != nil {
					r.Fail("inbox-wedged", callKey(hd), "after the producer's slot the inbox of %v still holds call %s from %v (hash %v)", c, callKey(hd), hd.Address, hd.Hash)
				}
			}
			pend := fresh
			fresh = nil
			var before, after []*nom.AccountBlock
			for _, b := range pend {
				if b.MomentumAcknowledged.Height > h0 {
					after = append(after, b)
				} else {
					before = append(before, b)
				}
			}
			for _, b := range before {
				f.Bridge.AddAccountBlocks([]*nom.AccountBlock{b})
			}
			if p.Height() == h0 {
				return
			}
			idx, err := f.Bridge.InsertChain(p.Batch(h0+1, p.Height()))
			if err != nil || idx != 0 {
				r.Fail("honest-momentum-refused", "follower", "idx=%d err=%v", idx, err)
			}
			// the follower now sees the confirmed calls with no receive yet: judge each
			// generation itself, inside recover, before the producer's block arrives
			for _, rb := range after {
				if rb.BlockType != nom.BlockTypeContractReceive {
					f.Bridge.AddAccountBlocks([]*nom.AccountBlock{rb})
					continue
				}
				send := inboxHead(f, rb.Address)
				if send == nil || send.Hash != rb.FromBlockHash {
					r.Fail("inbox-order", "head-mismatch", "producer received %v for %v but the follower's inbox head is %v", rb.FromBlockHash, rb.Address, send)
				}
				key := callKey(send)
				methods[key]++
				r.Probe("m:" + key)
				calls++
				var ex *vm.ContractExecution
				var gerr error
				func() {
					defer func() {
						if pn := recover(); pn != nil {
							r.Fail("generate-receive-panic", key, "generating the receive of an accepted call %s (amount %v %v, data %d bytes) panicked: %v", key, send.Amount, send.TokenStandard, len(send.Data), pn)
						}
					}()
					ex, gerr = f.Sup.GenerateAutoReceive(send)
				}()
				if gerr != nil || ex == nil || ex.Transaction == nil {
					r.Fail("generate-receive-error", key, "generating the receive of an accepted call %s returned an internal error: %v", key, gerr)
				}
				judgeReceive(r, send, ex.Transaction.Block, "follower-generated")
				if ex.Transaction.Block.Hash != rb.Hash {
					r.Fail("receive-differs", key, "follower generates receive %v for %s, producer generated %v", ex.Transaction.Block.Hash, key, rb.Hash)
				}
				// the producer's block must apply on the follower (no VM panic)
				if err := f.Bridge.AddAccountBlocks([]*nom.AccountBlock{rb}); err != nil {
					r.Fail("receive-refused", key, "the follower refuses the producer's receive of %s: %v", key, err)
				}
				if next := inboxHead(f, rb.Address); next != nil && next.Hash == send.Hash {
					r.Fail("inbox-wedged", key, "the inbox of %v did not advance past %s", rb.Address, key)
				}
			}
		})
	}
	r.Probes["calls-judged"] += calls
	r.Probes["distinct-methods-judged"] += len(methods)
	r.NonTrivial = calls >= 10 && r.Probes["call-refunded"] >= 1 && r.Probes["call-applied"] >= 1
	r.Finger = fmt.Sprintf("%s-%d", p.Frontier().Hash.String()[:16], calls)
	r.Sample["height"] = p.Height()
	r.Sample["calls_by_method"] = methods
	r.Sample["spork_mode"] = int(mode)
}
