package checks

import (
	"fmt"
	"math/big"

	"github.com/zenon-network/go-zenon/chain/nom"
	"github.com/zenon-network/go-zenon/common/types"
	"github.com/zenon-network/go-zenon/verifier"

	"verif/sim/nomsim"
	"verif/sim/oracle"
	"verif/sim/simnode"
	"verif/sim/simrt"
)

func init() { register("C03", runC03) }

// findReceiveOf looks on node n (confirmed chain and pool of the contract) for
// the receive block of a send.
func findReceiveOf(n *simnode.Node, send *nom.AccountBlock) *nom.AccountBlock {
	if rb, err := n.Chain.GetFrontierMomentumStore().GetBlockWhichReceives(send.Hash); err == nil && rb != nil {
		return rb
	}
	for _, b := range n.Chain.GetUncommittedAccountBlocksByAddress(send.ToAddress) {
		if b.BlockType == nom.BlockTypeContractReceive && b.FromBlockHash == send.Hash {
			return b
		}
	}
	return nil
}

func runC03(r *simrt.Run) {
	r.WatchLocks() // a lock of the node that is never released is a violation, not a hang
	t := r.T
	mode := nomsim.SporkMode(t.Choose(3))
	w := nomsim.NewWorld(r, nomsim.MockGenesis(mode))
	slots := 12 + t.Choose(40)
	if r.Tier == "thorough" {
		slots = 30 + t.Choose(150)
	}
	enforce := []uint64{0, uint64(2 + t.Choose(slots)), 10109240}[t.Choose(3)]
	w.EnforceReceiverRule(enforce)
	p := w.AddNode("P", nomsim.MockPillars(), false)
	f := w.AddNode("F", nil, false) // judged node: same chain and pool through gossip
	wl := nomsim.NewWorkload(w, mode)
	wl.MaxOps = 2 + t.Choose(5)
	wl.Mix.Transfer, wl.Mix.Receive = 5, 5

	regen := func(send *nom.AccountBlock) *nom.AccountBlock {
		if rb := findReceiveOf(p, send); rb != nil {
			return rb
		}
		var out *nom.AccountBlock
		func() {
			defer func() { recover() }()
			ex, err := p.Sup.GenerateAutoReceive(send)
			if err == nil && ex != nil && ex.Transaction != nil {
				out = ex.Transaction.Block
			}
		}()
		return out
	}

	tried, accepted, mutAccepted := 0, 0, 0
	judge := func(what string, b *nom.AccountBlock, viaPool bool) bool {
		tried++
		var err error
		func() {
			defer func() {
				if pn := recover(); pn != nil {
					r.Fail("apply-panic", "candidate", "applying a %s candidate panicked: %v", what, pn)
				}
			}()
			if viaPool && f.Chain.GetPatch(b.Address, b.Identifier()) != nil {
				viaPool = false // the bridge ignores a block whose identifier it already holds
			}
			if viaPool {
				err = f.Bridge.AddAccountBlocks([]*nom.AccountBlock{b})
			} else {
				_, err = f.Sup.ApplyBlock(b)
			}
		}()
		if err != nil {
			return false
		}
		if viaPool && f.Chain.GetPatch(b.Address, b.Identifier()) == nil {
			return false // silently skipped by the bridge (e.g. contract-send type), not held
		}
		accepted++
		if clause, why := oracle.BlockInvalid(f, b, verifier.ReceiverMismatchEnforcementHeight, regen); clause != "" {
			if r.Known["invalid-block-accepted|"+clause] {
				r.Report("invalid-block-accepted", clause, "%s was accepted but violates '%s': %s", what, clause, why)
				return true
			}
			r.Fail("invalid-block-accepted", clause, "%s was accepted (pool path %v) but violates '%s': %s\nblock: type %d %v/%d prev %v ack %d amount %v %v to %v from %v fused %d diff %d",
				what, viaPool, clause, why, b.BlockType, b.Address, b.Height, b.PreviousHash, b.MomentumAcknowledged.Height, b.Amount, b.TokenStandard, b.ToAddress, b.FromBlockHash, b.FusedPlasma, b.Difficulty)
		}
		return true
	}

	candidates := func() []*nom.AccountBlock {
		var out []*nom.AccountBlock
		// a valid next user send and receive, built on P but not published
		for i := 0; i < 2; i++ {
			u := w.Users[t.Choose(len(w.Users))]
			to := w.Users[t.Choose(len(w.Users))].Address
			if t.Choose(4) == 0 {
				to = types.PlasmaContract
			}
			tmpl := &nom.AccountBlock{BlockType: nom.BlockTypeUserSend, Address: u.Address, ToAddress: to, TokenStandard: types.ZnnTokenStandard, Amount: wlAmount(t)}
			if to == types.PlasmaContract {
				tmpl.TokenStandard = types.QsrTokenStandard
				tmpl.Amount = wlAmountQsr()
				tmpl.Data = fuseData(u.Address)
			}
			if tx, err := p.Sup.GenerateFromTemplate(tmpl, u.Signer); err == nil {
				out = append(out, tx.Block)
			}
			if hs := w.Unreceived(p, u.Address, 5); len(hs) > 0 {
				if tx, err := p.Sup.GenerateFromTemplate(&nom.AccountBlock{BlockType: nom.BlockTypeUserReceive, Address: u.Address, FromBlockHash: hs[t.Choose(len(hs))]}, u.Signer); err == nil {
					out = append(out, tx.Block)
				}
			}
		}
		// a competitor for a height that a pooled receive already occupies: it stands on the receive's
		// predecessor, pays more plasma (so the pool would prefer it) and spends what the account holds only
		// AFTER that receive
		for _, u := range w.Users {
			pooled := f.Chain.GetUncommittedAccountBlocksByAddress(u.Address)
			if len(pooled) == 0 || t.Choose(3) != 0 {
				continue
			}
			last := pooled[len(pooled)-1]
			if last.BlockType != nom.BlockTypeUserReceive {
				continue
			}
			after, err := f.Chain.GetFrontierAccountStore(u.Address).GetBalance(types.ZnnTokenStandard)
			if err != nil || after.Sign() <= 0 {
				continue
			}
			b := &nom.AccountBlock{Version: 1, ChainIdentifier: last.ChainIdentifier, BlockType: nom.BlockTypeUserSend, PreviousHash: last.PreviousHash, Height: last.Height,
				MomentumAcknowledged: f.Frontier().Identifier(), Address: u.Address, ToAddress: w.Users[t.Choose(len(w.Users))].Address, Amount: new(big.Int).Set(after),
				TokenStandard: types.ZnnTokenStandard, FusedPlasma: 2 * 21000, BasePlasma: 21000, TotalPlasma: 2 * 21000}
			b.Hash = b.ComputeHash()
			b.Signature = u.Sign(b.Hash.Bytes())
			b.PublicKey = append([]byte(nil), u.Public...)
			out = append(out, b)
			r.Probe("candidate-competing-with-pooled-receive")
		}
		// the contract receives the judged node itself would generate for the heads of its inboxes
		// (non-empty when the producer lost its pool in a restart and the calls wait across momentums)
		for _, c := range types.EmbeddedContracts {
			if hd := inboxHead(f, c); hd != nil {
				func() {
					defer func() { recover() }()
					if ex, err := f.Sup.GenerateAutoReceive(hd); err == nil && ex != nil && ex.Transaction != nil {
						out = append(out, ex.Transaction.Block)
						r.Probe("candidate-from-waiting-inbox")
					}
				}()
			}
		}
		// blocks of every kind that P already holds (pooled or recently confirmed), incl. contract receives with descendants
		pool := p.Chain.GetAllUncommittedAccountBlocks()
		sortBlocks(pool)
		for _, b := range pool {
			if b.BlockType != nom.BlockTypeContractSend && t.Choose(3) == 0 {
				out = append(out, b)
			}
		}
		if d := p.Detailed(p.Height()); d != nil {
			for _, b := range d.AccountBlocks {
				if b.BlockType != nom.BlockTypeContractSend && t.Choose(3) == 0 {
					out = append(out, b)
				}
			}
		}
		return out
	}

	for s := 0; s < slots; s++ {
		t.Span(func() {
			wl.G.RefreshTokens(p)
			wl.Ops(p)
			w.Net.Flush()
			if t.Choose(3) == 0 {
				for _, base := range candidates() {
					t.Span(func() {
						owner := w.Keys[base.Address]
						kind := fmt.Sprintf("type%d", base.BlockType)
						if judge("unmutated "+kind, nomsim.CloneBlock(base), false) {
							r.Probe("valid-candidate-accepted-" + kind)
						} else {
							r.Probe("base-candidate-refused-" + kind) // e.g. already confirmed
						}
						nm := 3 + t.Choose(6)
						for i := 0; i < nm; i++ {
							m := nomsim.CloneBlock(base)
							m1 := nomsim.BlockMutations[t.Choose(len(nomsim.BlockMutations))]
							if !m1.Apply(w, m) {
								continue
							}
							name := m1.Name
							if t.Choose(4) == 0 {
								m2 := nomsim.BlockMutations[t.Choose(len(nomsim.BlockMutations))]
								if m2.Apply(w, m) {
									name += "+" + m2.Name
								}
							}
							sv := nomsim.SignVariant(t.Choose(4))
							nomsim.ApplySign(w, m, sv, owner)
							what := fmt.Sprintf("%s mutant [%s, %s]", kind, name, nomsim.SignVariantNames[sv])
							viaPool := t.Choose(4) == 0
							if judge(what, m, viaPool) {
								mutAccepted++
								r.Probe("mutant-accepted-and-valid")
								r.Logf("accepted valid mutant: %s", what)
							}
						}
					})
				}
			}
			w.StepSlot()
			w.Net.Flush()
			if t.Choose(10) == 0 {
				// the producer restarts right after its slot: the contract receives it had pooled are
				// lost and are regenerated only after the next momentum, so calls wait across momentums
				r.Fault("restart-producer-after-slot")
				if err := p.Restart(false); err != nil {
					r.Fail("restart", "open", "%v", err)
				}
			}
		})
	}
	r.Probes["candidates-tried"] += tried
	r.Probes["candidates-accepted"] += accepted
	r.NonTrivial = tried >= 20 && accepted >= 2
	r.Finger = fmt.Sprintf("%s-%d-%d", p.Frontier().Hash.String()[:16], tried, accepted)
	r.Sample["height"] = p.Height()
	r.Sample["enforcement_height"] = enforce
	r.Sample["tried_accepted_mutants"] = []int{tried, accepted, mutAccepted}
}
