package checks

import (
	"bytes"
	"encoding/json"
	"fmt"
	"math/big"
	"sort"
	"strings"
	"time"

	"github.com/zenon-network/go-zenon/chain"
	"github.com/zenon-network/go-zenon/chain/nom"
	"github.com/zenon-network/go-zenon/common/types"
	"github.com/zenon-network/go-zenon/vm/embedded/definition"

	"verif/sim/simnode"
)

// consensusView renders everything the consensus module answers about the
// finished part of a node's chain: pillar weights, per-epoch statistics and
// delegations, and the producer of every slot from `back` slots before the
// frontier to `ahead` slots after it. Two nodes on the same chain must render
// the same string.
func consensusView(n *simnode.Node, back, ahead int) string {
	out := map[string]any{}
	pr := n.Cons.FrontierPillarReader()
	func() {
		defer func() {
			if p := recover(); p != nil {
				out["weights_panic"] = fmt.Sprint(p)
			}
		}()
		w, err := pr.GetPillarWeights()
		out["weights"] = w
		if err != nil {
			out["weights_err"] = err.Error()
		}
	}()
	fr := n.Frontier()
	func() {
		defer func() {
			if p := recover(); p != nil {
				out["epoch_panic"] = fmt.Sprint(p)
			}
		}()
		cur := pr.EpochTicker().ToTick(*fr.Timestamp)
		stats := map[string]any{}
		for e := uint64(0); e <= cur; e++ { // incl. the running epoch (what the RPC consensus cache asks for)
			s, err := pr.EpochStats(e)
			if err != nil {
				stats[fmt.Sprintf("%d_err", e)] = err.Error()
			}
			stats[fmt.Sprintf("%d", e)] = s
			d, err := pr.GetPillarDelegationsByEpoch(e)
			if err != nil {
				stats[fmt.Sprintf("%d_deleg_err", e)] = err.Error()
			}
			stats[fmt.Sprintf("%d_deleg", e)] = d
		}
		out["epochs"] = stats
	}()
	prod := []string{}
	for i := -back; i <= ahead; i++ {
		ts := fr.Timestamp.Add(time.Duration(i*10) * time.Second)
		if ts.Unix() <= 1000000000 {
			continue
		}
		p, err := n.Cons.GetMomentumProducer(ts)
		if err != nil {
			prod = append(prod, fmt.Sprintf("%d:err", ts.Unix()))
		} else {
			prod = append(prod, fmt.Sprintf("%d:%s", ts.Unix(), p.String()[:10]))
		}
	}
	out["producers"] = prod
	b, _ := json.Marshal(out)
	return string(b)
}

func sortBlocks(bs []*nom.AccountBlock) {
	sort.Slice(bs, func(i, j int) bool {
		if c := bytes.Compare(bs[i].Address[:], bs[j].Address[:]); c != 0 {
			return c < 0
		}
		if bs[i].Height != bs[j].Height {
			return bs[i].Height < bs[j].Height
		}
		return bytes.Compare(bs[i].Hash[:], bs[j].Hash[:]) < 0
	})
}

type chooser interface{ Choose(int) int }

func wlAmount(t chooser) *big.Int {
	return big.NewInt(int64(1+t.Choose(50)) * 100000000)
}
func wlAmountQsr() *big.Int { return big.NewInt(20 * 100000000) }
func fuseData(beneficiary types.Address) []byte {
	return definition.ABIPlasma.PackMethodPanic(definition.FuseMethodName, beneficiary)
}

// poolPriorityRefusal: the block is valid but the receiving pool already holds a sibling of the same
// account and height that wins the priority rule (two reorganised nodes may hold different valid siblings).
func poolPriorityRefusal(err error) bool {
	return err != nil && (strings.Contains(err.Error(), chain.ErrHashTieBreak.Error()) || strings.Contains(err.Error(), chain.ErrPlasmaRatioIsWorse.Error()))
}
