package checks

// C15 adversary: message generators driven by the tape.

import (
	"bytes"
	"encoding/binary"
	"fmt"
	"math/big"
	"os"
	"sort"
	"time"

	"github.com/ethereum/go-ethereum/rlp"

	"github.com/zenon-network/go-zenon/chain/nom"
	"github.com/zenon-network/go-zenon/common/types"
)

type c15Action struct {
	class       string // hostile-wellformed | mutated | random-bytes | oversize-declared | answer
	code        uint64
	size        uint32 // declared size
	data        []byte // payload head
	total       int64  // bytes actually supplied (>= len(data): the rest is filler)
	desc        string
	validStatus bool
}

func c15Act(class string, code uint64, data []byte, desc string) *c15Action {
	return &c15Action{class: class, code: code, size: uint32(len(data)), data: data, total: int64(len(data)), desc: desc}
}

// bulk pseudo-random bytes: a function of one tape draw, not of the tape length
func (e *c15Env) rnd() uint64 {
	e.prng += 0x9e3779b97f4a7c15
	z := e.prng
	z = (z ^ (z >> 30)) * 0xbf58476d1ce4e5b9
	z = (z ^ (z >> 27)) * 0x94d049bb133111eb
	return z ^ (z >> 31)
}

func (e *c15Env) rndBytes(n int) []byte {
	out := make([]byte, n)
	for i := 0; i < n; i += 8 {
		var b [8]byte
		binary.LittleEndian.PutUint64(b[:], e.rnd())
		copy(out[i:], b[:])
	}
	return out
}

func (e *c15Env) junkHash() types.Hash {
	var h types.Hash
	copy(h[:], e.rndBytes(32))
	return h
}

// pickHash: 0 unknown, 1 zero, 2 frontier, 3 middle, 4 first, 5 donor future, 6 forged
func (e *c15Env) pickHash() (types.Hash, string) {
	t := e.r.T
	qh := e.q.Height()
	switch t.Choose(7) {
	case 0:
		return e.junkHash(), "unknown"
	case 1:
		return types.Hash{}, "zero"
	case 2:
		return e.canon(qh), "frontier"
	case 3:
		h := uint64(1 + t.Choose(int(qh)))
		return e.canon(h), fmt.Sprintf("known@%d", h)
	case 4:
		return e.canon(1), "genesis"
	case 5:
		if e.n0+e.k > qh {
			h := qh + 1 + uint64(t.Choose(int(e.n0+e.k-qh)))
			return e.canon(h), fmt.Sprintf("future@%d", h)
		}
		return e.junkHash(), "unknown"
	default:
		hs := e.forgedHashes()
		if len(hs) > 0 {
			return hs[t.Choose(len(hs))], "forged"
		}
		return e.junkHash(), "unknown"
	}
}

func (e *c15Env) forgedHashes() []types.Hash {
	var hs []types.Hash
	for h := range e.forged {
		hs = append(hs, h)
	}
	sort.Slice(hs, func(i, j int) bool { return bytes.Compare(hs[i][:], hs[j][:]) < 0 })
	return hs
}

func (e *c15Env) pickU64() uint64 {
	t := e.r.T
	qh := e.q.Height()
	switch t.Pick([]int{6, 3, 3, 3, 1, 1}) {
	case 0:
		return uint64(t.Choose(3))
	case 1:
		return uint64(511 + t.Choose(3))
	case 2:
		return qh - 1 + uint64(t.Choose(3))
	case 3:
		return []uint64{^uint64(0), ^uint64(0) - 1, 1 << 63, 1<<63 - 1, 1 << 32, ^uint64(0) - qh, ^uint64(0) - qh + 1}[t.Choose(7)]
	case 4:
		return uint64(t.Choose(int(qh) + 40))
	default:
		return t.Uint64()
	}
}

func (e *c15Env) pickCount() int {
	t := e.r.T
	c := []int{0, 1, 2, 3, 127, 128, 129, 200, 257, 511, 512, 513, 600, 5000, 20000}[t.Choose(15)]
	if c == 5000 && e.r.Tier == "thorough" && t.Choose(4) == 0 {
		c = 100000
	}
	return c
}

func (e *c15Env) forge(height uint64, prev types.Hash) *nom.DetailedMomentum {
	m := &nom.Momentum{Version: 1, ChainIdentifier: e.netID, PreviousHash: prev, Height: height,
		TimestampUnix: uint64(time.Now().Unix()), Data: []byte{}, Content: nom.MomentumContent{},
		PublicKey: e.rndBytes(32), Signature: e.rndBytes(64)}
	m.Hash = m.ComputeHash()
	d := &nom.DetailedMomentum{Momentum: m, AccountBlocks: []*nom.AccountBlock{}}
	e.forged[m.Hash] = d
	return d
}

func c15Clone(d *nom.DetailedMomentum) *nom.DetailedMomentum {
	var out *nom.DetailedMomentum
	if err := rlp.DecodeBytes(c15Enc(d), &out); err != nil {
		panic(err)
	}
	return out
}

func c15CloneBlock(b *nom.AccountBlock) *nom.AccountBlock {
	var out *nom.AccountBlock
	if err := rlp.DecodeBytes(c15Enc(b), &out); err != nil {
		panic(err)
	}
	return out
}

// hostile momentum: a real one (known or from the donor's future) with a
// tape-chosen defect, or a forgery at a tape-chosen height.
func (e *c15Env) hostileMomentum(maxHeight uint64) (*nom.DetailedMomentum, string) {
	t := e.r.T
	qh := e.q.Height()
	top := e.n0 + e.k
	if top > maxHeight {
		top = maxHeight
	}
	pickReal := func() uint64 {
		switch t.Choose(4) {
		case 0:
			if top > qh {
				return qh + 1
			}
		case 1:
			if top > qh+1 {
				return qh + 2 + uint64(t.Choose(int(top-qh-1)))
			}
		case 2:
			return qh
		}
		return uint64(2 + t.Choose(int(qh-1)))
	}
	forgedHeight := func() uint64 {
		hs := []uint64{0, 1, qh - 8, qh - 1, qh, qh + 1, qh + 2, qh + 33, qh + 1000, 1 << 63, ^uint64(0)}
		h := hs[t.Choose(len(hs))]
		if h > maxHeight {
			h = hs[t.Choose(5)]
		}
		if h > maxHeight {
			h = maxHeight
		}
		return h
	}
	switch t.Choose(9) {
	case 0:
		h := pickReal()
		return e.p.Detailed(h), fmt.Sprintf("real@%d", h)
	case 1:
		h := pickReal()
		d := c15Clone(e.p.Detailed(h))
		d.Momentum.Height = forgedHeight()
		return d, fmt.Sprintf("real@%d-claiming-height-%d", h, d.Momentum.Height)
	case 2:
		h := pickReal()
		d := c15Clone(e.p.Detailed(h))
		d.Momentum.PreviousHash, _ = e.pickHash()
		return d, fmt.Sprintf("real@%d-other-previous", h)
	case 3:
		h := pickReal()
		d := c15Clone(e.p.Detailed(h))
		d.Momentum.Data = append(d.Momentum.Data, 1)
		d.Momentum.Hash = d.Momentum.ComputeHash()
		return d, fmt.Sprintf("real@%d-data-changed-rehashed", h)
	case 4:
		h := pickReal()
		d := c15Clone(e.p.Detailed(h))
		if len(d.AccountBlocks) > 0 {
			d.AccountBlocks = d.AccountBlocks[1:]
		} else {
			d.AccountBlocks = append(d.AccountBlocks, e.hostileBlock())
		}
		return d, fmt.Sprintf("real@%d-account-blocks-altered", h)
	case 5:
		h := pickReal()
		d := c15Clone(e.p.Detailed(h))
		if len(d.Momentum.Signature) > 0 {
			d.Momentum.Signature[0] ^= 1
		}
		return d, fmt.Sprintf("real@%d-signature-flipped", h)
	case 6:
		hh := forgedHeight()
		prev, pd := e.pickHash()
		return e.forge(hh, prev), fmt.Sprintf("forged@%d-prev-%s", hh, pd)
	case 7:
		// forged child of the frontier / of a recent block
		back := uint64(t.Choose(9))
		if back >= qh {
			back = 0
		}
		hh := qh - back + 1
		if hh > maxHeight {
			hh = maxHeight
		}
		return e.forge(hh, e.canon(hh-1)), fmt.Sprintf("forged-child@%d", hh)
	default:
		// a known block's hash on a forged body
		d := e.forge(forgedHeight(), e.junkHash())
		delete(e.forged, d.Momentum.Hash)
		d.Momentum.Hash, _ = e.pickHash()
		return d, fmt.Sprintf("forged@%d-claiming-hash", d.Momentum.Height)
	}
}

// realBlocks are account blocks the donor holds beyond Q's frontier (valid news).
func (e *c15Env) realBlocks() []*nom.AccountBlock {
	var out []*nom.AccountBlock
	qh := e.q.Height()
	for h := qh + 1; h <= e.n0+e.k && len(out) < 12; h++ {
		out = append(out, e.p.Detailed(h).AccountBlocks...)
	}
	// the pool lists its blocks in map order
	pool := e.p.Chain.GetAllUncommittedAccountBlocks()
	sort.Slice(pool, func(i, j int) bool { return bytes.Compare(pool[i].Hash[:], pool[j].Hash[:]) < 0 })
	out = append(out, pool...)
	if len(out) == 0 {
		for h := qh; h >= 2 && len(out) < 4; h-- {
			out = append(out, e.p.Detailed(h).AccountBlocks...)
		}
	}
	return out
}

func (e *c15Env) hostileBlock() *nom.AccountBlock {
	t := e.r.T
	real := e.realBlocks()
	var base *nom.AccountBlock
	if len(real) > 0 {
		base = c15CloneBlock(real[t.Choose(len(real))])
	}
	v := t.Choose(7)
	if base == nil && v < 5 {
		v = 5
	}
	switch v {
	case 0:
		return base
	case 1:
		if len(base.Signature) > 0 {
			base.Signature[len(base.Signature)-1] ^= 0x40
		}
		return base
	case 2:
		base.Height += uint64(t.Choose(3))
		base.Data = append(base.Data, 7)
		return base
	case 3:
		base.Hash = e.junkHash()
		return base
	case 4:
		base.Height = e.pickU64()
		base.Hash = base.ComputeHash()
		return base
	case 5:
		b := &nom.AccountBlock{Version: 1, ChainIdentifier: e.netID, BlockType: uint64(t.Choose(8)), Height: e.pickU64(),
			Data: e.rndBytes(t.Choose(64)), PublicKey: e.rndBytes(32), Signature: e.rndBytes(64), FusedPlasma: e.pickU64(), Difficulty: e.pickU64()}
		copy(b.Address[:], e.rndBytes(len(b.Address)))
		copy(b.ToAddress[:], e.rndBytes(len(b.ToAddress)))
		b.MomentumAcknowledged = types.HashHeight{Hash: e.canon(e.q.Height()), Height: e.q.Height()}
		b.Hash = b.ComputeHash()
		return b
	default:
		// descendant nesting
		depth := []int{1, 5, 50, 400}[t.Choose(4)]
		if e.r.Tier == "thorough" && t.Choose(4) == 0 {
			depth = 5000
		}
		leaf := &nom.AccountBlock{Version: 1, ChainIdentifier: e.netID, BlockType: nom.BlockTypeContractSend, Height: 1}
		cur := leaf
		for i := 0; i < depth; i++ {
			cur = &nom.AccountBlock{Version: 1, ChainIdentifier: e.netID, BlockType: uint64(2 + t.Choose(4)), Height: uint64(i + 2), DescendantBlocks: []*nom.AccountBlock{cur}}
		}
		if base != nil {
			base.DescendantBlocks = []*nom.AccountBlock{cur}
			return base
		}
		return cur
	}
}

// wellFormed builds a well-formed payload for one protocol code over hostile
// parameters. maxHeight limits momentum heights (serve shape: the adversary must
// not become a sync origin, see runC15).
func (e *c15Env) wellFormed(adv *c15Peer, code uint64) *c15Action {
	t := e.r.T
	qh := e.q.Height()
	maxHeight := ^uint64(0)
	if !e.shapeD {
		maxHeight = adv.td
		if !adv.sentStatus || maxHeight > qh {
			maxHeight = qh
		}
	}
	mk := func(v any, desc string) *c15Action {
		return c15Act("hostile-wellformed", code, c15Enc(v), c15Name(code)+"{"+desc+"}")
	}
	hashList := func() ([]types.Hash, string) {
		n := e.pickCount()
		mode := t.Choose(4)
		hs := make([]types.Hash, 0, n)
		start := uint64(1 + t.Choose(int(qh)))
		for i := 0; i < n; i++ {
			switch mode {
			case 0: // unknown
				hs = append(hs, e.junkHash())
			case 1: // known, walking up the chain and wrapping
				hs = append(hs, e.canon(2+(start+uint64(i))%(qh-1)))
			case 2: // one known hash repeated
				hs = append(hs, e.canon(start))
			default:
				if i%3 == 0 {
					hs = append(hs, e.junkHash())
				} else {
					h, _ := e.pickHash()
					hs = append(hs, h)
				}
			}
		}
		return hs, fmt.Sprintf("%d hashes mode %d", n, mode)
	}
	switch code {
	case c15Status:
		st := c15StatusData{61, uint32(e.netID), qh, e.canon(qh), e.genesis}
		desc := "valid"
		switch t.Choose(8) {
		case 1:
			st.ProtocolVersion = []uint32{60, 62, 0, ^uint32(0)}[t.Choose(4)]
			desc = fmt.Sprintf("version %d", st.ProtocolVersion)
		case 2:
			st.NetworkId = []uint32{uint32(e.netID) + 1, 0, ^uint32(0)}[t.Choose(3)]
			desc = fmt.Sprintf("network %d", st.NetworkId)
		case 3:
			st.GenesisBlock, desc = e.pickHash()
			desc = "genesis " + desc
		case 4:
			st.CurrentBlock, desc = e.pickHash()
			desc = "head " + desc
		case 5, 6:
			st.TD = e.pickU64()
			st.CurrentBlock, desc = e.pickHash()
			desc = fmt.Sprintf("td %d head %s", st.TD, desc)
		case 7:
			if e.k > 0 {
				st.TD = e.n0 + e.k
				st.CurrentBlock = e.canon(st.TD)
				desc = fmt.Sprintf("td %d head donor-frontier", st.TD)
			}
		}
		if st.TD > maxHeight {
			st.TD = maxHeight
			desc += " (td clamped: serve shape)"
		}
		a := mk(&st, desc)
		a.validStatus = st.ProtocolVersion == 61 && uint64(st.NetworkId) == e.netID && st.GenesisBlock == e.genesis
		return a
	case c15NewBlockHashes, c15BlockHashes, c15GetBlocks:
		hs, desc := hashList()
		return mk(hs, desc)
	case c15Tx:
		if t.Choose(6) == 0 {
			// a double spend: two valid, correctly signed blocks of one funded account on the same
			// previous block, sent as a, b, a - the pool keeps one and refuses the other
			u := e.w.Users[t.Choose(len(e.w.Users))]
			o := e.w.Users[t.Choose(len(e.w.Users))]
			mkb := func(amount int64) *nom.AccountBlock {
				tx, err := e.q.Sup.GenerateFromTemplate(&nom.AccountBlock{BlockType: nom.BlockTypeUserSend, Address: u.Address, ToAddress: o.Address,
					TokenStandard: types.ZnnTokenStandard, Amount: big.NewInt(amount)}, u.Signer)
				if err != nil || tx == nil {
					return nil
				}
				return tx.Block
			}
			a, b := mkb(int64(1+t.Choose(1000))), mkb(int64(2000+t.Choose(1000)))
			if a != nil && b != nil {
				e.pmu.Lock()
				e.pKnown[a.Hash], e.pKnown[b.Hash] = true, true
				e.pmu.Unlock()
				e.r.Probe("double-spend-pair-sent")
				return mk([]*nom.AccountBlock{a, b, c15CloneBlock(a)}, "double spend a,b,a of "+u.Address.String()[:10])
			}
		}
		n := []int{0, 1, 1, 2, 5, 40}[t.Choose(6)]
		bs := []*nom.AccountBlock{}
		for i := 0; i < n; i++ {
			bs = append(bs, e.hostileBlock())
		}
		return mk(bs, fmt.Sprintf("%d blocks", n))
	case c15GetBlockHashes:
		h, hd := e.pickHash()
		amt := e.pickU64()
		if t.Choose(3) == 0 {
			// a known origin near the head with an amount around and beyond the cap
			back := uint64(t.Choose(3))
			h, hd = e.canon(qh-back), fmt.Sprintf("known@%d", qh-back)
			amt = []uint64{513, 512, 600, 1 << 63, ^uint64(0), 0, 1}[t.Choose(7)]
		}
		return mk(&c15GetHashes{h, amt}, fmt.Sprintf("%s,%d", hd, amt))
	case c15GetBlockHashesFromNumber:
		num, amt := e.pickU64(), e.pickU64()
		if t.Bool() {
			// the corners of (number, amount)
			max := ^uint64(0)
			pairs := [][2]uint64{{0, 0}, {0, 1}, {1, 0}, {0, 512}, {1, 512}, {1, max}, {0, max}, {qh, 512}, {qh + 1, 1}, {qh, 0}, {max, 1}, {max, 2}, {max, 512}, {max - 510, 512}, {qh - 1, max}, {2, max - 1}}
			pr := pairs[t.Choose(len(pairs))]
			num, amt = pr[0], pr[1]
		}
		return mk(&c15GetHashesFromNumber{num, amt}, fmt.Sprintf("%d,%d", num, amt))
	case c15Blocks:
		n := []int{0, 1, 1, 2, 3, 130}[t.Choose(6)]
		ds := []*nom.DetailedMomentum{}
		desc := ""
		if t.Choose(3) == 0 && n > 0 {
			// a contiguous run of real blocks, possibly starting beyond frontier+1 (gap)
			from := uint64(2 + t.Choose(int(e.n0+e.k)))
			for h := from; h <= e.n0+e.k && h <= maxHeight && len(ds) < n; h++ {
				ds = append(ds, e.p.Detailed(h))
			}
			desc = fmt.Sprintf("%d real from %d", len(ds), from)
		} else {
			for i := 0; i < n; i++ {
				d, dd := e.hostileMomentum(maxHeight)
				ds = append(ds, d)
				if i < 3 {
					desc += dd + " "
				}
			}
			desc = fmt.Sprintf("%d: %s", n, desc)
		}
		return mk(ds, desc)
	case c15NewBlock:
		d, desc := e.hostileMomentum(maxHeight)
		return mk(d, desc)
	default:
		var body []byte
		if t.Bool() {
			body = c15Enc([]uint64{1, 2, 3})
		}
		a := c15Act("hostile-wellformed", code, body, fmt.Sprintf("code %d with %d bytes", code, len(body)))
		return a
	}
}

func (e *c15Env) pickCode() uint64 {
	t := e.r.T
	// the nine codes (requests a little more often) and unknown codes
	c := t.Pick([]int{2, 2, 2, 3, 2, 3, 2, 2, 3, 1})
	if c <= 8 {
		return uint64(c)
	}
	return []uint64{9, 10, 15, 16, 17, 255, 1 << 32, ^uint64(0)}[t.Choose(8)]
}

// mutate damages a well-formed payload.
func (e *c15Env) mutate(a *c15Action) {
	t := e.r.T
	a.class = "mutated"
	b := append([]byte(nil), a.data...)
	m := t.Choose(14)
	switch m {
	case 0: // byte flips
		for i := 0; i <= t.Choose(3) && len(b) > 0; i++ {
			b[t.Choose(len(b))] ^= byte(1 << t.Choose(8))
		}
		a.desc += " +flip"
	case 1:
		if len(b) > 0 {
			b = b[:t.Choose(len(b))]
		}
		a.desc += fmt.Sprintf(" +truncated to %d", len(b))
	case 2:
		if len(b) > 0 && t.Bool() {
			b = b[1:]
			a.desc += " +first byte dropped"
		} else {
			b = append([]byte{0xc1}, b...)
			a.desc += " +spurious list header"
		}
	case 3: // huge length prefixes
		pre := [][]byte{
			{0xff, 0xff, 0xff, 0xff, 0xff, 0xff, 0xff, 0xff, 0xff},
			{0xbf, 0xff, 0xff, 0xff, 0xff, 0xff, 0xff, 0xff, 0xff},
			{0xfb, 0xff, 0xff, 0xff, 0xff},
			{0xfa, 0x00, 0xa0, 0x00, 0x01},
			{0xf9, 0xff, 0xff},
			{0xbb, 0x7f, 0xff, 0xff, 0xff},
		}[t.Choose(6)]
		if len(b) > 0 {
			b = b[1:]
		}
		b = append(append([]byte(nil), pre...), b...)
		a.desc += fmt.Sprintf(" +length prefix %x", pre)
	case 4: // deep nesting
		d := []int{1, 3, 100, 10000}[t.Choose(4)]
		if e.r.Tier == "thorough" && t.Choose(4) == 0 {
			d = 1000000
		}
		inner := b
		if t.Bool() {
			inner = nil
		}
		b = c15Nest(inner, d)
		a.desc += fmt.Sprintf(" +nested %d deep", d)
	case 5: // wrong kind: the whole payload as one RLP string
		b = c15Enc(b)
		a.desc += " +as string"
	case 6:
		b = append(b, e.rndBytes(1+t.Choose(40))...)
		a.desc += " +trailing bytes"
	case 7: // declared size lies (within the limit)
		switch t.Choose(4) {
		case 0:
			if len(b) > 0 {
				a.size = uint32(len(b) - 1)
			}
		case 1:
			a.size = uint32(len(b) + 1)
		case 2:
			a.size = uint32(2*len(b) + 100)
		default:
			a.size = 0
		}
		a.desc += fmt.Sprintf(" +declared size %d for %d bytes", a.size, len(b))
		a.data, a.total = b, int64(len(b))
		return
	case 8, 9: // declared beyond 10 MiB, short payload
		a.class = "oversize-declared"
		a.size = []uint32{c15MaxMsg + 1, c15MaxMsg + 4096, 1 << 24, 1 << 31, ^uint32(0)}[t.Choose(5)]
		a.desc += fmt.Sprintf(" +declared size %d for %d bytes", a.size, len(b))
		a.data, a.total = b, int64(len(b))
		return
	case 10: // really beyond 10 MiB
		a.class = "oversize-declared"
		a.size = c15MaxMsg + 1 + uint32(t.Choose(3))*4096
		a.data, a.total = b, int64(a.size)
		a.desc += fmt.Sprintf(" +padded to %d bytes", a.size)
		return
	case 11: // exactly at the limit: allowed size, valid head, filler behind
		a.size = c15MaxMsg - uint32(t.Choose(2))
		a.data, a.total = b, int64(a.size)
		a.desc += fmt.Sprintf(" +padded to %d bytes", a.size)
		return
	case 12: // a list header that promises exactly the limit, over filler
		a.size = c15MaxMsg
		hdr := []byte{0xfa, 0, 0, 0}
		n := uint32(c15MaxMsg - 4)
		hdr[1], hdr[2], hdr[3] = byte(n>>16), byte(n>>8), byte(n)
		a.data, a.total = hdr, int64(a.size)
		a.desc += " +10 MiB list of filler"
		return
	default: // empty payload
		b = nil
		a.desc += " +emptied"
	}
	a.data, a.size, a.total = b, uint32(len(b)), int64(len(b))
}

func c15Nest(inner []byte, depth int) []byte {
	// list headers from the inside out (each depends only on the length it
	// wraps), then one buffer: outermost header first
	hdrs := make([][]byte, 0, depth)
	n := len(inner)
	for i := 0; i < depth && n <= 4<<20; i++ {
		var hdr []byte
		if n < 56 {
			hdr = []byte{0xc0 + byte(n)}
		} else {
			var lb [8]byte
			binary.BigEndian.PutUint64(lb[:], uint64(n))
			k := 0
			for lb[k] == 0 {
				k++
			}
			hdr = append([]byte{0xf7 + byte(8-k)}, lb[k:]...)
		}
		hdrs = append(hdrs, hdr)
		n += len(hdr)
	}
	out := make([]byte, 0, n)
	for i := len(hdrs) - 1; i >= 0; i-- {
		out = append(out, hdrs[i]...)
	}
	return append(out, inner...)
}

func (e *c15Env) randomBytes(code uint64) *c15Action {
	t := e.r.T
	n := []int{0, 1, 2, 3, 9, 33, 100, 1000, 65536}[t.Choose(9)]
	var b []byte
	if n <= 33 {
		b = t.Bytes(n)
	} else {
		b = e.rndBytes(n)
	}
	return c15Act("random-bytes", code, b, fmt.Sprintf("%s{%d random bytes}", c15Name(code), n))
}

// ---- reactive part (download shape): answers to what the node asked ----

func c15ReqKey(m *c15Msg) string { return fmt.Sprintf("%d/%x", m.code, m.data) }

// answer builds a reply to one of the node's outstanding requests.
func (e *c15Env) answer(adv *c15Peer) *c15Action {
	t := e.r.T
	reqs := append([]*c15Msg(nil), adv.pendingReq...)
	sort.SliceStable(reqs, func(i, j int) bool { return c15ReqKey(reqs[i]) < c15ReqKey(reqs[j]) })
	req := reqs[t.Choose(len(reqs))]
	// drop it from the pending list
	for i, m := range adv.pendingReq {
		if m == req {
			adv.pendingReq = append(adv.pendingReq[:i:i], adv.pendingReq[i+1:]...)
			break
		}
	}
	qh := e.q.Height()
	top := e.n0 + e.k
	follow := e.plan != 0 && (e.strict || t.Choose(8) != 7)
	switch req.code {
	case c15GetBlockHashesFromNumber, c15GetBlockHashes:
		var from, amount uint64 = 0, 512
		if req.code == c15GetBlockHashesFromNumber {
			var r c15GetHashesFromNumber
			rlp.DecodeBytes(req.data, &r)
			from, amount = r.Number, r.Amount
		}
		isAncestorProbe := req.code == c15GetBlockHashesFromNumber && amount == 512 && ((qh > 512 && from == qh-512) || (qh <= 512 && from == 0))
		isSearchProbe := req.code == c15GetBlockHashesFromNumber && amount == 1
		strat := t.Choose(8)
		if follow {
			switch e.plan {
			case 1: // root attack: deny any common ancestor, then feed a forged chain from the asked height
				if isAncestorProbe || isSearchProbe {
					strat = 3
				} else {
					strat = 4
				}
			case 2: // faithful relay of the donor chain
				strat = 0
			case 3: // honest ancestor search, then a forged continuation
				if isAncestorProbe || isSearchProbe {
					strat = 0
				} else {
					strat = 4
				}
			}
		}
		var hs []types.Hash
		desc := ""
		switch strat {
		case 0: // faithful, from the donor chain
			hs = e.refHashes(from, amount, top)
			desc = fmt.Sprintf("faithful %d hashes from %d", len(hs), from)
		case 1: // the node's own frontier hash placed so that it looks like height qh+gap
			g := e.gap
			n := int(qh + g - from)
			if qh+g < from || n > 4096 {
				n = 0
			}
			for i := 0; i < n; i++ {
				hs = append(hs, e.junkHash())
			}
			hs = append(hs, e.canon(qh))
			desc = fmt.Sprintf("frontier hash at index %d (claims ancestor height %d, frontier is %d)", n, from+uint64(n), qh)
		case 2:
			desc = "empty"
		case 3:
			n := e.pickCount()
			if follow || isSearchProbe {
				n = 1
			}
			for i := 0; i < n; i++ {
				hs = append(hs, e.junkHash())
			}
			desc = fmt.Sprintf("%d unknown hashes", n)
		case 7: // a known hash that belongs to another height
			at := uint64(1 + t.Choose(int(qh)))
			hs = append(hs, e.canon(at))
			desc = fmt.Sprintf("the hash of height %d", at)
		case 4: // forged chain starting at the asked height
			n := 1 + t.Choose(3)
			prev := e.canon(qh)
			for i := 0; i < n; i++ {
				d := e.forge(from+uint64(i), prev)
				prev = d.Momentum.Hash
				hs = append(hs, d.Momentum.Hash)
			}
			desc = fmt.Sprintf("%d forged hashes for heights from %d", n, from)
		case 5: // known hashes only
			for h := uint64(1); h <= qh && len(hs) < 600; h++ {
				hs = append(hs, e.canon(h))
			}
			desc = fmt.Sprintf("%d known hashes", len(hs))
		default: // donor hashes with a hole
			for h := from + 1; h <= top && len(hs) < 512; h++ {
				hs = append(hs, e.canon(h))
			}
			desc = fmt.Sprintf("%d donor hashes skipping %d", len(hs), from)
		}
		if hs == nil {
			hs = []types.Hash{}
		}
		return c15Act("answer", c15BlockHashes, c15Enc(hs), fmt.Sprintf("BlockHashesMsg answering %s{%d,%d}: %s", c15Name(req.code), from, amount, desc))
	default: // GetBlocks
		var asked []types.Hash
		rlp.DecodeBytes(req.data, &asked)
		sort.Slice(asked, func(i, j int) bool { return bytes.Compare(asked[i][:], asked[j][:]) < 0 })
		var have []*nom.DetailedMomentum
		for _, h := range asked {
			if d := e.forged[h]; d != nil {
				have = append(have, d)
			} else if d := e.p.Bridge.GetBlock(h); d != nil && d.Momentum.Height > 1 {
				have = append(have, d)
			}
		}
		sort.SliceStable(have, func(i, j int) bool { return have[i].Momentum.Height < have[j].Momentum.Height })
		strat := t.Choose(7)
		if follow {
			strat = 0
		}
		ds := []*nom.DetailedMomentum{}
		desc := ""
		switch strat {
		case 0:
			ds = append(ds, have...)
			desc = fmt.Sprintf("faithful %d of %d", len(ds), len(asked))
		case 1:
			desc = "empty"
		case 2:
			for i := 0; i < 1+t.Choose(3); i++ {
				d, _ := e.hostileMomentum(^uint64(0))
				ds = append(ds, d)
			}
			desc = fmt.Sprintf("%d blocks that were not asked for", len(ds))
		case 3:
			if len(have) > 1 {
				ds = append(ds, have[1:]...)
			}
			desc = fmt.Sprintf("first one withheld, %d delivered", len(ds))
		case 4:
			mode := t.Choose(3)
			for _, d := range have {
				c := c15Clone(d)
				switch mode {
				case 0:
					c.Momentum.Height = e.pickU64()
				case 1: // all far below where the sync started
					c.Momentum.Height = uint64(t.Choose(3))
				default: // all shifted down by the same distance
					if k := uint64(1 + t.Choose(int(e.q.Height())+2)); c.Momentum.Height > k {
						c.Momentum.Height -= k
					} else {
						c.Momentum.Height = 0
					}
				}
				ds = append(ds, c)
			}
			desc = fmt.Sprintf("%d asked blocks with other heights (mode %d)", len(ds), mode)
		case 5:
			for _, d := range have {
				c := c15Clone(d)
				c.AccountBlocks = append(c.AccountBlocks, e.hostileBlock())
				ds = append(ds, c)
			}
			desc = fmt.Sprintf("%d asked blocks with extra account blocks", len(ds))
		default:
			for i := len(have) - 1; i >= 0; i-- {
				ds = append(ds, have[i], have[i])
			}
			desc = fmt.Sprintf("%d asked blocks reversed and doubled", len(ds))
		}
		return c15Act("answer", c15Blocks, c15Enc(ds), fmt.Sprintf("BlocksMsg answering GetBlocks{%d}: %s", len(asked), desc))
	}
}

// C15_LIVE_FIRE=GetBlockHashes|InsertChain|all injects even the messages that
// pre-validation found to kill the process (used to confirm that the worker
// really dies at that site).
var c15LiveFire = os.Getenv("C15_LIVE_FIRE")

// C15_ECHO=1 copies the check's log lines to stderr as they are written.
var c15Echo = os.Getenv("C15_ECHO") == "1"
