package checks

import (
	"bytes"
	"crypto/sha256"
	"fmt"
	"math/big"

	"golang.org/x/crypto/sha3"

	"github.com/zenon-network/go-zenon/chain/nom"
	"github.com/zenon-network/go-zenon/chain/store"
	"github.com/zenon-network/go-zenon/common"
	"github.com/zenon-network/go-zenon/common/types"
	"github.com/zenon-network/go-zenon/vm/constants"
	"github.com/zenon-network/go-zenon/vm/embedded/definition"

	"verif/sim/nomsim"
	"verif/sim/oracle"
	"verif/sim/simnode"
	"verif/sim/simrt"
)

func init() { register("C10", runC10) }

type lockEntry struct {
	kind        string   // stake | fusion | htlc | pillar | sentinel
	qsr         *big.Int // sentinel: the QSR part of the collateral
	regTime     int64    // pillar, sentinel: registration time (the revoke windows repeat from it)
	owner       types.Address
	beneficiary types.Address // htlc: hash-locked party
	amount      *big.Int
	zts         types.ZenonTokenStandard
	unlockTime  int64  // stake: earliest cancel; htlc: expiration
	unlockH     uint64 // fusion: earliest cancel height
	hashType    uint8
	keyMax      uint8
	lock        []byte
	paid        bool
}

type lockModel struct {
	entries map[types.Hash]*lockEntry
	// pillar collateral by pillar name, sentinel collateral by owner (kind "pillar" / "sentinel")
	pillars   map[string]*lockEntry
	sentinels map[types.Address]*lockEntry
	// QSR deposited and not yet withdrawn or consumed, per contract and depositor (an upper bound
	// of what a withdrawal may pay: registrations consume deposits)
	deposits map[types.Address]map[types.Address]*big.Int
	// explicit proxy-unlock choice per hash-locked address (absent = allowed)
	proxy         map[types.Address]bool
	everDeposited map[types.Address]bool
	// unwrap requests of the bridge (c10_bridge.go); nil when the run does not exercise the bridge
	bridge *bridgeModel
}

func sub(a, b *big.Int) *big.Int { return new(big.Int).Sub(a, b) }

// backing evaluates "liabilities <= balance" for every contract and token from
// the contract storages of one confirmed view.
func backing(r *simrt.Run, n *simnode.Node, ms store.Momentum, accounts []types.Address, htlcIds []types.Hash, fusionOffset map[types.Address]*big.Int, h uint64) {
	bal := func(c types.Address, z types.ZenonTokenStandard) *big.Int {
		b, err := ms.GetAccountStore(c).GetBalance(z)
		if err != nil || b == nil {
			return new(big.Int)
		}
		return b
	}
	need := func(contract string, c types.Address, z types.ZenonTokenStandard, owed *big.Int) {
		if have := bal(c, z); owed.Cmp(have) > 0 {
			r.Fail("liabilities-exceed-balance", contract, "momentum %d: the %s contract owes %v of %v but holds %v", h, contract, owed, z, have)
		}
	}
	// stake
	owed := new(big.Int)
	definition.IterateStakeEntries(ms.GetAccountStore(types.StakeContract).Storage(), func(e *definition.StakeInfo) error {
		owed.Add(owed, e.Amount)
		return nil
	})
	need("stake", types.StakeContract, types.ZnnTokenStandard, owed)
	// plasma: entries, and the per-beneficiary totals
	pst := ms.GetAccountStore(types.PlasmaContract).Storage()
	owed = new(big.Int)
	perBen := map[types.Address]*big.Int{}
	for _, o := range accounts {
		list, _, err := definition.GetFusionInfoListByOwner(pst, o)
		if err != nil {
			continue
		}
		for _, e := range list {
			owed.Add(owed, e.Amount)
			if perBen[e.Beneficiary] == nil {
				perBen[e.Beneficiary] = new(big.Int)
			}
			perBen[e.Beneficiary].Add(perBen[e.Beneficiary], e.Amount)
		}
	}
	for _, off := range fusionOffset {
		owed.Add(owed, off)
	}
	need("plasma", types.PlasmaContract, types.QsrTokenStandard, owed)
	for _, b := range accounts {
		want := new(big.Int)
		if perBen[b] != nil {
			want.Add(want, perBen[b])
		}
		if fusionOffset[b] != nil {
			want.Add(want, fusionOffset[b])
		}
		got, err := ms.GetStakeBeneficialAmount(b)
		if err != nil {
			continue
		}
		if got.Cmp(want) != 0 {
			r.Fail("fused-total-mismatch", "plasma", "momentum %d: fused total of %v is %v but its fusion entries sum to %v", h, b, got, want)
		}
	}
	// htlc (entries are reachable by id only: the ids of all accepted Create calls)
	hst := ms.GetAccountStore(types.HtlcContract).Storage()
	perTok := map[types.ZenonTokenStandard]*big.Int{}
	for _, id := range htlcIds {
		e, err := definition.GetHtlcInfo(hst, id)
		if err != nil || e == nil {
			continue
		}
		if perTok[e.TokenStandard] == nil {
			perTok[e.TokenStandard] = new(big.Int)
		}
		perTok[e.TokenStandard].Add(perTok[e.TokenStandard], e.Amount)
	}
	for z, v := range perTok {
		need("htlc", types.HtlcContract, z, v)
	}
	// pillar: collateral of not revoked pillars + deposited QSR
	owed = new(big.Int)
	if ps, err := definition.GetPillarsList(ms.GetAccountStore(types.PillarContract).Storage(), true, definition.AnyPillarType); err == nil {
		for _, p := range ps {
			owed.Add(owed, p.Amount)
		}
	}
	need("pillar", types.PillarContract, types.ZnnTokenStandard, owed)
	deposits := func(c types.Address) *big.Int {
		sum := new(big.Int)
		st := ms.GetAccountStore(c).Storage()
		for _, a := range accounts {
			a := a
			if d, err := definition.GetQsrDeposit(st, &a); err == nil && d != nil && d.Qsr != nil {
				sum.Add(sum, d.Qsr)
			}
		}
		return sum
	}
	need("pillar-qsr-deposits", types.PillarContract, types.QsrTokenStandard, deposits(types.PillarContract))
	// sentinel
	znn, qsr := new(big.Int), deposits(types.SentinelContract)
	func() {
		defer func() { recover() }() // listing tolerates nothing on some trees (see C06); backing of the rest is still judged
		definition.IterateSentinelEntries(ms.GetAccountStore(types.SentinelContract).Storage(), func(s *definition.SentinelInfo) error {
			znn.Add(znn, s.ZnnAmount)
			qsr.Add(qsr, s.QsrAmount)
			return nil
		})
	}()
	need("sentinel", types.SentinelContract, types.ZnnTokenStandard, znn)
	need("sentinel-qsr", types.SentinelContract, types.QsrTokenStandard, qsr)
	// liquidity stake entries
	perTok = map[types.ZenonTokenStandard]*big.Int{}
	definition.IterateLiquidityStakeEntries(ms.GetAccountStore(types.LiquidityContract).Storage(), func(e *definition.LiquidityStakeEntry) error {
		if perTok[e.TokenStandard] == nil {
			perTok[e.TokenStandard] = new(big.Int)
		}
		perTok[e.TokenStandard].Add(perTok[e.TokenStandard], e.Amount)
		return nil
	})
	for z, v := range perTok {
		need("liquidity", types.LiquidityContract, z, v)
	}
	r.Probe("backing-evaluated")
}

func hashPreimage(hashType uint8, pre []byte) []byte {
	if hashType == definition.HashTypeSHA3 {
		s := sha3.Sum256(pre)
		return s[:]
	}
	s := sha256.Sum256(pre)
	return s[:]
}

// observe updates the model with one successful contract receive and judges the payouts it makes.
func (m *lockModel) observe(r *simrt.Run, ms store.Momentum, send, rcv *nom.AccountBlock, fuseExpiration uint64) {
	ack, err := ms.GetMomentumByHeight(rcv.MomentumAcknowledged.Height)
	if err != nil || ack == nil {
		r.Fail("ledger-scan", "missing-momentum", "no momentum %d", rcv.MomentumAcknowledged.Height)
	}
	now, height := int64(ack.TimestampUnix), ack.Height
	if m.bridge != nil && m.bridge.observe(r, height, send, rcv) {
		return
	}
	key := callKey(send)
	var pays []*nom.AccountBlock
	for _, d := range rcv.DescendantBlocks {
		if d.Amount.Sign() > 0 && !types.IsEmbeddedAddress(d.ToAddress) {
			pays = append(pays, d)
		}
	}
	pay := func(e *lockEntry, to types.Address, what string) {
		if e.paid {
			r.Fail("paid-twice", e.kind, "%s pays entry %v a second time", key, send.Hash)
		}
		if len(pays) != 1 || pays[0].ToAddress != to || pays[0].Amount.Cmp(e.amount) != 0 || pays[0].TokenStandard != e.zts {
			r.Fail("payout-wrong", e.kind, "%s (%s): expected exactly one payout of %v %v to %v, got %d payouts %v", key, what, e.amount, e.zts, to, len(pays), payStr(pays))
		}
		e.paid = true
		r.Probe("payout-judged-" + e.kind)
	}
	switch key {
	case "stake.Stake":
		var dur int64
		if definition.ABIStake.UnpackMethod(&dur, definition.StakeMethodName, send.Data) != nil {
			return
		}
		m.entries[send.Hash] = &lockEntry{kind: "stake", owner: send.Address, amount: new(big.Int).Set(send.Amount), zts: send.TokenStandard, unlockTime: now + dur}
	case "stake.Cancel":
		id := new(types.Hash)
		if definition.ABIStake.UnpackMethod(id, definition.CancelStakeMethodName, send.Data) != nil {
			return
		}
		e := m.entries[*id]
		if e == nil || e.kind != "stake" {
			if len(pays) > 0 {
				r.Fail("payout-unexplained", "stake", "Cancel of unknown stake %v pays %v", id, payStr(pays))
			}
			return
		}
		if e.paid {
			if len(pays) > 0 {
				r.Fail("paid-twice", "stake", "stake %v cancelled again pays %v", id, payStr(pays))
			}
			return
		}
		if send.Address != e.owner {
			r.Fail("released-to-wrong-party", "stake", "stake %v of %v cancelled by %v", id, e.owner, send.Address)
		}
		if now < e.unlockTime {
			r.Fail("released-early", "stake", "stake %v released at %d, %d s before its lock ends", id, now, e.unlockTime-now)
		}
		pay(e, e.owner, "cancel")
	case "plasma.Fuse":
		m.entries[send.Hash] = &lockEntry{kind: "fusion", owner: send.Address, amount: new(big.Int).Set(send.Amount), zts: send.TokenStandard, unlockH: height + fuseExpiration}
	case "plasma.CancelFuse":
		id := new(types.Hash)
		if definition.ABIPlasma.UnpackMethod(id, definition.CancelFuseMethodName, send.Data) != nil {
			return
		}
		e := m.entries[*id]
		if e == nil || e.kind != "fusion" {
			// genesis fusions are not modelled; they pay their owner
			r.Probe("cancel-of-unmodelled-fusion")
			return
		}
		if send.Address != e.owner {
			r.Fail("released-to-wrong-party", "fusion", "fusion %v of %v cancelled by %v", id, e.owner, send.Address)
		}
		if height < e.unlockH {
			r.Fail("released-early", "fusion", "fusion %v released at height %d, %d before its lock ends", id, height, e.unlockH-height)
		}
		pay(e, e.owner, "cancel")
	case "htlc.Create":
		p := new(definition.CreateHtlcParam)
		if definition.ABIHtlc.UnpackMethod(p, definition.CreateHtlcMethodName, send.Data) != nil {
			return
		}
		m.entries[send.Hash] = &lockEntry{kind: "htlc", owner: send.Address, beneficiary: p.HashLocked, amount: new(big.Int).Set(send.Amount), zts: send.TokenStandard,
			unlockTime: p.ExpirationTime, hashType: p.HashType, keyMax: p.KeyMaxSize, lock: p.HashLock}
	case "htlc.DenyProxyUnlock":
		m.proxy[send.Address] = false
	case "htlc.AllowProxyUnlock":
		m.proxy[send.Address] = true
	case "htlc.Unlock":
		p := new(definition.UnlockHtlcParam)
		if definition.ABIHtlc.UnpackMethod(p, definition.UnlockHtlcMethodName, send.Data) != nil {
			return
		}
		e := m.entries[p.Id]
		if e == nil || e.kind != "htlc" {
			if len(pays) > 0 {
				r.Fail("payout-unexplained", "htlc", "Unlock of unknown htlc pays %v", payStr(pays))
			}
			return
		}
		if now >= e.unlockTime {
			r.Fail("released-late", "htlc", "htlc %v unlocked at %d, at or after its expiry %d", p.Id, now, e.unlockTime)
		}
		if len(p.Preimage) > int(e.keyMax) || !bytes.Equal(hashPreimage(e.hashType, p.Preimage), e.lock) {
			r.Fail("released-without-preimage", "htlc", "htlc %v unlocked with a preimage that does not hash to its lock (or is longer than %d)", p.Id, e.keyMax)
		}
		if allowed, set := m.proxy[e.beneficiary]; send.Address != e.beneficiary && set && !allowed {
			r.Fail("released-to-wrong-party", "htlc-proxy", "htlc %v unlocked by %v although %v denied proxy unlocks", p.Id, send.Address, e.beneficiary)
		}
		pay(e, e.beneficiary, "unlock")
	case "htlc.Reclaim":
		id := new(types.Hash)
		if definition.ABIHtlc.UnpackMethod(id, definition.ReclaimHtlcMethodName, send.Data) != nil {
			return
		}
		e := m.entries[*id]
		if e == nil || e.kind != "htlc" {
			if len(pays) > 0 {
				r.Fail("payout-unexplained", "htlc", "Reclaim of unknown htlc pays %v", payStr(pays))
			}
			return
		}
		if send.Address != e.owner {
			r.Fail("released-to-wrong-party", "htlc", "htlc %v of %v reclaimed by %v", id, e.owner, send.Address)
		}
		if now < e.unlockTime {
			r.Fail("released-early", "htlc", "htlc %v reclaimed at %d, before its expiry %d", id, now, e.unlockTime)
		}
		pay(e, e.owner, "reclaim")
	case "pillar.Register", "pillar.RegisterLegacy":
		p := new(definition.RegisterParam)
		if key == "pillar.RegisterLegacy" {
			lp := new(definition.LegacyRegisterParam)
			if definition.ABIPillars.UnpackMethod(lp, definition.LegacyRegisterMethodName, send.Data) != nil {
				return
			}
			p = &lp.RegisterParam
		} else if definition.ABIPillars.UnpackMethod(p, definition.RegisterMethodName, send.Data) != nil {
			return
		}
		m.pillars[p.Name] = &lockEntry{kind: "pillar", owner: send.Address, amount: new(big.Int).Set(send.Amount), zts: send.TokenStandard, regTime: now}
		delete(m.deposits[types.PillarContract], send.Address) // the deposit is consumed (bound stays an upper bound)
	case "pillar.Revoke":
		name := new(string)
		if definition.ABIPillars.UnpackMethod(name, definition.RevokeMethodName, send.Data) != nil {
			return
		}
		e := m.pillars[*name]
		if e == nil {
			if len(pays) > 0 {
				r.Fail("payout-unexplained", "pillar", "Revoke of unknown pillar %q pays %v", *name, payStr(pays))
			}
			return
		}
		if e.paid {
			r.Fail("paid-twice", "pillar", "pillar %q, whose collateral was already released, is revoked again successfully and pays %v", *name, payStr(pays))
		}
		if send.Address != e.owner {
			r.Fail("released-to-wrong-party", "pillar", "pillar %q staked by %v revoked by %v", *name, e.owner, send.Address)
		}
		if at := (now - e.regTime) % (constants.PillarEpochLockTime + constants.PillarEpochRevokeTime); at < constants.PillarEpochLockTime {
			r.Fail("released-early", "pillar", "pillar %q revoked %d s into its cycle; the revoke window opens after %d s", *name, at, constants.PillarEpochLockTime)
		}
		pay(e, e.owner, "revoke")
	case "sentinel.Register":
		m.sentinels[send.Address] = &lockEntry{kind: "sentinel", owner: send.Address, amount: new(big.Int).Set(send.Amount), zts: send.TokenStandard,
			qsr: new(big.Int).Set(constants.SentinelQsrDepositAmount), regTime: now}
		delete(m.deposits[types.SentinelContract], send.Address)
	case "sentinel.Revoke":
		e := m.sentinels[send.Address]
		if e == nil {
			if len(pays) > 0 {
				r.Fail("payout-unexplained", "sentinel", "Revoke by %v, who holds no modelled sentinel, pays %v", send.Address, payStr(pays))
			}
			return
		}
		if e.paid {
			r.Fail("paid-twice", "sentinel", "the sentinel of %v is revoked again successfully and pays %v", send.Address, payStr(pays))
		}
		if at := (now - e.regTime) % (constants.SentinelLockTimeWindow + constants.SentinelRevokeTimeWindow); at < constants.SentinelLockTimeWindow {
			r.Fail("released-early", "sentinel", "sentinel of %v revoked %d s into its cycle; the revoke window opens after %d s", send.Address, at, constants.SentinelLockTimeWindow)
		}
		okPay := len(pays) == 2
		if okPay {
			z, q := pays[0], pays[1]
			if z.TokenStandard != types.ZnnTokenStandard {
				z, q = q, z
			}
			okPay = z.TokenStandard == types.ZnnTokenStandard && q.TokenStandard == types.QsrTokenStandard && z.ToAddress == e.owner && q.ToAddress == e.owner &&
				z.Amount.Cmp(e.amount) == 0 && q.Amount.Cmp(e.qsr) == 0
		}
		if !okPay {
			r.Fail("payout-wrong", "sentinel", "sentinel revoke: expected %v ZNN and %v QSR to %v, got %v", e.amount, e.qsr, e.owner, payStr(pays))
		}
		e.paid = true
		r.Probe("payout-judged-sentinel")
	case "pillar.DepositQsr", "sentinel.DepositQsr":
		if send.TokenStandard != types.QsrTokenStandard {
			return
		}
		if m.deposits[send.ToAddress] == nil {
			m.deposits[send.ToAddress] = map[types.Address]*big.Int{}
		}
		d := m.deposits[send.ToAddress][send.Address]
		if d == nil {
			d = new(big.Int)
			m.deposits[send.ToAddress][send.Address] = d
		}
		d.Add(d, send.Amount)
		m.everDeposited[send.Address] = true
	case "pillar.WithdrawQsr", "sentinel.WithdrawQsr":
		for _, p := range pays {
			if p.ToAddress != send.Address || p.TokenStandard != types.QsrTokenStandard {
				r.Fail("released-to-wrong-party", "qsr-deposit", "%s by %v pays %v", key, send.Address, payStr(pays))
			}
			if !m.everDeposited[send.Address] {
				r.Fail("payout-unexplained", "qsr-deposit", "%s by %v, who never deposited in this run, pays %v", key, send.Address, payStr(pays))
			}
			r.Probe("payout-judged-qsr-deposit")
		}
		delete(m.deposits[send.ToAddress], send.Address)
	default:
		// any other successful call to the modelled contracts must not pay users (reward collection
		// mints through the token contract, which is not a payout of locked funds)
		switch send.ToAddress {
		case types.StakeContract, types.PlasmaContract, types.HtlcContract, types.PillarContract, types.SentinelContract:
			if len(pays) > 0 {
				r.Fail("payout-unexplained", nomsim.ContractByAddr(send.ToAddress).Name, "%s pays %v", key, payStr(pays))
			}
		}
	}
}

func payStr(ps []*nom.AccountBlock) string {
	s := ""
	for _, p := range ps {
		s += fmt.Sprintf("[%v %v -> %v]", p.Amount, p.TokenStandard, p.ToAddress)
	}
	return s
}

func runC10(r *simrt.Run) {
	r.WatchLocks() // a lock of the node that is never released is a violation, not a hang
	t := r.T
	mode := nomsim.SporksActive
	if t.Choose(4) == 0 {
		mode = nomsim.SporksDeclared
	}
	w := nomsim.NewWorld(r, nomsim.MockGenesis(mode))
	w.EnforceReceiverRule(0)
	// lock lengths: protocol defaults crossed by clock jumps, or shortened constants
	short := t.Choose(3) != 0
	fuseExp := uint64(constants.FuseExpiration)
	if short {
		o1, o2, o3, o4 := constants.StakeTimeUnitSec, constants.StakeTimeMinSec, constants.StakeTimeMaxSec, constants.FuseExpiration
		constants.StakeTimeUnitSec = int64(60 * (1 + t.Choose(5)))
		constants.StakeTimeMinSec = constants.StakeTimeUnitSec
		constants.StakeTimeMaxSec = constants.StakeTimeUnitSec * 12
		constants.FuseExpiration = uint64(2 + t.Choose(20))
		fuseExp = constants.FuseExpiration
		o5, o6, o7, o8 := constants.PillarEpochLockTime, constants.PillarEpochRevokeTime, constants.SentinelLockTimeWindow, constants.SentinelRevokeTimeWindow
		constants.PillarEpochLockTime, constants.PillarEpochRevokeTime = int64(60*(1+t.Choose(8))), int64(60*(1+t.Choose(4)))
		constants.SentinelLockTimeWindow, constants.SentinelRevokeTimeWindow = int64(60*(1+t.Choose(8))), int64(60*(1+t.Choose(4)))
		w.OnClose(func() {
			constants.StakeTimeUnitSec, constants.StakeTimeMinSec, constants.StakeTimeMaxSec, constants.FuseExpiration = o1, o2, o3, o4
			constants.PillarEpochLockTime, constants.PillarEpochRevokeTime, constants.SentinelLockTimeWindow, constants.SentinelRevokeTimeWindow = o5, o6, o7, o8
		})
	}
	// the bridge: under its spork, in two runs of three, a harness key administers it and another one is its TSS key
	bridgeOn := mode == nomsim.SporksActive && t.Choose(3) != 0
	if bridgeOn {
		w.BridgeAdmin(w.Users[t.Choose(3)].Address, uint64(1+t.Choose(3)), 1+t.Choose(4))
	}
	p := w.AddNode("P", nomsim.MockPillars(), false)
	wl := nomsim.NewWorkload(w, mode)
	wl.MaxOps = 3 + t.Choose(7)
	wl.Mix = nomsim.Mix{Transfer: 2, Receive: 3, Flow: 12, RandomCall: 3, Spork: 1}
	// bias the flows toward lock/unlock traffic
	lockFlows := []string{"fuse", "cancel-fuse", "stake", "cancel-stake", "htlc-create", "htlc-unlock", "htlc-reclaim", "htlc-proxy", "deposit-qsr", "withdraw-qsr",
		"register-sentinel", "revoke-sentinel", "sentinel-lifecycle", "register-pillar", "revoke-pillar", "liquidity-stake", "liquidity-cancel"}
	model := &lockModel{entries: map[types.Hash]*lockEntry{}, proxy: map[types.Address]bool{}, pillars: map[string]*lockEntry{}, sentinels: map[types.Address]*lockEntry{},
		deposits: map[types.Address]map[types.Address]*big.Int{}, everDeposited: map[types.Address]bool{}}
	bridgeFlows := nomsim.BridgeFlowNames[1:] // all but the setup, which runs every slot
	if bridgeOn {
		wl.G.EnableBridge()
		lockFlows = append(lockFlows, bridgeFlows...)
		model.bridge = newBridgeModel()
		r.Probe("bridge-enabled")
	}
	// collateral that exists since genesis
	gst := p.Chain.GetFrontierMomentumStore()
	if ps, err := definition.GetPillarsList(gst.GetAccountStore(types.PillarContract).Storage(), true, definition.AnyPillarType); err == nil {
		for _, pi := range ps {
			model.pillars[pi.Name] = &lockEntry{kind: "pillar", owner: pi.StakeAddress, amount: new(big.Int).Set(pi.Amount), zts: types.ZnnTokenStandard, regTime: pi.RegistrationTime}
		}
	}
	definition.IterateSentinelEntries(gst.GetAccountStore(types.SentinelContract).Storage(), func(si *definition.SentinelInfo) error {
		model.sentinels[si.Owner] = &lockEntry{kind: "sentinel", owner: si.Owner, amount: new(big.Int).Set(si.ZnnAmount), qsr: new(big.Int).Set(si.QsrAmount), zts: types.ZnnTokenStandard, regTime: si.RegistrationTimestamp}
		return nil
	})
	for _, a := range oracle.Accounts(p.Mgr.Frontier()) {
		for _, c := range []types.Address{types.PillarContract, types.SentinelContract} {
			a := a
			if d, err := definition.GetQsrDeposit(gst.GetAccountStore(c).Storage(), &a); err == nil && d != nil && d.Qsr != nil && d.Qsr.Sign() > 0 {
				model.everDeposited[a] = true
			}
		}
	}
	offset := oracle.GenesisFusionOffset(w.Gen.PlasmaConfig.Fusions)
	slots := 20 + t.Choose(60)
	longJumps, maxLong := 0, 2
	if r.Tier == "thorough" {
		slots = 50 + t.Choose(300)
		maxLong = 5
	}
	for s := 0; s < slots; s++ {
		t.Span(func() {
			wl.G.RefreshTokens(p)
			if bridgeOn {
				nomsim.FlowByName("bridge-setup").Run(wl.G, p)
			}
			wl.Ops(p)
			t.Loop(3, 4, 6, func() {
				f := nomsim.FlowByName(lockFlows[t.Choose(len(lockFlows))])
				f.Run(wl.G, p)
			})
			if bridgeOn {
				t.Loop(2, 3, 4, func() {
					// wrap, unwrap, redeem, revoke, replay, retune
					nomsim.FlowByName(bridgeFlows[t.Pick([]int{3, 5, 6, 1, 2, 1})]).Run(wl.G, p)
				})
			}
			switch t.Choose(10) {
			case 0:
				w.SkipSlots(int64(1 + t.Choose(40)))
				r.Fault("clock-jump-short")
			case 1:
				if !short && longJumps < maxLong {
					// cross fusion / stake / sentinel / pillar lock windows of the default constants
					// (each jump costs seconds: consensus points are computed for every tick skipped)
					longJumps++
					jumps := []int{3700, 8640 * 30, 8640 * 31, 8640 * 84}
					if r.Tier != "thorough" {
						jumps = []int{3700, 3700, 8640 * 30}
					}
					w.SkipSlots(int64(jumps[t.Choose(len(jumps))]))
					r.Fault("clock-jump-long")
				}
			}
			h0 := p.Height()
			w.StepSlot()
			ms := p.Chain.GetFrontierMomentumStore()
			if model.bridge != nil {
				model.bridge.sync(ms, p.Height())
			}
			for h := h0 + 1; h <= p.Height(); h++ {
				d := p.Detailed(h)
				for _, b := range d.AccountBlocks {
					if model.bridge != nil {
						model.bridge.refused(r, ms, b)
					}
					if b.BlockType != nom.BlockTypeContractReceive || len(b.Data) != 8 || common.BytesToUint64(b.Data) != 1 {
						continue
					}
					send, err := ms.GetAccountBlockByHash(b.FromBlockHash)
					if err != nil || send == nil {
						continue
					}
					model.observe(r, ms, send, b, fuseExp)
				}
			}
			if p.Height() > h0 {
				backing(r, p, ms, oracle.Accounts(p.Mgr.Frontier()), wl.G.Ids[types.HtlcContract], offset, p.Height())
			}
		})
	}
	paid, open := 0, 0
	for _, e := range model.entries {
		if e.paid {
			paid++
		} else {
			open++
		}
	}
	r.Probes["entries-paid"] += paid
	r.Probes["entries-open"] += open
	r.NonTrivial = len(model.entries) >= 3 && r.Probes["backing-evaluated"] >= 10
	r.Finger = fmt.Sprintf("%s-%d-%d", p.Frontier().Hash.String()[:16], paid, open)
	r.Sample["height"] = p.Height()
	r.Sample["short_locks"] = short
	r.Sample["bridge"] = bridgeOn
	r.Sample["entries_paid_open"] = []int{paid, open}
}

var _ = sub
