package checks

import (
	"fmt"
	"time"

	"github.com/zenon-network/go-zenon/chain/nom"
	"github.com/zenon-network/go-zenon/common/types"

	"verif/sim/nomsim"
	"verif/sim/oracle"
	"verif/sim/simnode"
	"verif/sim/simrt"
)

func init() { register("C02", runC02) }

// compareNodes demands byte-identical ledger state of two nodes at equal height.
func compareNodes(r *simrt.Run, clause string, a, b *simnode.Node, ids []types.HashHeight) {
	fa, fb := a.Frontier(), b.Frontier()
	if fa.Height != fb.Height {
		return
	}
	if fa.Hash != fb.Hash {
		r.Fail(clause, "frontier-hash", "nodes %s and %s at height %d have different frontier hashes %v / %v", a.Name, b.Name, fa.Height, fa.Hash, fb.Hash)
	}
	da, db := oracle.Dump(a.Mgr.Frontier()), oracle.Dump(b.Mgr.Frontier())
	if oracle.Digest(da) != oracle.Digest(db) {
		r.Fail(clause, "frontier-dump-"+oracle.DiffClass(da, db), "nodes %s and %s hold the same frontier %v but different state: %s", a.Name, b.Name, fa.Hash, oracle.Diff(da, db))
	}
	r.Probe("frontier-dumps-compared")
	for _, id := range ids {
		va, vb := a.Mgr.Get(id), b.Mgr.Get(id)
		if va == nil || vb == nil {
			if (va == nil) != (vb == nil) {
				r.Fail(clause, "historical-view-missing", "view at %v exists on one of %s/%s only", id, a.Name, b.Name)
			}
			continue
		}
		ha, hb := oracle.Dump(va), oracle.Dump(vb)
		if oracle.Digest(ha) != oracle.Digest(hb) {
			r.Fail(clause, "historical-dump-"+oracle.DiffClass(ha, hb), "historical view at height %d differs between %s and %s (frontier %d): %s", id.Height, a.Name, b.Name, fa.Height, oracle.Diff(ha, hb))
		}
		r.Probe("historical-dumps-compared")
	}
	// consensus answers for the coming slots
	base := fa.Timestamp.Add(10 * time.Second)
	for i := 0; i < 6; i++ {
		ts := base.Add(time.Duration(i*10) * time.Second)
		pa, ea := a.Cons.GetMomentumProducer(ts)
		pb, eb := b.Cons.GetMomentumProducer(ts)
		if (ea == nil) != (eb == nil) || (ea == nil && *pa != *pb) {
			r.Fail(clause, "producer-schedule", "nodes %s and %s at equal frontier elect different producers for %v: %v/%v vs %v/%v", a.Name, b.Name, ts.Unix(), pa, ea, pb, eb)
		}
	}
}

type follower struct {
	n       *simnode.Node
	mode    int // 0 live, 1 batched, 2 lazy (syncs rarely, large batches)
	gossip  int // percent of account blocks that reach it before the momentum
	pending []*nom.AccountBlock
}

func runC02(r *simrt.Run) {
	r.WatchLocks() // a lock of the node that is never released is a violation, not a hang
	t := r.T
	mode := nomsim.SporkMode(t.Choose(3))
	w := nomsim.NewWorld(r, nomsim.MockGenesis(mode))
	w.EnforceReceiverRule(0)
	w.Net.Gossip = false
	if t.Choose(3) != 0 {
		w.SetEpochDuration(time.Duration(300*(2+t.Choose(3))) * time.Second)
		w.ShortRewardKnobs(int64(10*t.Choose(6)), uint64(1+t.Choose(10)))
	}
	p := w.AddNode("P", nomsim.MockPillars(), false)
	nf := 1 + t.Choose(3)
	var fs []*follower
	for i := 0; i < nf; i++ {
		f := &follower{n: w.AddNode(fmt.Sprintf("F%d", i), nil, t.Bool()), mode: t.Choose(3), gossip: []int{0, 50, 100}[t.Choose(3)]}
		fs = append(fs, f)
	}
	p.OnBlock = func(_ *simnode.Node, b *nom.AccountBlock) {
		for _, f := range fs {
			f.pending = append(f.pending, b)
		}
	}
	// clients may also talk to a live follower: their blocks are built on the follower's view
	// (possibly behind the producer) and reach the producer after a gossip delay, so they wait
	// in pools while the ledger moves on
	type late struct {
		at int64
		b  *nom.AccountBlock
	}
	var toProducer []late
	clientOnFollower := t.Choose(3) != 0
	for _, f := range fs {
		f := f
		f.n.OnBlock = func(_ *simnode.Node, b *nom.AccountBlock) {
			toProducer = append(toProducer, late{w.Slot + int64(t.Choose(4)), b})
			for _, o := range fs {
				if o != f {
					o.pending = append(o.pending, b)
				}
			}
			r.Probe("block-created-on-follower")
		}
	}
	wl := nomsim.NewWorkload(w, mode)
	wl.MaxOps = 2 + t.Choose(5)
	ackDepthMax := []int{0, 3, 25}[t.Choose(3)]
	w.AckDepth = func() int {
		if ackDepthMax == 0 {
			return 0
		}
		return t.Choose(ackDepthMax + 1)
	}
	slots := 20 + t.Choose(50)
	if r.Tier == "thorough" {
		slots = 60 + t.Choose(400)
		if t.Choose(4) == 0 {
			ackDepthMax = 380 // beyond the l1 cache distance: l2 path
		}
	}

	deliver := func(f *follower, upTo uint64, batchMax int) {
		if !f.n.Up {
			return
		}
		// gossip first (possibly partial)
		if len(f.pending) > 0 {
			var keep []*nom.AccountBlock
			for _, b := range f.pending {
				if f.gossip > 0 && t.Prob(f.gossip, 100) {
					err := f.n.Bridge.AddAccountBlocks([]*nom.AccountBlock{b})
					r.Logf("gossip %s/%d -> %s err=%v", b.Address.String()[:8], b.Height, f.n.Name, err != nil)
					r.Probe("gossip-delivered")
				} else {
					r.Fault("gossip-not-delivered")
				}
			}
			f.pending = keep
		}
		for f.n.Height() < upTo {
			h := f.n.Height()
			from := h + 1
			if t.Choose(5) == 0 && h > 3 {
				// overlapping batch: starts below the follower's frontier
				from = h - uint64(t.Choose(3))
				r.Fault("overlapping-batch")
			}
			size := 1 + t.Choose(batchMax)
			to := from + uint64(size) - 1
			if to <= h {
				to = h + 1 // every batch makes progress
			}
			if to > upTo {
				to = upTo
			}
			batch := p.Batch(from, to)
			if len(batch) == 0 {
				return
			}
			idx, err := f.n.Bridge.InsertChain(batch)
			r.Logf("insert %s [%d..%d] idx=%d err=%v", f.n.Name, from, to, idx, err)
			if err != nil || idx != 0 {
				r.Fail("honest-batch-refused", "insert-chain", "follower %s at height %d refused honest batch [%d..%d] produced by P: idx=%d err=%v", f.n.Name, h, from, to, idx, err)
			}
			if t.Choose(6) == 0 {
				// duplicate delivery must change nothing
				idx, err := f.n.Bridge.InsertChain(batch)
				r.Fault("duplicate-batch")
				if err != nil || idx != 0 {
					r.Fail("honest-batch-refused", "duplicate", "redelivery of a known batch returned idx=%d err=%v", idx, err)
				}
			}
		}
	}

	step := func(s int) {
		wl.G.RefreshTokens(p)
		wl.Ops(p)
		if clientOnFollower {
			for _, f := range fs {
				if f.mode == 0 && f.n.Up && f.n.Height()+2 >= p.Height() && t.Choose(3) == 0 {
					t.Span(func() { wl.Ops(f.n) })
				}
			}
		}
		// gossip from followers reaches the producer when due
		var rest []late
		for _, l := range toProducer {
			if l.at <= w.Slot {
				err := p.Bridge.AddAccountBlocks([]*nom.AccountBlock{l.b})
				r.Logf("late gossip %s/%d -> P err=%v", l.b.Address.String()[:8], l.b.Height, err != nil)
			} else {
				rest = append(rest, l)
			}
		}
		toProducer = rest
		if t.Choose(12) == 0 {
			w.SkipSlots(int64(1 + t.Choose(35)))
			r.Fault("missed-slots")
		}
		w.StepSlot()
		for _, f := range fs {
			t.Span(func() {
				switch f.mode {
				case 0:
					deliver(f, p.Height(), 1)
				case 1:
					if t.Choose(3) == 0 {
						deliver(f, p.Height(), 16)
					}
				case 2:
					if t.Choose(12) == 0 {
						deliver(f, p.Height(), 128)
					}
				}
				if t.Choose(15) == 0 && f.n.Up {
					r.Fault("restart-follower")
					r.Logf("restart %s (drop consensus cache=%v)", f.n.Name, f.n.CDir != "")
					if err := f.n.Restart(t.Bool()); err != nil {
						r.Fail("restart", "open", "%v", err)
					}
				}
				if t.Choose(8) == 0 && f.n.Height() == p.Height() {
					compareNodes(r, "same-momentums-different-state", p, f.n, pickIds(r, p, 2))
				}
			})
		}
	}
	for s := 0; s < slots; s++ {
		t.Span(func() { step(s) })
	}
	// final: everybody catches up, full comparison incl. historical views
	for i := 0; i < 2; i++ {
		w.StepSlot()
	}
	for _, f := range fs {
		if !f.n.Up {
			continue
		}
		deliver(f, p.Height(), 128)
		compareNodes(r, "same-momentums-different-state", p, f.n, pickIds(r, p, 4))
	}
	// a node that restarts must agree with itself
	if t.Bool() {
		before := oracle.Digest(oracle.Dump(p.Mgr.Frontier()))
		if err := p.Restart(false); err != nil {
			r.Fail("restart", "open", "%v", err)
		}
		r.Fault("restart-producer")
		if oracle.Digest(oracle.Dump(p.Mgr.Frontier())) != before {
			r.Fail("same-momentums-different-state", "restart-changed-state", "producer state differs after restart")
		}
		for _, f := range fs {
			if f.n.Up {
				compareNodes(r, "same-momentums-different-state", p, f.n, pickIds(r, p, 2))
			}
		}
	}
	acc := 0
	for _, v := range wl.G.Accepted {
		acc += v
	}
	r.Probes["accepted-ops"] += acc
	r.NonTrivial = acc >= 5 && p.Height() >= 10 && r.Probes["frontier-dumps-compared"] > 0
	r.Finger = p.Frontier().Hash.String()
	r.Sample["height"] = p.Height()
	r.Sample["followers"] = nf
	modes := []int{}
	for _, f := range fs {
		modes = append(modes, f.mode*1000+f.gossip)
	}
	r.Sample["follower_mode_gossip"] = modes
	r.Sample["ack_depth_max"] = ackDepthMax
}

// pickIds chooses historical identifiers on p's chain from the tape.
func pickIds(r *simrt.Run, p *simnode.Node, k int) []types.HashHeight {
	var out []types.HashHeight
	h := p.Height()
	for i := 0; i < k; i++ {
		x := uint64(1 + r.T.Choose(int(h)))
		m, err := p.Bridge.GetBlockByNumber(x)
		if err == nil && m != nil {
			out = append(out, m.Identifier())
		}
	}
	return out
}
