package checks

import (
	"fmt"
	"time"

	"github.com/zenon-network/go-zenon/chain/nom"
	"github.com/zenon-network/go-zenon/common/types"

	"verif/sim/nomsim"
	"verif/sim/oracle"
	"verif/sim/simnode"
	"verif/sim/simrt"
)

func init() { register("C16", runC16) }

type chainSnap struct {
	height uint64
	hash   types.Hash
	digest string
	dump   []oracle.KV
}

func snapNode(n *simnode.Node) chainSnap {
	d := oracle.Dump(n.Mgr.Frontier())
	fr := n.Frontier()
	return chainSnap{fr.Height, fr.Hash, oracle.Digest(d), d}
}

// checkLinkage walks the last k momentums of n and demands height/previous-hash linkage.
func checkLinkage(r *simrt.Run, n *simnode.Node, k uint64) {
	h := n.Height()
	lo := uint64(2)
	if h > k+2 {
		lo = h - k
	}
	st := n.Chain.GetFrontierMomentumStore()
	var prev *nom.Momentum
	for x := lo - 1; x <= h; x++ {
		m, err := st.GetMomentumByHeight(x)
		if err != nil || m == nil {
			r.Fail("chain-linkage", "missing-height", "node %s has no momentum at height %d below its frontier %d (err=%v)", n.Name, x, h, err)
		}
		if prev != nil && (m.PreviousHash != prev.Hash || m.Height != prev.Height+1) {
			r.Fail("chain-linkage", "previous-hash", "node %s: momentum %d does not link to %d", n.Name, m.Height, prev.Height)
		}
		prev = m
	}
}

// c16WindowBoundary puts the node exactly 29..32 momentums past the fork point on one real branch and
// delivers the other, longer, fully valid branch: it must be adopted up to depth 30 and refused beyond.
func c16WindowBoundary(r *simrt.Run, w *nomsim.World, wl *nomsim.Workload, f *nomsim.Fork) {
	t := r.T
	T := f.XA
	f.Common(2+t.Choose(6), true)
	fork := f.ForkHeight
	w.Net.Partition(f.SideA(), f.SideB())
	w.Net.Gossip = false
	for i := 0; i < 260 && (f.A.Height() < fork+34 || f.B.Height() < fork+34); i++ {
		t.Span(func() {
			if t.Choose(4) == 0 {
				wl.Op(f.A)
				wl.Op(f.B)
			}
			w.StepSlot()
		})
	}
	if f.A.Height() < fork+34 || f.B.Height() < fork+34 {
		r.Skip("branches-too-short-for-window-boundary")
		return
	}
	if nomsim.CommonAncestor(f.A, f.B) != fork {
		r.Skip("fork-point-moved")
		return
	}
	own, other := f.A, f.B
	if t.Bool() {
		own, other = f.B, f.A
	}
	d := uint64(29 + t.Choose(4))
	if T.Height() > fork {
		r.Skip("observer-already-past-fork")
		return
	}
	if idx, err := T.Bridge.InsertChain(own.Batch(fork+1, fork+d)); err != nil || idx != 0 {
		r.Fail("honest-longer-chain-refused", "extension", "honest extension [%d..%d] refused: idx=%d err=%v", fork+1, fork+d, idx, err)
	}
	before := snapNode(T)
	// the other branch: whole, or just one momentum longer than the node's chain
	to := other.Height()
	if t.Bool() {
		to = fork + d + 1
	}
	batch := other.Batch(fork+1, to)
	idx, err := T.Bridge.InsertChain(batch)
	r.Fault(fmt.Sprintf("side-chain-at-window-boundary-depth-%d", d))
	r.Logf("window boundary: node at fork+%d, side chain [%d..%d] -> idx=%d err=%v, node now %d", d, fork+1, to, idx, err, T.Height())
	if d <= 30 {
		if err != nil || idx != 0 || T.Frontier().Hash != batch[len(batch)-1].Momentum.Hash {
			r.Fail("honest-longer-chain-refused", "side-chain", "an honest, strictly longer side chain (fork depth %d, tail %d vs frontier %d) was refused: idx=%d err=%v", d, to, fork+d, idx, err)
		}
		ref := freshFollower(r, w, "R", T, 64)
		compareNodes(r, "reorged-node-differs-from-fresh", ref, T, nil)
	} else {
		if T.Frontier().Hash != before.hash {
			r.Fail("adopt-rule", fmt.Sprintf("adopted-depth%s-longer%v", bucket(int(d)), true), "node at %d left its chain for a side chain with tail %d linking %d below its frontier", fork+d, to, d)
		}
		after := snapNode(T)
		if after.digest != before.digest {
			r.Fail("state-changed", "side-chain-refused", "a refused side chain changed the node: %s", oracle.Diff(before.dump, after.dump))
		}
	}
	checkLinkage(r, T, 45)
	r.NonTrivial = true
	r.Finger = fmt.Sprintf("wb-%d-%s", d, T.Frontier().Hash.String()[:16])
	r.Sample["window_boundary_depth"] = d
}

func runC16(r *simrt.Run) {
	r.WatchLocks() // a lock of the node that is never released is a violation, not a hang
	t := r.T
	mode := nomsim.SporkMode(t.Choose(3))
	w := nomsim.NewWorld(r, nomsim.MockGenesis(mode))
	w.EnforceReceiverRule(0)
	wl := nomsim.NewWorkload(w, mode)
	wl.MaxOps = 1 + t.Choose(4)
	f := nomsim.NewFork(w, wl, t.Choose(6), true, false)
	T := f.XA // the node under test follows side A
	if t.Choose(6) == 0 {
		c16WindowBoundary(r, w, wl, f)
		return
	}
	f.Common(3+t.Choose(20), true)
	f.Split(2+t.Choose(44), true, true)
	w.Net.Heal()
	w.Net.Gossip = false
	fork := f.ForkHeight
	if T.Frontier().Hash != f.A.Frontier().Hash {
		w.Net.SyncFrom(f.A, T)
	}
	// known honest momentums: both branches
	honest := map[types.Hash]bool{}
	for _, n := range []*simnode.Node{f.A, f.B} {
		for h := uint64(1); h <= n.Height(); h++ {
			if m, _ := n.Bridge.GetBlockByNumber(h); m != nil {
				honest[m.Hash] = true
			}
		}
	}
	r.Logf("target T at %d, A at %d, B at %d, fork height %d", T.Height(), f.A.Height(), f.B.Height(), fork)

	insert := func(what string, batch []*nom.DetailedMomentum) (idx int, err error, panicked bool) {
		defer func() {
			if p := recover(); p != nil {
				panicked = true
				r.Report("insert-chain-panic", what, "InsertChain panicked on a %s batch (%d momentums, first height %d, local frontier %d): %v", what, len(batch), batch[0].Momentum.Height, T.Height(), p)
			}
		}()
		idx, err = T.Bridge.InsertChain(batch)
		r.Logf("deliver %s: %d momentums from height %d -> idx=%d err=%v (T now %d)", what, len(batch), batch[0].Momentum.Height, idx, err != nil, T.Height())
		return
	}
	unchanged := func(what string, before chainSnap) {
		after := snapNode(T)
		if after.hash != before.hash || after.digest != before.digest {
			r.Fail("state-changed", what, "delivery of a %s batch changed the node: frontier %d/%v -> %d/%v; %s", what, before.height, before.hash, after.height, after.hash, oracle.Diff(before.dump, after.dump))
		}
	}
	onlyHonest := func(what string) {
		fr := T.Frontier()
		if !honest[fr.Hash] && !f.A.Bridge.HasBlock(fr.Hash) && !f.B.Bridge.HasBlock(fr.Hash) {
			r.Fail("unverified-data-held", what, "after a %s batch the node's frontier %d/%v is not a momentum any honest node produced", what, fr.Height, fr.Hash)
		}
		checkLinkage(r, T, 45)
	}

	deliveries := 4 + t.Choose(8)
	for i := 0; i < deliveries; i++ {
		t.Span(func() {
			before := snapNode(T)
			th := T.Height()
			onA := T.Frontier().Hash == mustHash(f.A, th)
			other := f.B
			if !onA {
				other = f.A
			}
			base := nomsim.CommonAncestor(T, other)
			switch t.Choose(7) {
			case 0: // redelivery of known momentums
				if th < 3 {
					return
				}
				from := uint64(2 + t.Choose(int(th-2)))
				to := from + uint64(t.Choose(int(th-from)+1))
				idx, err, p := insert("known", T.Batch(from, to))
				if p {
					return
				}
				if idx != 0 || err != nil {
					r.Fail("known-redelivery", "refused", "redelivery of own momentums [%d..%d] returned idx=%d err=%v", from, to, idx, err)
				}
				unchanged("known", before)
				r.Probe("known-redelivered")
			case 1: // gap batch: starts beyond frontier+1
				src := f.A
				if f.B.Height() > src.Height() {
					src = f.B
				}
				if src.Height() < th+2 {
					// make the chain longer
					return
				}
				from := th + 2 + uint64(t.Choose(int(src.Height()-th-1)))
				if from > src.Height() {
					from = src.Height()
				}
				_, err, p := insert("gap", src.Batch(from, src.Height()))
				r.Fault("gap-batch")
				if p {
					if r.Known["insert-chain-panic|gap"] {
						return
					}
					r.Abort()
				}
				if err == nil {
					r.Fail("gap-batch", "accepted", "a batch starting at height %d was accepted by a node at height %d", from, th)
				}
				unchanged("gap", before)
			case 2: // the competing branch, whole or truncated
				oh := other.Height()
				if oh <= base {
					return
				}
				to := base + 1 + uint64(t.Choose(int(oh-base)))
				batch := other.Batch(base+1, to)
				idx, err, p := insert("side-chain", batch)
				if p {
					r.Abort()
				}
				depth := th - base
				r.Fault("side-chain-" + bucket(int(depth)))
				shouldAdopt := to > th && depth <= 30
				if shouldAdopt {
					r.Probe("side-chain-adoptable")
					if err != nil || idx != 0 {
						r.Fail("honest-longer-chain-refused", "side-chain", "an honest, strictly longer side chain (fork depth %d, tail %d vs frontier %d) was refused: idx=%d err=%v", depth, to, th, idx, err)
					}
					if T.Frontier().Hash != batch[len(batch)-1].Momentum.Hash {
						r.Fail("honest-longer-chain-refused", "not-adopted", "InsertChain returned success but the frontier is %d", T.Height())
					}
				} else {
					if err == nil && T.Frontier().Hash != before.hash {
						r.Fail("adopt-rule", fmt.Sprintf("adopted-depth%s-longer%v", bucket(int(depth)), to > th), "node at %d left its chain for a side chain with tail %d linking %d below its frontier", th, to, depth)
					}
					if T.Frontier().Hash == before.hash {
						unchanged("side-chain-refused", before)
					}
				}
				onlyHonest("side-chain")
			case 3: // extension from the node's own side
				src := f.A
				if !onA {
					src = f.B
				}
				if src.Height() <= th {
					w.StepSlot()
					if src.Height() <= th {
						return
					}
				}
				to := th + 1 + uint64(t.Choose(int(src.Height()-th)))
				idx, err, p := insert("extension", src.Batch(th+1, to))
				if p {
					r.Abort()
				}
				if err != nil || idx != 0 || T.Height() != to {
					r.Fail("honest-longer-chain-refused", "extension", "honest extension [%d..%d] refused: idx=%d err=%v", th+1, to, idx, err)
				}
				r.Probe("extension")
			case 4, 5: // invalid element at position p in an otherwise adoptable batch
				src := other
				from := base + 1
				if other.Height() <= th || th-base > 30 {
					// use an extension of the own branch instead
					src = f.A
					if !onA {
						src = f.B
					}
					from = th + 1
					if t.Bool() && th > 4 {
						from = th - uint64(t.Choose(3)) // with a known prefix
					}
				}
				if src.Height() < from || src.Height() <= th {
					return
				}
				batch := nomsim.CloneBatch(src.Batch(from, src.Height()))
				firstNew := 0
				for firstNew < len(batch) && batch[firstNew].Momentum.Height <= th && src == other == false {
					firstNew++
				}
				if src != other {
					firstNew = int(th + 1 - from)
				}
				if firstNew >= len(batch) {
					return
				}
				p := firstNew + t.Choose(len(batch)-firstNew)
				mut := nomsim.MomentumMutations[t.Choose(len(nomsim.MomentumMutations))]
				if !mut.Sure || !mut.Apply(w, batch[p]) {
					return
				}
				// an altered copy of an account block the node already holds (from
				// gossip) is never looked at: the node keeps its own verified copy
				for _, b := range batch[p].AccountBlocks {
					if b.ComputeHash() != b.Hash && T.Chain.GetPatch(b.Address, b.Identifier()) != nil {
						r.Probe("altered-copy-of-held-block")
						return
					}
				}
				r.Fault("invalid-element-" + mut.Name)
				idx, err, pn := insert("invalid-"+mut.Name, batch)
				if pn {
					r.Abort()
				}
				if err == nil {
					r.Fail("invalid-element-accepted", mut.Name, "batch with a %s momentum at position %d (height %d) was accepted", mut.Name, p, batch[p].Momentum.Height)
				}
				if idx != p {
					r.Fail("failing-index", mut.Name, "batch with a %s momentum at position %d: InsertChain reported index %d (err %v)", mut.Name, p, idx, err)
				}
				// the node holds exactly the verified part: everything before position p
				wantH := batch[p].Momentum.Height - 1
				if T.Height() != wantH {
					r.Fail("verified-prefix", mut.Name, "after failing at position %d (height %d) the node is at height %d, expected %d", p, batch[p].Momentum.Height, T.Height(), wantH)
				}
				if T.Frontier().Hash != batch[p].Momentum.PreviousHash {
					r.Fail("verified-prefix", mut.Name+"-hash", "after failing at position %d the frontier is not the predecessor of the failing momentum", p)
				}
				onlyHonest("invalid-" + mut.Name)
			case 6: // duplicate + overlap of an adoptable batch
				src := f.A
				if !onA {
					src = f.B
				}
				if src.Height() <= th || th < 4 {
					return
				}
				from := th - uint64(t.Choose(3))
				batch := src.Batch(from, src.Height())
				idx, err, p := insert("overlap", batch)
				if p {
					r.Abort()
				}
				if err != nil || idx != 0 {
					r.Fail("honest-longer-chain-refused", "overlap", "overlapping honest batch [%d..%d] at frontier %d refused: idx=%d err=%v", from, src.Height(), th, idx, err)
				}
				mid := snapNode(T)
				idx, err, p = insert("duplicate", batch)
				if p {
					r.Abort()
				}
				if err != nil || idx != 0 {
					r.Fail("known-redelivery", "duplicate", "second delivery returned idx=%d err=%v", idx, err)
				}
				unchanged("duplicate", mid)
			}
			if t.Choose(3) == 0 {
				// both producers keep going so that later deliveries see new material
				w.StepSlot()
			}
		})
	}
	// whatever the node holds now must be acceptable to an independent verifier node
	v := w.AddNode("V", nil, false)
	if T.Height() >= 2 {
		idx, err := v.Bridge.InsertChain(T.Batch(2, T.Height()))
		if err != nil || idx != 0 {
			r.Fail("unverified-data-held", "independent-verifier", "the chain held by the node after all deliveries is refused by an independent node: idx=%d err=%v", idx, err)
		}
		compareNodes(r, "same-momentums-different-state", v, T, nil)
	}
	r.NonTrivial = r.Faults["gap-batch"]+r.Probes["side-chain-adoptable"]+countPrefix(r.Faults, "invalid-element-") > 0
	r.Finger = fmt.Sprintf("%s-%s", T.Frontier().Hash.String()[:16], r.Digest())
	r.Sample["fork_height"] = fork
	r.Sample["heights_T_A_B"] = []uint64{T.Height(), f.A.Height(), f.B.Height()}
	r.Sample["deliveries"] = deliveries
	_ = time.Second
}

func mustHash(n *simnode.Node, h uint64) types.Hash {
	m, err := n.Bridge.GetBlockByNumber(h)
	if err != nil || m == nil {
		return types.ZeroHash
	}
	return m.Hash
}

func countPrefix(m map[string]int, p string) int {
	c := 0
	for k, v := range m {
		if len(k) >= len(p) && k[:len(p)] == p {
			c += v
		}
	}
	return c
}
