package checks

// C07 — versioned store: a view at commit X shows exactly the state as of X.
//
// Model-based check directly on db.Manager (LevelDB manager and MemDB manager,
// tape-chosen) and on the db.DB views it hands out.  Only the public interface
// is used, so the model deals in logical keys and values; the raw encoding
// (0x00 value prefix, empty value = tombstone) never appears in the oracle.
//
// Reference model
//   - one map per version (identifier -> user key -> value); the chain is the
//     list of versions that are currently on the chain, chain[0] being the base
//     (the empty store for LevelDB, the "stable" database for the MemDB manager);
//   - every view is a node with an overlay of its own writes on top of either a
//     version (root views) or a window of a parent node (Snapshot children);
//     Subset views are prefix windows onto the same node.
//
// What is demanded (and nothing more)
//   - Get/Has/prefix scans of a view rooted at X equal model(X) plus the writes
//     made through the view and its ancestors, for as long as X is on the chain.
//     A view whose version has been popped is dropped: nothing is demanded of it.
//   - iterators: entries with Value()==nil are the store's tombstone protocol
//     (every consumer in the repository skips them); the remaining entries must
//     be exactly the live keys with the prefix, ascending, with their values.
//   - writes through a view are invisible to other views of the same version and
//     to the parent of a Snapshot.
//   - Changes() replayed on the parent's model state reproduces the view's state
//     and lists exactly the view's own writes.
//   - Add on the frontier succeeds and yields parent state + patch; Add on any
//     other parent (stale on-chain, zero, unknown, popped) returns an error and
//     leaves the store unchanged (full frontier dump incl. tombstones, every
//     stored patch, and — LevelDB, part of the runs — the raw key space read
//     with goleveldb directly while the manager is stopped).
//   - after Pop the frontier equals the model's previous version and views of
//     surviving versions are unchanged.
//   - identifiers that never existed give no view.
//   - the keys written by the store itself (frontier pointer, hash and height
//     indexes) are not modelled byte by byte; they are checked through the public
//     accessors db.GetFrontierIdentifier / GetEntryByHeight / GetIdentifierByHash
//     and filtered out of root-level scans (first byte < 'a').
//
// Preconditions kept by the generator (documented, not demanded of the store)
//   - Pop on a LevelDB store without any commit is not attempted (the statement
//     says nothing about it; the implementation dereferences a nil patch).
//   - transactions with several commits are sent to the MemDB manager only (the
//     repository does the same: account-block batches go to MemDB managers,
//     momentums — one commit — to the LevelDB manager); views are opened at the
//     head commit of such a transaction only.
//   - commit heights are parent height + 1.

import (
	"bytes"
	"crypto/sha256"
	"encoding/hex"
	"fmt"
	"sort"
	"strings"
	"time"

	"github.com/syndtr/goleveldb/leveldb"
	"github.com/syndtr/goleveldb/leveldb/opt"

	"github.com/zenon-network/go-zenon/common/db"
	"github.com/zenon-network/go-zenon/common/types"

	"verif/sim/simrt"
	"verif/sim/tape"
)

func init() { register("C07", runC07) }

const (
	c07Alphabet = "abc"
	c07MaxKey   = 4
	c07LevelDB  = 0
	c07MemDB    = 1

	// violation signatures that fire on the unchanged tree get fixed names
	c07SigStaleClause       = "stale-parent-add"
	c07SigEmptyHiddenClause = "historical-scan"
	c07SigEmptyHiddenDisc   = "empty-value-hidden"
	c07SigLaterKeyClause    = "historical-lookup"
	c07SigLaterKeyDisc      = "absent-key-present-empty"
	c07SigLaterKeyPanicDisc = "hash-lookup-of-later-commit-panics"
	c07SigStaleCacheClause  = "historical-view"
	c07SigStaleCacheDisc    = "stale-after-rollback-and-recommit"
	c07PopPolicyFree        = 0
	c07PopPolicyReopen      = 1
	c07PopPolicyNone        = 2
	c07MaxTrackedViews      = 10
	c07L1Size               = 400 // only used to decide when the reach probe "l1-eviction" fires
	c07CacheHeightLimit     = 360 // only used to decide when the reach probe "l2-path" fires
)

var c07AllKeys = func() []string {
	out := []string{""}
	level := []string{""}
	for l := 1; l <= c07MaxKey; l++ {
		var next []string
		for _, p := range level {
			for i := 0; i < len(c07Alphabet); i++ {
				next = append(next, p+string(c07Alphabet[i]))
			}
		}
		out = append(out, next...)
		level = next
	}
	sort.Strings(out)
	return out
}()

// ---------------------------------------------------------------- model ----

type c07entry struct {
	height uint64
	hash   types.Hash
	data   []byte
}

type c07ver struct {
	id      types.HashHeight
	state   map[string][]byte
	entries []c07entry // commit records visible at this version (cumulative)
}

type c07w struct {
	del bool
	val []byte
}

type c07node struct {
	base    *c07ver  // root nodes
	parent  *c07node // Snapshot children
	pprefix string   // window of the parent the child was taken from
	overlay map[string]c07w
	hist    bool // root opened through the historical path (LevelDB, non-frontier identifier)
	class   string
}

func (n *c07node) root() *c07node {
	for n.parent != nil {
		n = n.parent
	}
	return n
}

func (n *c07node) pathPrefix() string {
	if n.parent == nil {
		return ""
	}
	return n.parent.pathPrefix() + n.pprefix
}

func (n *c07node) lookup(key string) ([]byte, bool) {
	if w, ok := n.overlay[key]; ok {
		return w.val, !w.del
	}
	if n.parent != nil {
		return n.parent.lookup(n.pprefix + key)
	}
	v, ok := n.base.state[key]
	return v, ok
}

// fromBase: the key is not shadowed by any overlay, its value is the version's.
func (n *c07node) fromBase(key string) bool {
	if _, ok := n.overlay[key]; ok {
		return false
	}
	if n.parent != nil {
		return n.parent.fromBase(n.pprefix + key)
	}
	return true
}

func (n *c07node) state() map[string][]byte {
	out := map[string][]byte{}
	if n.parent != nil {
		for k, v := range n.parent.state() {
			if strings.HasPrefix(k, n.pprefix) {
				out[k[len(n.pprefix):]] = v
			}
		}
	} else {
		for k, v := range n.base.state {
			out[k] = v
		}
	}
	for k, w := range n.overlay {
		if w.del {
			delete(out, k)
		} else {
			out[k] = w.val
		}
	}
	return out
}

type c07view struct {
	id     int
	n      *c07node
	prefix string
	d      db.DB
}

func (v *c07view) String() string {
	r := v.n.root()
	return fmt.Sprintf("view#%d[%s@%s prefix=%q]", v.id, r.class, c07id(r.base.id), v.n.pathPrefix()+v.prefix)
}

func (v *c07view) fullPrefix() string { return v.n.pathPrefix() + v.prefix }

type c07kv struct {
	k string
	v []byte
}

// expected live entries of a scan with the given prefix, ascending
func (v *c07view) expected(scan string) []c07kv {
	st := v.n.state()
	p := v.prefix + scan
	var out []c07kv
	for k, val := range st {
		if strings.HasPrefix(k, p) {
			out = append(out, c07kv{k[len(v.prefix):], val})
		}
	}
	sort.Slice(out, func(i, j int) bool { return out[i].k < out[j].k })
	return out
}

func c07id(id types.HashHeight) string {
	if id.IsZero() {
		return "zero"
	}
	return fmt.Sprintf("%d:%x", id.Height, id.Hash[:3])
}

func c07val(v []byte) string {
	if v == nil {
		return "<nil>"
	}
	if len(v) > 12 {
		return fmt.Sprintf("%x…(%d)", v[:12], len(v))
	}
	return fmt.Sprintf("%x", v)
}

// --------------------------------------------------- commits, transactions ----

type c07commit struct {
	id, prev types.HashHeight
	data     []byte
}

func (c *c07commit) Identifier() types.HashHeight { return c.id }
func (c *c07commit) Previous() types.HashHeight   { return c.prev }
func (c *c07commit) Serialize() ([]byte, error)   { return c.data, nil }

type c07tx struct {
	commits []db.Commit
	patch   db.Patch
}

func (t *c07tx) GetCommits() []db.Commit { return t.commits }
func (t *c07tx) StealChanges() db.Patch {
	p := t.patch
	t.patch = nil
	return p
}

// patch collector
type c07patchOp struct {
	key string
	w   c07w
}
type c07collector struct{ ops []c07patchOp }

func (c *c07collector) Put(key, value []byte) {
	c.ops = append(c.ops, c07patchOp{string(key), c07w{val: append([]byte{}, value...)}})
}
func (c *c07collector) Delete(key []byte) {
	c.ops = append(c.ops, c07patchOp{string(key), c07w{del: true}})
}

// ----------------------------------------------------------------- check ----

type c07 struct {
	r *simrt.Run
	t *tape.Tape

	kind int
	dir  string
	m    db.Manager
	gen  int

	chain   []*c07ver
	popped  []*c07ver
	views   []*c07view
	nextV   int
	nextC   int
	maxH    uint64
	idsEver []types.HashHeight // every identifier ever committed (incl. intermediate commits)

	// knobs (per run, from the tape; 0 = off)
	emptyVals  bool
	staleAdds  bool
	histAbsent bool
	popPolicy  int
	long       bool
	freshKeys  int
	freshSeq   int
	conc       bool

	// bookkeeping for signatures and probes
	popsInGen int
	reorged   bool // a Pop was followed by an Add since the manager was (re)opened
	l1seen    map[types.HashHeight]bool
	l1probe   bool

	finger              [32]byte
	commits             int
	pops                int
	histReads           int
	staleTried          int
	scans               int
	concPhases          int
	needReopen          bool
	valCounter          int
	stopped             bool
	emptyHiddenReported bool
	laterKeyReported    bool
}

func (c *c07) logf(format string, a ...any) {
	s := fmt.Sprintf(format, a...)
	c.r.Logf("%s", s)
	h := sha256.New()
	h.Write(c.finger[:])
	h.Write([]byte(s))
	copy(c.finger[:], h.Sum(nil))
}

func (c *c07) kindName() string {
	if c.kind == c07LevelDB {
		return "leveldb"
	}
	return "memdb"
}

func (c *c07) frontier() *c07ver { return c.chain[len(c.chain)-1] }

func (c *c07) onChain(v *c07ver) bool {
	for _, x := range c.chain {
		if x == v {
			return true
		}
	}
	return false
}

// ------------------------------------------------------------- generators ----

func (c *c07) genKey() string {
	if c.freshKeys > 0 {
		// a key no earlier commit has touched
		c.freshKeys--
		c.freshSeq++
		return fmt.Sprintf("z%d", c.freshSeq)
	}
	l := c.t.Pick([]int{1, 3, 4, 3, 2})
	b := make([]byte, l)
	for i := range b {
		b[i] = c07Alphabet[c.t.Choose(len(c07Alphabet))]
	}
	return string(b)
}

func (c *c07) genPrefix() string {
	l := c.t.Pick([]int{2, 4, 3, 1})
	b := make([]byte, l)
	for i := range b {
		b[i] = c07Alphabet[c.t.Choose(len(c07Alphabet))]
	}
	return string(b)
}

func (c *c07) genValue() []byte {
	we := 0
	if c.emptyVals {
		we = 3
	}
	switch c.t.Pick([]int{4, 3, 2, we, 2, 1}) {
	case 0:
		return []byte{byte('x' + c.t.Choose(3))}
	case 1:
		c.valCounter++
		return []byte(fmt.Sprintf("v%d", c.valCounter))
	case 2:
		return []byte{0} // a value that looks like the raw "present" marker
	case 3:
		c.r.Probe("empty-value-written")
		return []byte{}
	case 4:
		return c.t.Bytes(1 + c.t.Choose(8))
	default:
		return bytes.Repeat([]byte{byte(c.t.Choose(256))}, 20+c.t.Choose(60))
	}
}

func (c *c07) newHash(tag string) types.Hash {
	c.nextC++
	return types.NewHash([]byte(fmt.Sprintf("c07-%s-%d", tag, c.nextC)))
}

// --------------------------------------------------------------- reading ----

func c07scan(d db.DB, prefix string) (live []c07kv, tombs int, err error) {
	it := d.NewIterator([]byte(prefix))
	defer it.Release()
	for it.Next() {
		v := it.Value()
		if v == nil {
			tombs++
			continue
		}
		live = append(live, c07kv{string(it.Key()), append([]byte{}, v...)})
	}
	return live, tombs, it.Error()
}

func c07isSystemKey(k string) bool { return len(k) > 0 && k[0] < 'a' }

// c07mis is one deviation of a view from the model, found by the pure comparison
// functions (they touch neither the run nor the check: reader goroutines use them).
type c07mis struct {
	clause, what, detail string
	// the two tolerated, separately reported patterns: d8 = empty value hidden in a historical
	// scan, d12 = key created later reported present-empty by a historical lookup
	d8, d12 bool
}

// viewMismatch decides the signature of a deviation and ends the run.
func (c *c07) viewMismatch(v *c07view, clause, what, format string, a ...any) {
	root := v.n.root()
	detail := fmt.Sprintf("%s (%s manager, frontier %s): ", v, c.kindName(), c07id(c.frontier().id)) + fmt.Sprintf(format, a...)
	if root.hist && c.reorged {
		c.r.Report(c07SigStaleCacheClause, c07SigStaleCacheDisc, "%s [a commit above this version was rolled back and a different one committed since the manager was opened]", detail)
		c.r.Abort()
	}
	c.r.Fail(clause, root.class+"-"+what, "%s", detail)
}

// settle reports a deviation found by a comparison function. The two tolerated
// patterns are reported (once per run) and the run goes on; anything else ends it.
func (c *c07) settle(v *c07view, m *c07mis) {
	switch {
	case m == nil:
	case m.d12:
		if !c.laterKeyReported {
			c.laterKeyReported = true
			c.r.Report(c07SigLaterKeyClause, c07SigLaterKeyDisc, "%s", m.detail)
		}
	case m.d8:
		if !c.emptyHiddenReported {
			c.emptyHiddenReported = true
			c.r.Report(c07SigEmptyHiddenClause, c07SigEmptyHiddenDisc, "%s", m.detail)
		}
	default:
		c.viewMismatch(v, m.clause, m.what, "%s", m.detail)
	}
}

// c07cmpLookup compares Has and Get of one key with the model.
func c07cmpLookup(v *c07view, key string) *c07mis {
	mv, mok := v.n.lookup(v.prefix + key)
	has, herr := v.d.Has([]byte(key))
	val, gerr := v.d.Get([]byte(key))
	root := v.n.root()
	mis := func(what, format string, a ...any) *c07mis {
		return &c07mis{clause: "view-lookup", what: what, detail: fmt.Sprintf(format, a...)}
	}
	if herr != nil {
		return mis("has-error", "Has(%q) returned error %v", key, herr)
	}
	if !mok && has && gerr == nil && len(val) == 0 && root.hist {
		// "later key" pattern: a key that did not exist at the version is reported present with an empty value
		return &c07mis{d12: true, detail: fmt.Sprintf("%s: key %q did not exist at this version (a later commit created it) but Has=true and Get returns an empty value without error; model: absent", v, key)}
	}
	if has != mok {
		return mis("has-mismatch", "Has(%q)=%v, model says %v (Get -> %s, %v; model value %s)", key, has, mok, c07val(val), gerr, c07val(mv))
	}
	if mok {
		if gerr != nil {
			return mis("get-error", "Get(%q) returned error %v, model value %s", key, gerr, c07val(mv))
		}
		if !bytes.Equal(val, mv) {
			return mis("get-mismatch", "Get(%q)=%s, model value %s", key, c07val(val), c07val(mv))
		}
	} else if gerr != leveldb.ErrNotFound {
		return mis("get-mismatch", "Get(%q)=%s,%v for a key the model says is absent (want leveldb.ErrNotFound)", key, c07val(val), gerr)
	}
	return nil
}

func (c *c07) checkLookup(v *c07view, key string) {
	if v.n.root().hist {
		c.histReads++
	}
	c.settle(v, c07cmpLookup(v, key))
}

// c07cmpScan compares one ordered prefix scan with the model.
func c07cmpScan(v *c07view, scan string) *c07mis {
	want := v.expected(scan)
	got, tombs, err := c07scan(v.d, scan)
	root := v.n.root()
	mis := func(what, format string, a ...any) *c07mis {
		return &c07mis{clause: "view-scan", what: what, detail: fmt.Sprintf(format, a...)}
	}
	if err != nil {
		return mis("iterator-error", "scan %q: iterator error %v", scan, err)
	}
	if v.fullPrefix() == "" {
		// root-level scan: the store's own bookkeeping keys are checked through accessors
		f := got[:0:0]
		for _, e := range got {
			if !c07isSystemKey(e.k) {
				f = append(f, e)
			}
		}
		got = f
	}
	for i := 1; i < len(got); i++ {
		if got[i-1].k >= got[i].k {
			return mis("order", "scan %q: key %q yielded after %q", scan, got[i].k, got[i-1].k)
		}
	}
	for _, e := range got {
		if !strings.HasPrefix(e.k, scan) {
			return mis("outside-prefix", "scan %q yielded key %q", scan, e.k)
		}
	}
	if c07sameKVs(want, got) {
		return nil
	}
	// "empty value hidden" pattern: the only differences are model keys with an EMPTY value that come
	// from the version itself (not from the view's writes) and are missing in a
	// historical view's scan
	if root.hist {
		gm := map[string][]byte{}
		for _, e := range got {
			gm[e.k] = e.v
		}
		var reduced []c07kv
		var hidden []string
		for _, e := range want {
			if _, ok := gm[e.k]; !ok && len(e.v) == 0 && v.n.fromBase(v.prefix+e.k) {
				hidden = append(hidden, e.k)
				continue
			}
			reduced = append(reduced, e)
		}
		agree := true
		for _, k := range hidden {
			has, herr := v.d.Has([]byte(k))
			val, gerr := v.d.Get([]byte(k))
			if !has || herr != nil || gerr != nil || len(val) != 0 {
				agree = false
			}
		}
		if len(hidden) > 0 && agree && c07sameKVs(reduced, got) {
			return &c07mis{d8: true, detail: fmt.Sprintf("%s scan %q: keys %q exist at this version with an empty value (Has=true and Get returns the empty value on this very view) but the ordered scan does not yield them; yielded %s, model %s", v, scan, hidden, c07kvs(got), c07kvs(want))}
		}
	}
	what, d := c07diffKVs(want, got)
	return mis(what, "scan %q (%d tombstone entries skipped): %s; yielded %s, model %s", scan, tombs, d, c07kvs(got), c07kvs(want))
}

func (c *c07) checkScan(v *c07view, scan string) {
	c.scans++
	c.r.Probe("iterator-compared")
	if v.n.root().hist {
		c.histReads++
	}
	c.settle(v, c07cmpScan(v, scan))
}

func c07sameKVs(a, b []c07kv) bool {
	if len(a) != len(b) {
		return false
	}
	for i := range a {
		if a[i].k != b[i].k || !bytes.Equal(a[i].v, b[i].v) {
			return false
		}
	}
	return true
}

func c07kvs(a []c07kv) string {
	var sb strings.Builder
	sb.WriteString("{")
	for i, e := range a {
		if i > 0 {
			sb.WriteString(" ")
		}
		if i >= 40 {
			sb.WriteString("…")
			break
		}
		fmt.Fprintf(&sb, "%q=%s", e.k, c07val(e.v))
	}
	sb.WriteString("}")
	return sb.String()
}

func c07diffKVs(want, got []c07kv) (string, string) {
	wm, gm := map[string][]byte{}, map[string][]byte{}
	for _, e := range want {
		wm[e.k] = e.v
	}
	for _, e := range got {
		gm[e.k] = e.v
	}
	for _, e := range want {
		if g, ok := gm[e.k]; !ok {
			return "missing-key", fmt.Sprintf("live key %q (value %s) not yielded", e.k, c07val(e.v))
		} else if !bytes.Equal(g, e.v) {
			return "wrong-value", fmt.Sprintf("key %q yielded with value %s, model %s", e.k, c07val(g), c07val(e.v))
		}
	}
	for _, e := range got {
		if _, ok := wm[e.k]; !ok {
			return "extra-key", fmt.Sprintf("key %q (value %s) yielded but absent in the model", e.k, c07val(e.v))
		}
	}
	return "order", "same entries, different order or duplicates"
}

// lookupAllowed: with the histAbsent knob off, absent keys are not looked up on
// historical views (keeps a share of the runs clear of a known finding).
func (c *c07) lookupAllowed(v *c07view, key string) bool {
	if c.histAbsent || !v.n.root().hist {
		return true
	}
	_, ok := v.n.lookup(v.prefix + key)
	return ok
}

// fullCompare: complete scan plus (optionally) a lookup of every possible key.
func (c *c07) fullCompare(v *c07view, lookups bool) {
	c.checkScan(v, "")
	if lookups {
		for _, k := range c07AllKeys {
			if c.lookupAllowed(v, k) {
				c.checkLookup(v, k)
			}
		}
	}
	c.checkSystem(v)
}

// checkSystem: the store's own records, through the public accessors.
func (c *c07) checkSystem(v *c07view) {
	if v.n.parent != nil || v.prefix != "" {
		return
	}
	base := v.n.base
	root := v.n
	call := func(what string, f func()) (panicked bool) {
		defer func() {
			if p := recover(); p != nil {
				panicked = true
				c.logf("  %s panicked: %v", what, p)
			}
		}()
		f()
		return false
	}
	var got types.HashHeight
	if call("GetFrontierIdentifier", func() { got = db.GetFrontierIdentifier(v.d) }) {
		c.viewMismatch(v, "view-system", "frontier-identifier-panic", "db.GetFrontierIdentifier panicked")
	}
	if got != base.id {
		c.viewMismatch(v, "view-system", "frontier-identifier", "db.GetFrontierIdentifier = %s, the view was opened at %s", c07id(got), c07id(base.id))
	}
	// records of commits at or below the version: a few of them
	es := base.entries
	pick := []int{}
	if len(es) > 0 {
		pick = append(pick, len(es)-1)
	}
	if len(es) > 1 {
		pick = append(pick, 0)
	}
	if len(es) > 2 {
		pick = append(pick, len(es)/2)
	}
	for _, i := range pick {
		e := es[i]
		data, err := db.GetEntryByHeight(v.d, e.height)
		if err != nil || !bytes.Equal(data, e.data) {
			c.viewMismatch(v, "view-system", "entry-by-height", "GetEntryByHeight(%d) = %s, %v; committed record %s", e.height, c07val(data), err, c07val(e.data))
		}
		var id *types.HashHeight
		var ierr error
		if call("GetIdentifierByHash", func() { id, ierr = db.GetIdentifierByHash(v.d, e.hash) }) {
			c.viewMismatch(v, "view-system", "identifier-by-hash-panic", "GetIdentifierByHash(%x) of a commit below the version panicked", e.hash[:3])
		}
		if ierr != nil || id == nil || id.Height != e.height {
			c.viewMismatch(v, "view-system", "identifier-by-hash", "GetIdentifierByHash(%x) = %v, %v; committed at height %d", e.hash[:3], id, ierr, e.height)
		}
	}
	// a commit that is NOT part of this version: the next one on the chain, or the last popped one
	var later *c07entry
	for i, x := range c.chain {
		if x == base && i+1 < len(c.chain) {
			le := c.chain[i+1].entries
			later = &le[len(le)-1]
		}
	}
	if later == nil && len(c.popped) > 0 {
		le := c.popped[len(c.popped)-1].entries
		if len(le) > 0 && le[len(le)-1].height > base.id.Height {
			later = &le[len(le)-1]
		}
	}
	if later == nil || (root.hist && !c.histAbsent) {
		return
	}
	data, err := db.GetEntryByHeight(v.d, later.height)
	if root.hist && err == nil && len(data) == 0 {
		if !c.laterKeyReported {
			c.laterKeyReported = true
			c.r.Report(c07SigLaterKeyClause, c07SigLaterKeyDisc, "%s: GetEntryByHeight(%d) — a height above the version — returns an empty record without error; want leveldb.ErrNotFound", v, later.height)
		}
	} else if err != leveldb.ErrNotFound {
		c.viewMismatch(v, "view-system", "later-entry-visible", "GetEntryByHeight(%d) = %s, %v but the version's height is %d", later.height, c07val(data), err, base.id.Height)
	}
	var id *types.HashHeight
	var ierr error
	if call("GetIdentifierByHash(later)", func() { id, ierr = db.GetIdentifierByHash(v.d, later.hash) }) {
		if root.hist {
			c.r.Report(c07SigLaterKeyClause, c07SigLaterKeyPanicDisc, "%s: GetIdentifierByHash(%x) — the hash of a commit made after this version — panics instead of returning leveldb.ErrNotFound (the hash index entry is reported present with an empty value)", v, later.hash[:3])
			return
		}
		c.viewMismatch(v, "view-system", "identifier-by-hash-panic", "GetIdentifierByHash(%x) of a commit above the version panicked", later.hash[:3])
	}
	if ierr != leveldb.ErrNotFound {
		c.viewMismatch(v, "view-system", "later-hash-visible", "GetIdentifierByHash(%x) = %v, %v for a commit that is not part of version %s", later.hash[:3], id, ierr, c07id(base.id))
	}
}

// ------------------------------------------------------------- the store ----

// dumpStore: everything reachable through the manager: the frontier's raw
// iteration (tombstone entries included) and every stored patch.
func (c *c07) dumpStore() string {
	h := sha256.New()
	f := c.m.Frontier()
	n := 0
	if f != nil {
		it := f.NewIterator(nil)
		for it.Next() {
			v := it.Value()
			fmt.Fprintf(h, "%x=%x/%v\n", it.Key(), v, v == nil)
			n++
		}
		it.Release()
	}
	if c.kind == c07LevelDB {
		for ht := uint64(0); ht <= c.maxH+2; ht++ {
			if p := c.m.GetPatch(types.HashHeight{Height: ht}); p != nil {
				fmt.Fprintf(h, "patch %d %x\n", ht, p.Dump())
			}
		}
	} else {
		for _, id := range c.idsEver {
			if p := c.m.GetPatch(id); p != nil {
				fmt.Fprintf(h, "patch %s %x\n", c07id(id), p.Dump())
			}
		}
	}
	return fmt.Sprintf("%d entries %s", n, hex.EncodeToString(h.Sum(nil)[:8]))
}

// rawDump reads the LevelDB directory with goleveldb directly (manager stopped).
func (c *c07) rawDump() string {
	ldb, err := leveldb.OpenFile(c.dir, &opt.Options{})
	if err != nil {
		c.r.Fail("harness", "raw-open", "%v", err)
	}
	h := sha256.New()
	n := 0
	it := ldb.NewIterator(nil, nil)
	for it.Next() {
		fmt.Fprintf(h, "%x=%x\n", it.Key(), it.Value())
		n++
	}
	it.Release()
	ldb.Close()
	c07drain()
	return fmt.Sprintf("%d raw keys %s", n, hex.EncodeToString(h.Sum(nil)[:8]))
}

// c07drain lets goleveldb's pool-drain goroutine finish after a Close (it waits one
// second of bubble time); otherwise it would stay behind in the dead bubble.
func c07drain() { time.Sleep(1100 * time.Millisecond) }

func (c *c07) stop() {
	if c.m != nil && !c.stopped {
		c.stopped = true
		c.m.Stop()
		if c.kind == c07LevelDB {
			c07drain()
		}
	}
}

func (c *c07) reopen(raw bool) string {
	if c.kind != c07LevelDB {
		return ""
	}
	if err := c.m.Stop(); err != nil {
		c.r.Fail("reopen", "stop-error", "%v", err)
	}
	c07drain()
	out := ""
	if raw {
		out = c.rawDump()
	}
	c.m = db.NewLevelDBManager(c.dir)
	c.gen++
	c.views = nil
	c.popsInGen = 0
	c.reorged = false
	c.l1seen = map[types.HashHeight]bool{}
	c.l1probe = false
	c.needReopen = false
	c.r.Probe("reopen")
	return out
}

func (c *c07) track(v *c07view) {
	c.views = append(c.views, v)
	if len(c.views) > c07MaxTrackedViews {
		c.views = append([]*c07view(nil), c.views[1:]...)
	}
}

func (c *c07) newRootView(d db.DB, ver *c07ver, hist bool) *c07view {
	c.nextV++
	class := "frontier"
	switch {
	case hist:
		class = "historical"
	case c.kind == c07MemDB:
		class = "memdb"
	case ver.id.IsZero() && len(c.chain) > 1:
		class = "zero"
	}
	return &c07view{id: c.nextV, d: d, n: &c07node{base: ver, overlay: map[string]c07w{}, hist: hist, class: class}}
}

// openAt opens a view at an on-chain version through Manager.Get (or Frontier).
func (c *c07) openAt(ver *c07ver, viaFrontier bool) *c07view {
	var d db.DB
	isFrontier := ver == c.frontier()
	if viaFrontier && isFrontier {
		d = c.m.Frontier()
	} else {
		d = c.m.Get(ver.id)
	}
	if d == nil {
		c.r.Fail("open-view", "nil-for-version-on-chain", "%s manager returned no view for identifier %s which is on the chain (frontier %s)", c.kindName(), c07id(ver.id), c07id(c.frontier().id))
	}
	hist := c.kind == c07LevelDB && !isFrontier && !ver.id.IsZero()
	if hist {
		diff := c.frontier().id.Height - ver.id.Height
		if diff >= c07CacheHeightLimit {
			c.r.Probe("l2-path")
		} else {
			c.l1seen[ver.id] = true
			if len(c.l1seen) > c07L1Size && !c.l1probe {
				c.l1probe = true
				c.r.Probe("l1-eviction")
			}
		}
		c.r.Probe("historical-open")
	}
	return c.newRootView(d, ver, hist)
}

func (c *c07) put(v *c07view, key string, val []byte) {
	if err := v.d.Put([]byte(key), val); err != nil {
		c.r.Fail("view-write", "put-error", "%s Put(%q): %v", v, key, err)
	}
	v.n.overlay[v.prefix+key] = c07w{val: val}
}

func (c *c07) del(v *c07view, key string) {
	if err := v.d.Delete([]byte(key)); err != nil {
		c.r.Fail("view-write", "delete-error", "%s Delete(%q): %v", v, key, err)
	}
	v.n.overlay[v.prefix+key] = c07w{del: true}
}

// write: one tape-chosen Put or Delete (deletes prefer live keys: deletions and
// re-creations of the same key are the interesting histories).
func (c *c07) write(v *c07view) {
	key := c.genKey()
	if c.t.Choose(3) == 2 {
		if c.t.Bool() {
			// delete a live key of the view if there is one
			if ex := v.expected(""); len(ex) > 0 {
				key = ex[c.t.Choose(len(ex))].k
			}
		}
		c.logf("%s Delete(%q)", v, key)
		c.del(v, key)
		return
	}
	val := c.genValue()
	c.logf("%s Put(%q, %s)", v, key, c07val(val))
	c.put(v, key, val)
}

// overlayOf: the view's own writes as seen through its prefix window.
func (v *c07view) overlayOf() map[string]c07w {
	out := map[string]c07w{}
	for k, w := range v.n.overlay {
		if strings.HasPrefix(k, v.prefix) {
			out[k[len(v.prefix):]] = w
		}
	}
	return out
}

func (c *c07) checkChanges(v *c07view) db.Patch {
	p, err := v.d.Changes()
	if err != nil || p == nil {
		c.r.Fail("changes", "error", "%s Changes(): %v", v, err)
	}
	col := &c07collector{}
	if err := p.Replay(col); err != nil {
		c.r.Fail("changes", "replay-error", "%s: %v", v, err)
	}
	// replay on the parent's model state must reproduce the view's state
	var parent map[string][]byte
	if v.n.parent != nil {
		parent = map[string][]byte{}
		for k, val := range v.n.parent.state() {
			if strings.HasPrefix(k, v.n.pprefix) {
				parent[k[len(v.n.pprefix):]] = val
			}
		}
	} else {
		parent = map[string][]byte{}
		for k, val := range v.n.base.state {
			parent[k] = val
		}
	}
	win := map[string][]byte{}
	for k, val := range parent {
		if strings.HasPrefix(k, v.prefix) {
			win[k[len(v.prefix):]] = val
		}
	}
	last := map[string]c07w{}
	for _, op := range col.ops {
		last[op.key] = op.w
		if op.w.del {
			delete(win, op.key)
		} else {
			win[op.key] = op.w.val
		}
	}
	want := v.expected("")
	var got []c07kv
	for k, val := range win {
		got = append(got, c07kv{k, val})
	}
	sort.Slice(got, func(i, j int) bool { return got[i].k < got[j].k })
	if !c07sameKVs(want, got) {
		what, d := c07diffKVs(want, got)
		c.r.Fail("changes", "replay-differs", "%s: Changes() replayed on the parent's state does not give the view's state (%s: %s); patch %v", v, what, d, c07ops(col.ops))
	}
	// exactly the view's own writes
	own := v.overlayOf()
	bad := ""
	for k, w := range last {
		o, ok := own[k]
		if !ok {
			bad = fmt.Sprintf("entry for %q which the view never wrote", k)
		} else if o.del != w.del || !bytes.Equal(o.val, w.val) {
			bad = fmt.Sprintf("entry for %q is %v/%s, the view's last write was %v/%s", k, w.del, c07val(w.val), o.del, c07val(o.val))
		}
	}
	for k := range own {
		if _, ok := last[k]; !ok {
			bad = fmt.Sprintf("write to %q missing", k)
		}
	}
	if bad != "" {
		c.r.Fail("changes", "not-exactly-own-writes", "%s: %s; patch %v", v, bad, c07ops(col.ops))
	}
	c.r.Probe("changes-compared")
	return p
}

func c07ops(ops []c07patchOp) string {
	var sb strings.Builder
	for i, op := range ops {
		if i > 0 {
			sb.WriteString(" ")
		}
		if i > 30 {
			sb.WriteString("…")
			break
		}
		if op.w.del {
			fmt.Fprintf(&sb, "del(%q)", op.key)
		} else {
			fmt.Fprintf(&sb, "put(%q,%s)", op.key, c07val(op.w.val))
		}
	}
	return sb.String()
}

func (c *c07) checkFrontier(lookups bool) {
	f := c.openAt(c.frontier(), true)
	c.fullCompare(f, lookups)
}

// applyToState gives parent state + the view's own writes
func c07apply(parent map[string][]byte, ov map[string]c07w) map[string][]byte {
	out := make(map[string][]byte, len(parent)+len(ov))
	for k, v := range parent {
		out[k] = v
	}
	for k, w := range ov {
		if w.del {
			delete(out, k)
		} else {
			out[k] = w.val
		}
	}
	return out
}

type c07plan struct {
	parent  types.HashHeight
	commits []*c07commit
}

func (c *c07) planCommit(parent types.HashHeight, n int) *c07plan {
	p := &c07plan{parent: parent}
	prev := parent
	for i := 0; i < n; i++ {
		id := types.HashHeight{Hash: c.newHash("commit"), Height: prev.Height + 1}
		p.commits = append(p.commits, &c07commit{id: id, prev: prev, data: []byte(fmt.Sprintf("record-%d", c.nextC))})
		prev = id
	}
	return p
}

func (p *c07plan) head() types.HashHeight { return p.commits[len(p.commits)-1].id }

func (p *c07plan) tx(patch db.Patch) *c07tx {
	t := &c07tx{patch: patch}
	for _, cm := range p.commits {
		t.commits = append(t.commits, cm)
	}
	return t
}

// makeVersion builds the model version a plan produces on top of `parent` (pure).
func c07makeVersion(parent *c07ver, p *c07plan, state map[string][]byte) *c07ver {
	ver := &c07ver{id: p.head(), state: state}
	ver.entries = append([]c07entry(nil), parent.entries...)
	for _, cm := range p.commits {
		ver.entries = append(ver.entries, c07entry{cm.id.Height, cm.id.Hash, cm.data})
	}
	return ver
}

// pushVer records an accepted commit in the model.
func (c *c07) pushVer(ver *c07ver, p *c07plan) *c07ver {
	for _, cm := range p.commits {
		c.idsEver = append(c.idsEver, cm.id)
		if cm.id.Height > c.maxH {
			c.maxH = cm.id.Height
		}
	}
	c.chain = append(c.chain, ver)
	c.commits++
	if c.popsInGen > 0 {
		c.reorged = true
	}
	return ver
}

func (c *c07) pushVersion(p *c07plan, state map[string][]byte) *c07ver {
	return c.pushVer(c07makeVersion(c.frontier(), p, state), p)
}

// modelPop removes the frontier version from the model; nothing is demanded any
// more of views rooted at it (or of their descendants).
func (c *c07) modelPop() *c07ver {
	top := c.frontier()
	c.chain = c.chain[:len(c.chain)-1]
	c.popped = append(c.popped, top)
	c.pops++
	c.popsInGen++
	kept := c.views[:0:0]
	for _, v := range c.views {
		if v.n.root().base != top {
			kept = append(kept, v)
		}
	}
	c.views = kept
	return top
}

// commitFrom builds a transaction from the view's Changes() and adds it on the
// given parent. Returns true when the store accepted it.
func (c *c07) commitFrom(v *c07view, parent types.HashHeight, parentKind string, ncommits int, rawCheck bool) {
	patch := c.checkChanges(v)
	own := v.overlayOf()
	plan := c.planCommit(parent, ncommits)
	proper := parent == c.frontier().id
	c.logf("Add %s on parent %s (%s, frontier %s) from %s with %d writes, %d commits", c07id(plan.head()), c07id(parent), parentKind, c07id(c.frontier().id), v, len(own), ncommits)
	if proper {
		err := c.m.Add(plan.tx(patch))
		if err != nil {
			c.r.Fail("add-on-frontier", "refused-"+c.kindName(), "Add of %s on the current frontier %s returned %v", c07id(plan.head()), c07id(parent), err)
		}
		ver := c.pushVersion(plan, c07apply(c.frontier().state, own))
		got := db.GetFrontierIdentifier(c.m.Frontier())
		if got != ver.id {
			c.r.Fail("add-on-frontier", "frontier-not-moved", "after Add of %s the frontier identifier is %s", c07id(ver.id), c07id(got))
		}
		return
	}
	// any other parent must be refused without changing the store
	switch parentKind {
	case "unknown", "popped":
		c.r.Probe("unknown-parent-add-tried")
	default:
		c.r.Probe("stale-parent-add-tried")
		c.staleTried++
	}
	rawBefore := ""
	if rawCheck && c.kind == c07LevelDB {
		rawBefore = c.reopen(true)
		c.logf("  raw key space before: %s", rawBefore)
	}
	before := c.dumpStore()
	err := c.m.Add(plan.tx(patch))
	after := c.dumpStore()
	c.logf("  -> err=%v store %s -> %s", err != nil, before, after)
	changed := before != after
	if rawCheck && c.kind == c07LevelDB && !changed {
		rawAfter := c.reopen(true)
		if rawAfter != rawBefore {
			changed = true
			after = rawAfter
			before = rawBefore
		}
		c.r.Probe("raw-key-space-compared")
	}
	nowF := types.ZeroHashHeight
	if f := c.m.Frontier(); f != nil {
		nowF = db.GetFrontierIdentifier(f)
	}
	desc := fmt.Sprintf("Add of commit %s whose parent %s (%s) is not the current frontier %s on the %s manager", c07id(plan.head()), c07id(parent), parentKind, c07id(c.frontier().id), c.kindName())
	switch {
	case err == nil && changed:
		c.r.Report(c07SigStaleClause, "accepted-"+c.kindName(), "%s returned nil and changed the store (%s -> %s); the frontier identifier is now %s", desc, before, after, c07id(nowF))
		c.r.Abort() // the store no longer corresponds to any sequence of accepted commits
	case err == nil:
		c.r.Report(c07SigStaleClause, "silently-ignored-"+c.kindName(), "%s returned nil (no error) although nothing was committed", desc)
		c.r.Abort()
	case changed:
		c.r.Fail(c07SigStaleClause, "refused-but-store-changed-"+c.kindName(), "%s returned %v but the store changed (%s -> %s)", desc, err, before, after)
	}
	c.r.Probe("stale-or-unknown-parent-refused")
}

// ---------------------------------------------------------- operations ----

func (c *c07) pickView() *c07view {
	if len(c.views) == 0 {
		v := c.openAt(c.frontier(), true)
		c.logf("open %s (no tracked view)", v)
		c.track(v)
		return v
	}
	// index 0 = most recently opened
	return c.views[len(c.views)-1-c.t.Choose(len(c.views))]
}

func (c *c07) opOpen() {
	t := c.t
	how := t.Pick([]int{3, 6, 1, 1, 1, 1})
	switch how {
	case 0:
		v := c.openAt(c.frontier(), true)
		c.logf("open %s via Frontier()", v)
		c.track(v)
		c.fullCompare(v, t.Choose(4) == 0)
	case 1:
		// any version on the chain, recent ones more often
		idx := len(c.chain) - 1 - t.Choose(len(c.chain))
		if t.Choose(3) == 0 {
			idx = len(c.chain) - 1 - t.Choose(min(len(c.chain), 4))
		}
		ver := c.chain[idx]
		if ver.id.IsZero() && c.kind == c07MemDB && c.chain[0] != ver {
			return
		}
		v := c.openAt(ver, false)
		c.logf("open %s via Get(%s), frontier %s", v, c07id(ver.id), c07id(c.frontier().id))
		c.track(v)
		c.fullCompare(v, t.Choose(3) == 0)
	case 2:
		d := c.m.Get(types.ZeroHashHeight)
		c.logf("open zero identifier -> nil=%v", d == nil)
		if c.chain[0].id.IsZero() {
			if d == nil {
				c.r.Fail("open-view", "nil-for-zero-base", "Get(zero identifier) returned nil although the store's base is the zero identifier")
			}
			v := c.newRootView(d, c.chain[0], false)
			c.track(v)
			c.fullCompare(v, true)
		} else if d != nil {
			c.r.Fail("open-unknown", "view-returned-for-zero", "Get(zero identifier) returned a view although the base of the store is %s", c07id(c.chain[0].id))
		}
	case 3:
		id := types.HashHeight{Hash: c.newHash("unknown"), Height: uint64(t.Choose(int(c.maxH) + 3))}
		if id.Height == 0 {
			id.Height = 1
		}
		d := c.m.Get(id)
		c.logf("open unknown identifier %s -> nil=%v", c07id(id), d == nil)
		c.r.Probe("unknown-identifier-open")
		if d != nil {
			c.r.Fail("open-unknown", "view-returned", "Get(%s) returned a view for an identifier that was never committed", c07id(id))
		}
	case 4:
		if len(c.popped) == 0 {
			return
		}
		ver := c.popped[t.Choose(len(c.popped))]
		d := c.m.Get(ver.id)
		c.logf("open popped identifier %s -> nil=%v (nothing demanded)", c07id(ver.id), d == nil)
		c.r.Probe("popped-identifier-open")
	case 5:
		if len(c.chain) < 2 {
			return
		}
		ver := c.chain[1+t.Choose(len(c.chain)-1)]
		id := types.HashHeight{Hash: ver.id.Hash, Height: ver.id.Height + 1 + uint64(t.Choose(3))}
		d := c.m.Get(id)
		c.logf("open known hash with wrong height %s -> nil=%v", c07id(id), d == nil)
		if d != nil {
			c.r.Fail("open-unknown", "view-returned-for-wrong-height", "Get(%s) returned a view; the hash was committed at height %d", c07id(id), ver.id.Height)
		}
	}
}

func (c *c07) opRead() {
	v := c.pickView()
	switch c.t.Pick([]int{4, 4, 1}) {
	case 0:
		var key string
		if c.t.Bool() {
			key = c.genKey()
		} else if ex := v.expected(""); len(ex) > 0 {
			key = ex[c.t.Choose(len(ex))].k
		}
		if !c.lookupAllowed(v, key) {
			return
		}
		c.logf("%s lookup %q", v, key)
		c.checkLookup(v, key)
	case 1:
		p := c.genPrefix()
		c.logf("%s scan %q", v, p)
		c.checkScan(v, p)
	default:
		c.logf("%s full compare", v)
		c.fullCompare(v, true)
	}
}

func (c *c07) opWrite() {
	v := c.pickView()
	n := 1 + c.t.Choose(3)
	for i := 0; i < n; i++ {
		c.t.Span(func() { c.write(v) })
	}
	if c.t.Choose(3) == 0 {
		c.checkScan(v, "")
	}
}

func (c *c07) opDerive() {
	v := c.pickView()
	c.nextV++
	if c.t.Bool() {
		d := v.d.Snapshot()
		if d == nil {
			c.r.Fail("derive", "snapshot-nil", "%s Snapshot() returned nil", v)
		}
		nv := &c07view{id: c.nextV, d: d, n: &c07node{parent: v.n, pprefix: v.prefix, overlay: map[string]c07w{}}}
		c.logf("%s = Snapshot of %s", nv, v)
		c.track(nv)
		c.r.Probe("snapshot-view")
		c.checkScan(nv, "")
		return
	}
	p := c.genPrefix()
	d := v.d.Subset([]byte(p))
	if d == nil {
		c.r.Fail("derive", "subset-nil", "%s Subset(%q) returned nil", v, p)
	}
	nv := &c07view{id: c.nextV, d: d, n: v.n, prefix: v.prefix + p}
	c.logf("%s = Subset(%q) of %s", nv, p, v)
	c.track(nv)
	c.r.Probe("subset-view")
	c.checkScan(nv, "")
}

func (c *c07) opChanges() {
	v := c.pickView()
	c.logf("%s Changes()", v)
	c.checkChanges(v)
}

func (c *c07) opApply() {
	v := c.pickView()
	p := db.NewPatch()
	var ops []c07patchOp
	if len(c.views) > 1 && c.t.Choose(3) == 0 {
		// the change set of another view
		src := c.pickView()
		sp := c.checkChanges(src)
		col := &c07collector{}
		sp.Replay(col)
		ops = col.ops
		p = sp
		c.logf("%s Apply(Changes of %s: %s)", v, src, c07ops(ops))
	} else {
		n := 1 + c.t.Choose(4)
		for i := 0; i < n; i++ {
			c.t.Span(func() {
				k := c.genKey()
				if c.t.Choose(3) == 2 {
					p.Delete([]byte(k))
					ops = append(ops, c07patchOp{k, c07w{del: true}})
				} else {
					val := c.genValue()
					p.Put([]byte(k), val)
					ops = append(ops, c07patchOp{k, c07w{val: val}})
				}
			})
		}
		c.logf("%s Apply(%s)", v, c07ops(ops))
	}
	if err := v.d.Apply(p); err != nil {
		c.r.Fail("view-write", "apply-error", "%s Apply: %v", v, err)
	}
	for _, op := range ops {
		v.n.overlay[v.prefix+op.key] = op.w
	}
	c.r.Probe("apply")
	c.checkScan(v, "")
}

func (c *c07) opCommit() {
	t := c.t
	var v *c07view
	if len(c.views) == 0 || t.Choose(3) != 2 {
		v = c.openAt(c.frontier(), t.Bool())
		c.track(v)
	} else {
		v = c.pickView()
	}
	n := t.Choose(4)
	for i := 0; i < n; i++ {
		t.Span(func() { c.write(v) })
	}
	mode := t.Pick([]int{6, 2, 1, 1, 1})
	parent, pk := c.frontier().id, "frontier"
	switch mode {
	case 0:
		// natural flow: the parent is the version the view was opened at
		base := v.n.root().base
		if base != c.frontier() {
			if c.staleAdds && c.onChain(base) {
				parent, pk = base.id, "stale on-chain version the view was opened at"
			}
		}
	case 1:
		if c.staleAdds && len(c.chain) > 1 {
			idx := t.Choose(len(c.chain) - 1)
			parent, pk = c.chain[idx].id, "stale on-chain version"
			if parent.IsZero() {
				pk = "zero identifier"
			}
		}
	case 2:
		parent, pk = types.HashHeight{Hash: c.newHash("unknown-parent"), Height: c.frontier().id.Height}, "unknown"
		if t.Bool() {
			parent.Height = uint64(t.Choose(int(c.maxH) + 2))
		}
		if parent.Height == 0 {
			parent.Height = 1
		}
	case 3:
		if c.staleAdds && !c.frontier().id.IsZero() {
			parent, pk = types.ZeroHashHeight, "zero identifier"
		}
	case 4:
		if len(c.popped) > 0 {
			ver := c.popped[t.Choose(len(c.popped))]
			parent, pk = ver.id, "popped"
		}
	}
	ncommits := 1
	if c.kind == c07MemDB && t.Choose(4) == 0 {
		ncommits = 2 + t.Choose(2)
		c.r.Probe("multi-commit-transaction")
	}
	rawCheck := t.Choose(4) == 0
	c.commitFrom(v, parent, pk, ncommits, rawCheck)
	switch t.Choose(4) {
	case 1:
		c.checkFrontier(t.Bool())
	case 2:
		// views opened before the commit keep showing their version
		for _, ov := range c.views {
			c.checkScan(ov, "")
		}
		c.r.Probe("views-reread-after-add")
	}
}

func (c *c07) opPop() {
	if c.popPolicy == c07PopPolicyNone {
		return
	}
	if len(c.chain) == 1 {
		if c.kind == c07MemDB {
			before := c.dumpStore()
			err := c.m.Pop()
			after := c.dumpStore()
			c.logf("Pop at the stable base -> err=%v", err != nil)
			if before != after {
				c.r.Fail("pop", "base-changed", "Pop at the stable base (err=%v) changed the store: %s -> %s", err, before, after)
			}
			c.r.Probe("pop-at-base")
		}
		return
	}
	top := c.frontier()
	err := c.m.Pop()
	c.logf("Pop %s -> err=%v", c07id(top.id), err != nil)
	if err != nil {
		c.r.Fail("pop", "error", "Pop of %s returned %v", c07id(top.id), err)
	}
	c.modelPop()
	c.r.Probe("pop")
	got := db.GetFrontierIdentifier(c.m.Frontier())
	if got != c.frontier().id {
		c.r.Fail("pop", "frontier-identifier", "after Pop of %s the frontier identifier is %s, want %s", c07id(top.id), c07id(got), c07id(c.frontier().id))
	}
	c.checkFrontier(c.t.Bool())
	if c.t.Bool() {
		// views of surviving versions are unchanged by the rollback
		for _, v := range c.views {
			c.checkScan(v, "")
		}
		c.r.Probe("views-reread-after-pop")
	}
	if c.popPolicy == c07PopPolicyReopen && c.kind == c07LevelDB {
		c.needReopen = true
	}
}

func (c *c07) opReopen() {
	if c.kind != c07LevelDB {
		return
	}
	raw := c.t.Choose(4) == 0
	s := c.reopen(raw)
	c.logf("reopen (Stop + NewLevelDBManager on the same directory) %s", s)
	c.checkFrontier(true)
}

func (c *c07) opPatch() {
	if len(c.chain) < 2 {
		return
	}
	idx := 1 + c.t.Choose(len(c.chain)-1)
	ver, prev := c.chain[idx], c.chain[idx-1]
	p := c.m.GetPatch(ver.id)
	c.logf("GetPatch(%s) nil=%v", c07id(ver.id), p == nil)
	if p == nil {
		c.r.Fail("commit-patch", "missing", "GetPatch(%s) returned nil for a commit on the chain", c07id(ver.id))
	}
	col := &c07collector{}
	if err := p.Replay(col); err != nil {
		c.r.Fail("commit-patch", "replay-error", "%v", err)
	}
	st := map[string][]byte{}
	for k, v := range prev.state {
		st[k] = v
	}
	for _, op := range col.ops {
		if c07isSystemKey(op.key) {
			continue
		}
		if op.w.del {
			delete(st, op.key)
		} else {
			st[op.key] = op.w.val
		}
	}
	var want, got []c07kv
	for k, v := range ver.state {
		want = append(want, c07kv{k, v})
	}
	for k, v := range st {
		got = append(got, c07kv{k, v})
	}
	sort.Slice(want, func(i, j int) bool { return want[i].k < want[j].k })
	sort.Slice(got, func(i, j int) bool { return got[i].k < got[j].k })
	if !c07sameKVs(want, got) {
		what, d := c07diffKVs(want, got)
		c.r.Fail("commit-patch", "replay-differs", "GetPatch(%s) replayed on the previous version does not give the version (%s: %s)", c07id(ver.id), what, d)
	}
	c.r.Probe("commit-patch-compared")
}

// isolation: two views of the same version do not see each other's writes, and a
// Snapshot's writes do not reach its parent.
func (c *c07) opIsolation() {
	ver := c.chain[len(c.chain)-1-c.t.Choose(min(len(c.chain), 3))]
	if ver.id.IsZero() && c.kind == c07MemDB && c.chain[0] != ver {
		return
	}
	a := c.openAt(ver, false)
	b := c.openAt(ver, c.t.Bool())
	c.logf("isolation: %s and %s at %s", a, b, c07id(ver.id))
	c.t.Span(func() { c.write(a) })
	c.t.Span(func() { c.write(a) })
	c.checkScan(b, "")
	c.checkScan(a, "")
	c.nextV++
	child := &c07view{id: c.nextV, d: a.d.Snapshot(), n: &c07node{parent: a.n, pprefix: "", overlay: map[string]c07w{}}}
	c.t.Span(func() { c.write(child) })
	c.checkScan(a, "")
	c.checkScan(child, "")
	c.track(a)
	c.track(child)
	c.r.Probe("isolation-compared")
}

// bulk: many small commits on the frontier (long runs).
func (c *c07) bulk(n int) {
	c.logf("bulk: %d small commits", n)
	for i := 0; i < n; i++ {
		c.t.Span(func() {
			v := c.openAt(c.frontier(), true)
			k := c.genKey()
			if c.t.Choose(4) == 3 {
				c.del(v, k)
			} else {
				c.put(v, k, c.genValue())
			}
			p, err := v.d.Changes()
			if err != nil {
				c.r.Fail("changes", "error", "%v", err)
			}
			plan := c.planCommit(c.frontier().id, 1)
			if err := c.m.Add(plan.tx(p)); err != nil {
				c.r.Fail("add-on-frontier", "refused-"+c.kindName(), "bulk Add of %s on the frontier %s returned %v", c07id(plan.head()), c07id(c.frontier().id), err)
			}
			c.pushVersion(plan, c07apply(c.frontier().state, v.overlayOf()))
		})
	}
	c.checkFrontier(false)
}

// sweep: open a view at each of the `n` versions below the frontier and compare one scan.
func (c *c07) sweep(n int, scan string) {
	top := len(c.chain) - 2
	c.logf("sweep: historical views of %d versions below the frontier %s, scan %q", n, c07id(c.frontier().id), scan)
	cnt := 0
	for i := top; i >= 1 && cnt < n; i-- {
		v := c.openAt(c.chain[i], false)
		c.checkScan(v, scan)
		if cnt%37 == 0 {
			c.checkSystem(v)
		}
		cnt++
	}
	c.logf("sweep done: %d views, %d distinct identifiers in the near-frontier range since open", cnt, len(c.l1seen))
}

func (c *c07) step() {
	t := c.t
	if c.needReopen {
		s := c.reopen(false)
		c.logf("reopen after Pop (pop policy) %s", s)
	}
	wPop, wReopen, wConc, wSweep := 3, 2, 0, 0
	if c.popPolicy == c07PopPolicyNone {
		wPop = 0
	}
	if c.kind != c07LevelDB {
		wReopen = 0
	}
	if c.conc && c.concPhases < 3 {
		wConc = 2
	}
	if c.long && c.kind == c07LevelDB {
		wSweep = 1
	}
	switch t.Pick([]int{8, 5, 6, 7, 3, 2, 2, wPop, wReopen, 1, 1, wConc, wSweep}) {
	case 0:
		c.opRead()
	case 1:
		c.opOpen()
	case 2:
		c.opWrite()
	case 3:
		c.opCommit()
	case 4:
		c.opDerive()
	case 5:
		c.opChanges()
	case 6:
		c.opApply()
	case 7:
		c.opPop()
	case 8:
		c.opReopen()
	case 9:
		c.opPatch()
	case 10:
		c.opIsolation()
	case 11:
		c.concurrentPhase()
	case 12:
		c.sweep(20+t.Choose(60), c.genPrefix())
	}
}

func runC07(r *simrt.Run) {
	t := r.T
	c := &c07{r: r, t: t, l1seen: map[types.HashHeight]bool{}}
	c.kind = t.Pick([]int{2, 1})
	c.emptyVals = t.Choose(2) == 1
	c.staleAdds = t.Choose(3) == 2
	c.histAbsent = t.Choose(2) == 1
	c.popPolicy = t.Pick([]int{3, 1, 1})
	c.conc = t.Choose(3) != 0
	longDen := 14
	if r.Tier == "thorough" {
		longDen = 5
	}
	c.long = c.kind == c07LevelDB && t.Choose(longDen) == longDen-1
	r.Cleanup(c.stop)

	base := &c07ver{id: types.ZeroHashHeight, state: map[string][]byte{}}
	if c.kind == c07LevelDB {
		c.dir = r.TempDir()
		c.m = db.NewLevelDBManager(c.dir)
	} else {
		raw := db.NewMemDB()
		// the stable base: optionally some content, optionally a frontier record
		n := t.Choose(4)
		for i := 0; i < n; i++ {
			t.Span(func() {
				k, v := c.genKey(), c.genValue()
				raw.Put([]byte(k), v)
				base.state[k] = v
			})
		}
		if t.Bool() {
			id := types.HashHeight{Hash: c.newHash("stable"), Height: uint64(1 + t.Choose(5))}
			data := []byte("stable-record")
			if err := db.SetFrontier(raw, id, data); err != nil {
				r.Fail("harness", "set-frontier", "%v", err)
			}
			base.id = id
			base.entries = []c07entry{{id.Height, id.Hash, data}}
			c.maxH = id.Height
			c.idsEver = append(c.idsEver, id)
		}
		c.m = db.NewMemDBManager(raw)
	}
	c.chain = []*c07ver{base}
	r.Probe("run-" + c.kindName())
	for _, k := range []struct {
		name string
		on   bool
	}{{"knob-empty-values", c.emptyVals}, {"knob-stale-parent-adds", c.staleAdds}, {"knob-absent-lookups-on-historical", c.histAbsent},
		{"knob-pops-free", c.popPolicy == c07PopPolicyFree}, {"knob-pops-then-reopen", c.popPolicy == c07PopPolicyReopen},
		{"knob-long-chain", c.long}, {"knob-concurrent-phases", c.conc}} {
		if k.on {
			r.Probe(k.name)
		}
	}
	c.logf("C07 %s manager, base %s (%d keys); knobs empty-values=%v stale-adds=%v absent-lookups-on-historical=%v pop-policy=%d long=%v concurrent=%v",
		c.kindName(), c07id(base.id), len(base.state), c.emptyVals, c.staleAdds, c.histAbsent, c.popPolicy, c.long, c.conc)
	c.checkFrontier(true)

	var far []*c07ver
	if c.long {
		// > 400 distinct identifiers within 360 heights of a moving frontier evict the
		// first-level cache; versions more than 360 below the frontier take the second level
		c.bulk(365 + t.Choose(80))
		c.sweep(359, c.genPrefix())
		c.bulk(45 + t.Choose(60))
		c.sweep(110, c.genPrefix())
		// re-read some of the earliest (evicted, and by now far) versions
		for i := 0; i < 4; i++ {
			t.Span(func() {
				ver := c.chain[1+t.Choose(60)]
				far = append(far, ver)
				v := c.openAt(ver, false)
				c.logf("far view %s", v)
				c.fullCompare(v, c.histAbsent)
				c.track(v)
			})
		}
	}

	maxSteps := 160
	num, den := 99, 100
	if r.Tier == "thorough" {
		maxSteps = 600
		num, den = 299, 300
	}
	if c.long {
		maxSteps = 60
	}
	steps := t.Loop(num, den, maxSteps, c.step)
	if c.long && c.popPolicy != c07PopPolicyNone && len(c.chain) > 2 {
		// the far versions are opened at the present frontier, the frontier is rolled back and
		// other commits take its place, and the same versions are opened again
		t.Span(func() {
			if c.needReopen {
				c.reopen(false)
			}
			reopenFar := func(when string) {
				for _, ver := range far {
					if !c.onChain(ver) || ver == c.frontier() {
						continue
					}
					v := c.openAt(ver, false)
					c.logf("far view %s %s", v, when)
					c.fullCompare(v, c.histAbsent)
					c.r.Probe("far-view-reopened-" + when)
				}
			}
			// commits that create keys nothing has touched so far: the far views, cached when the frontier was
			// lower, must be brought up to date (the new keys are absent in them)
			c.freshKeys = 2 + t.Choose(3)
			c.bulk(c.freshKeys)
			c.freshKeys = 0
			reopenFar("before-rollback")
			for i := 0; i < 1+t.Choose(3) && len(c.chain) > 2; i++ {
				c.opPop()
			}
			if c.needReopen && t.Bool() {
				c.reopen(false)
			}
			c.bulk(1 + t.Choose(4))
			reopenFar("after-rollback-and-recommit")
		})
	}

	// final verification: the frontier, every tracked view, some historical versions
	c.logf("final verification after %d steps: chain length %d", steps, len(c.chain))
	if c.needReopen {
		c.reopen(false)
	}
	c.checkFrontier(true)
	for _, v := range c.views {
		c.fullCompare(v, true)
	}
	for i := 0; i < 5 && len(c.chain) > 1; i++ {
		t.Span(func() {
			idx := len(c.chain) - 1 - t.Choose(min(len(c.chain), 12))
			if t.Choose(4) == 0 {
				idx = t.Choose(len(c.chain))
			}
			ver := c.chain[idx]
			if ver.id.IsZero() && c.kind == c07MemDB && idx != 0 {
				return
			}
			v := c.openAt(ver, false)
			c.fullCompare(v, true)
		})
	}
	if c.kind == c07LevelDB && t.Choose(3) == 0 {
		c.reopen(false)
		c.logf("final reopen")
		c.checkFrontier(true)
	}

	r.Probes["commits"] += c.commits
	r.Probes["historical-reads"] += c.histReads
	r.NonTrivial = c.commits >= 3 && (c.pops >= 1 || c.histReads >= 1)
	r.Finger = hex.EncodeToString(c.finger[:8])
	r.Sample["manager"] = c.kindName()
	r.Sample["commits"] = c.commits
	r.Sample["pops"] = c.pops
	r.Sample["chain_length"] = len(c.chain)
	r.Sample["scans_compared"] = c.scans
	r.Sample["historical_reads"] = c.histReads
	r.Sample["stale_parent_adds"] = c.staleTried
	r.Sample["knobs"] = fmt.Sprintf("empty=%v stale=%v absent=%v pop=%d long=%v conc=%v", c.emptyVals, c.staleAdds, c.histAbsent, c.popPolicy, c.long, c.conc)
}
