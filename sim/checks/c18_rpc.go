package checks

// C18 — RPC answers match the ledger, are bounded; the server survives bad input.
//
// One run = one nomsim chain (20–150 slots, tape-chosen spork regime, short
// epochs, full client mix, a non-empty unconfirmed pool at the end) queried
//   (A) through the Go API objects directly, every list method with page
//       index/size, height/count drawn from the boundary set of the whole
//       integer range, compared with ground truth computed in c18_truth.go
//       from the stores and sliced with 64-bit/big arithmetic;
//   (B) JSON round trips of blocks and momentums, and a pooled user block fed
//       as JSON into PublishRawTransaction of a follower node;
//   (C) through an in-process rpc/server (stream codec over net.Pipe and the
//       HTTP handler over httptest recorders) with hostile byte streams
//       interleaved with valid requests (c18_hostile.go).
//
// Not covered (documented in props.d/C18.json): the subscribe API (process
// singleton with its own goroutines), the stats API (needs a p2p server), the
// websocket transport framing.

import (
	"crypto/sha256"
	"encoding/hex"
	"fmt"
	"time"

	"github.com/zenon-network/go-zenon/chain"
	"github.com/zenon-network/go-zenon/consensus"
	"github.com/zenon-network/go-zenon/pillar"
	"github.com/zenon-network/go-zenon/protocol"
	"github.com/zenon-network/go-zenon/rpc/api"
	"github.com/zenon-network/go-zenon/rpc/api/embedded"
	"github.com/zenon-network/go-zenon/verifier"
	"github.com/zenon-network/go-zenon/zenon"

	"verif/sim/nomsim"
	"verif/sim/simnode"
	"verif/sim/simrt"
)

func init() { register("C18", runC18) }

// c18Zenon adapts a simulated node to the zenon.Zenon interface the RPC APIs
// are constructed from. Protocol/Producer/Config are only used by the stats
// API, which is out of scope.
type c18Zenon struct{ n *simnode.Node }

func (z *c18Zenon) Init() error                         { return nil }
func (z *c18Zenon) Start() error                        { return nil }
func (z *c18Zenon) Stop() error                         { return nil }
func (z *c18Zenon) Chain() chain.Chain                  { return z.n.Chain }
func (z *c18Zenon) Consensus() consensus.Consensus      { return z.n.Cons }
func (z *c18Zenon) Verifier() verifier.Verifier         { return z.n.Ver }
func (z *c18Zenon) Protocol() *protocol.ProtocolManager { return nil }
func (z *c18Zenon) Producer() pillar.Manager            { return nil }
func (z *c18Zenon) Config() *zenon.Config               { return nil }
func (z *c18Zenon) Broadcaster() protocol.Broadcaster   { return z.n }

var _ zenon.Zenon = (*c18Zenon)(nil)

type c18Service struct {
	NS  string
	Svc any
}

// c18Apis holds the API objects exactly as rpc/apis.go registers them
// (namespaces "ledger" and "embedded.*"), except that the pillar API runs its
// consensus cache synchronously (testing=true): the asynchronous refresh is a
// goroutine race the simulation must not depend on.
type c18Apis struct {
	Ledger    *api.LedgerApi
	Token     *embedded.TokenAPI
	Pillar    *embedded.PillarApi
	Stake     *embedded.StakeApi
	Plasma    *embedded.PlasmaApi
	Sentinel  *embedded.SentinelApi
	Spork     *embedded.SporkApi
	Accel     *embedded.AcceleratorApi
	Htlc      *embedded.HtlcApi
	Swap      *embedded.SwapApi
	Bridge    *embedded.BridgeApi
	Liquidity *embedded.LiquidityApi
	Services  []c18Service
}

func newC18Apis(n *simnode.Node) *c18Apis {
	z := &c18Zenon{n}
	a := &c18Apis{
		Ledger:    api.NewLedgerApi(z),
		Token:     embedded.NewTokenApi(z),
		Pillar:    embedded.NewPillarApi(z, true),
		Stake:     embedded.NewStakeApi(z),
		Plasma:    embedded.NewPlasmaApi(z),
		Sentinel:  embedded.NewSentinelApi(z),
		Spork:     embedded.NewSporkApi(z),
		Accel:     embedded.NewAcceleratorApi(z),
		Htlc:      embedded.NewHtlcApi(z),
		Swap:      embedded.NewSwapApi(z),
		Bridge:    embedded.NewBridgeApi(z),
		Liquidity: embedded.NewLiquidityApi(z),
	}
	a.Services = []c18Service{
		{"ledger", a.Ledger},
		{"embedded.token", a.Token},
		{"embedded.sentinel", a.Sentinel},
		{"embedded.pillar", a.Pillar},
		{"embedded.plasma", a.Plasma},
		{"embedded.stake", a.Stake},
		{"embedded.swap", a.Swap},
		{"embedded.spork", a.Spork},
		{"embedded.accelerator", a.Accel},
		{"embedded.htlc", a.Htlc},
		{"embedded.bridge", a.Bridge},
		{"embedded.liquidity", a.Liquidity},
	}
	return a
}

// c18 is the per-run state shared by the three phases.
type c18 struct {
	r    *simrt.Run
	w    *nomsim.World
	wl   *nomsim.Workload
	p    *simnode.Node
	apis *c18Apis
	tr   *c18Truth

	compared int // API answers compared with ground truth
	hostile  int // hostile requests sent
	script   [32]byte
}

// note folds one line of the call script into the run fingerprint and the
// event log.
func (c *c18) note(format string, a ...any) {
	s := fmt.Sprintf(format, a...)
	h := sha256.New()
	h.Write(c.script[:])
	h.Write([]byte(s))
	copy(c.script[:], h.Sum(nil))
	c.r.Logf("%s", s)
}

func runC18(r *simrt.Run) {
	t := r.T
	mode := nomsim.SporkMode(t.Choose(3))
	w := nomsim.NewWorld(r, nomsim.MockGenesis(mode))
	w.EnforceReceiverRule(0)
	// short epochs in most runs so that reward / epoch history lists exist
	if t.Choose(4) != 3 {
		w.SetEpochDuration(time.Duration(300*(2+t.Choose(3))) * time.Second)
		w.ShortRewardKnobs(int64(10*t.Choose(6)), uint64(1+t.Choose(10)))
	}
	p := w.AddNode("P", nomsim.MockPillars(), false)
	wl := nomsim.NewWorkload(w, mode)
	wl.MaxOps = 3 + t.Choose(6)
	slots := 20 + t.Choose(131)
	if r.Tier == "thorough" {
		slots = 40 + t.Choose(400)
	}
	for s := 0; s < slots; s++ {
		t.Span(func() {
			wl.G.RefreshTokens(p)
			wl.Ops(p)
			if t.Choose(16) == 0 {
				w.SkipSlots(int64(1 + t.Choose(90)))
				r.Fault("missed-slots")
			}
			w.StepSlot()
		})
	}
	// a long empty tail in some runs: more momentums than one page can hold
	if t.Choose(8) == 7 {
		extra := 1030 + t.Choose(40) - int(p.Height())
		for i := 0; i < extra; i++ {
			w.StepSlot()
		}
		r.Probe("chain-longer-than-page-limit")
	}
	// leave client blocks (and the contract receives they trigger at the next
	// slot only) unconfirmed: the pool must not be empty when the queries run
	t.Span(func() {
		wl.G.RefreshTokens(p)
		wl.MaxOps += 4
		wl.Ops(p)
		wl.Ops(p)
	})

	c := &c18{r: r, w: w, wl: wl, p: p}
	c.apis = newC18Apis(p)
	c.tr = buildC18Truth(r, p)
	r.Logf("chain: height %d, %d accounts, %d account blocks (%d unconfirmed), %d tokens", p.Height(), len(c.tr.accounts), c.tr.nBlocks, c.tr.nPool, len(c.tr.tokens))

	c.phaseLedger()
	c.phaseEmbedded()
	c.phaseRoundTrip()
	c.phaseServer()

	// the chain must not have moved under the queries
	if p.Frontier().Hash != c.tr.frontier.Hash {
		r.Fail("harness", "chain-moved", "frontier changed during the query phases")
	}
	r.Probes["api-answers-compared"] += c.compared
	r.Probes["hostile-requests"] += c.hostile
	r.NonTrivial = c.compared >= 30 && c.tr.nBlocks >= 10 && c.hostile >= 5
	r.Finger = p.Frontier().Hash.String()[:16] + "-" + hex.EncodeToString(c.script[:8])
	r.Sample["height"] = p.Height()
	r.Sample["spork_mode"] = int(mode)
	r.Sample["account_blocks"] = c.tr.nBlocks
	r.Sample["unconfirmed_blocks"] = c.tr.nPool
	r.Sample["tokens"] = len(c.tr.tokens)
	r.Sample["api_answers_compared"] = c.compared
	r.Sample["hostile_requests"] = c.hostile
	r.Sample["last_epoch"] = c.tr.lastEpochMax
}
