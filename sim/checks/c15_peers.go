package checks

// C15 — untrusted peers cannot crash, stall or bloat the node (engine B).
//
// One run builds a producer P (reference chain and donor of real, unseen blocks)
// and a follower Q (the node under test) with nomsim, starts the repository's
// real protocol.ProtocolManager (handler, syncer, txsyncLoop, fetcher,
// downloader) over Q's chain bridge and attaches simulated peers: for every peer
// pm.SubProtocols[0].Run(p2p.NewPeer(..), conn) runs on its own goroutine inside
// the synctest bubble, conn being a harness p2p.MsgReadWriter (c15Conn) that
// hands over whole frames like rlpx. The run goroutine is the only driver: it
// injects ONE message, waits for quiescence (synctest.Wait), collects what the
// node wrote, lets honest peers answer what the node asked them, advances the
// fake clock in slices, and judges. Only tape-decided inputs and quiescent,
// order-free observations are logged.
//
// Two shapes (tape): "serve" — honest peers stay connected next to the
// adversary, which never becomes a sync origin; "download" — the adversary
// claims a longer chain and answers the node's own requests under a plan, honest
// peers connect only between its bursts. The split exists because the
// downloader hands block requests to its idle peers in map order: with more
// than one registered peer during a download the message flow is not
// reproducible.
//
// Not run: everything below the protocol message layer (p2p.Peer.run, protoRW,
// rlpx framing, discovery, base protocol). p2p.NewPeer gives a test peer whose
// Disconnect is a no-op, so a node-side drop (downloader/fetcher dropPeer) is
// emulated: the harness watches which peers the node still gossips to (the
// node's own BroadcastAccountBlock) and closes the transport of a peer that was
// unregistered, which is what p2p.Peer.run does on p.disc.
//
// Environment (debugging aids, never needed for a verdict): C15_ECHO=1 copies
// the log to stderr as it is written; C15_LIVE_FIRE=GetBlockHashes|InsertChain|all
// injects the messages that pre-validation found to terminate the process.

import (
	"bytes"
	"crypto/sha256"
	"encoding/binary"
	"encoding/hex"
	"fmt"
	"io"
	"os"
	"runtime"
	"sort"
	"strings"
	"sync"
	"sync/atomic"
	"testing/synctest"
	"time"

	"github.com/ethereum/go-ethereum/rlp"

	"github.com/zenon-network/go-zenon/chain/nom"
	"github.com/zenon-network/go-zenon/common/types"
	"github.com/zenon-network/go-zenon/p2p"
	"github.com/zenon-network/go-zenon/p2p/discover"
	"github.com/zenon-network/go-zenon/protocol"

	"verif/sim/nomsim"
	"verif/sim/simnode"
	"verif/sim/simrt"
)

func init() { register("C15", runC15) }

// ---- limits, written from the property statement ----

const (
	c15MaxMsg    = 10 * 1024 * 1024 // "10 MiB per message"
	c15MaxHashes = 512              // "512 hashes per reply"
	c15MaxBlocks = 128              // "128 momentums per reply"
	// generous allocation allowance per injected message, beyond a multiple of its size
	c15AllocSlack = 64 << 20
)

// protocol message codes (protocol/protocol.go), restated here as wire constants
const (
	c15Status = iota
	c15NewBlockHashes
	c15Tx
	c15GetBlockHashes
	c15BlockHashes
	c15GetBlocks
	c15Blocks
	c15NewBlock
	c15GetBlockHashesFromNumber
)

var c15CodeName = []string{"StatusMsg", "NewBlockHashesMsg", "TxMsg", "GetBlockHashesMsg", "BlockHashesMsg", "GetBlocksMsg", "BlocksMsg", "NewBlockMsg", "GetBlockHashesFromNumberMsg"}

func c15Name(code uint64) string {
	if code < uint64(len(c15CodeName)) {
		return c15CodeName[code]
	}
	return "UnknownCode"
}

// wire structs (mirrors of the unexported packet types; RLP is structural)
type c15StatusData struct {
	ProtocolVersion uint32
	NetworkId       uint32
	TD              uint64
	CurrentBlock    types.Hash
	GenesisBlock    types.Hash
}
type c15GetHashes struct {
	Hash   types.Hash
	Amount uint64
}
type c15GetHashesFromNumber struct {
	Number uint64
	Amount uint64
}

// ---- pipe plumbing ----

type c15Msg struct {
	code uint64
	size uint32
	data []byte
	seen bool
}

type c15Inj struct {
	done     atomic.Bool // the handler's ReadMsg returned this message
	consumed atomic.Int64
}

// c15Conn is the transport below the protocol handler: the p2p.MsgReadWriter the
// handler runs on. Like rlpx (and unlike p2p.MsgPipe, whose writer waits until
// the reader has drained the payload) a message is handed over as a complete
// frame: ReadMsg returns it with the payload readable from memory, WriteMsg
// returns once the bytes are taken. The conn also knows whether the handler is
// parked in ReadMsg, which is what the property asks about.
type c15Conn struct {
	e       *c15Env
	pe      *c15Peer
	in      chan p2p.Msg
	closed  chan struct{}
	once    sync.Once
	waiting atomic.Int32
}

func (c *c15Conn) ReadMsg() (p2p.Msg, error) {
	c.waiting.Add(1)
	defer c.waiting.Add(-1)
	select {
	case m := <-c.in:
		return m, nil
	case <-c.closed:
		return p2p.Msg{}, io.EOF
	}
}

func (c *c15Conn) WriteMsg(msg p2p.Msg) error {
	select {
	case <-c.closed:
		return p2p.ErrPipeClosed
	default:
	}
	var data []byte
	if msg.Size <= c15MaxMsg+1024 {
		data, _ = io.ReadAll(msg.Payload)
	} else {
		// never buffer an oversized reply; its size alone is the violation
		io.Copy(io.Discard, msg.Payload)
	}
	m := &c15Msg{code: msg.Code, size: msg.Size, data: data}
	if msg.Code == c15Tx && len(data) < 4096 {
		// registration probe? (the node gossiping a block with a harness-chosen hash)
		var txs []*nom.AccountBlock
		if rlp.DecodeBytes(data, &txs) == nil && len(txs) == 1 {
			c.e.pmu.Lock()
			if hit, ok := c.e.probeHit[txs[0].Hash]; ok {
				hit[c.pe] = true
				m = nil
			}
			c.e.pmu.Unlock()
		}
	}
	if m != nil {
		c.pe.mu.Lock()
		c.pe.inbox = append(c.pe.inbox, m)
		c.pe.mu.Unlock()
	}
	return nil
}

func (c *c15Conn) close() { c.once.Do(func() { close(c.closed) }) }

type c15CountReader struct {
	r   io.Reader
	inj *c15Inj
}

func (c *c15CountReader) Read(b []byte) (int, error) {
	n, err := c.r.Read(b)
	c.inj.consumed.Add(int64(n))
	return n, err
}

// c15Pattern produces n bytes without holding them in memory.
type c15Pattern struct {
	head []byte
	n    int64
	pos  int64
	fill byte
}

func (p *c15Pattern) Read(b []byte) (int, error) {
	if p.pos >= p.n {
		return 0, io.EOF
	}
	k := 0
	for k < len(b) && p.pos < p.n {
		if p.pos < int64(len(p.head)) {
			b[k] = p.head[p.pos]
		} else {
			b[k] = p.fill
		}
		k++
		p.pos++
	}
	return k, nil
}

type c15Peer struct {
	name   string
	id     discover.NodeID
	honest bool
	view   uint64 // honest: height of the chain it serves (prefix of P's chain)

	conn *c15Conn

	mu       sync.Mutex
	inbox    []*c15Msg
	returned bool
	runErr   error
	closedBy string // who ended the session: "", "node-error", "node-drop", "peer-left"

	sentStatus    bool // a status that the statement calls valid was sent
	gotStatus     bool
	registered    bool // last registration probe
	lastInj       *c15Inj
	lastCode      uint64    // code of the last message this peer injected
	pendingReq    []*c15Msg // node -> peer requests not yet answered (adversary)
	asked         []*c15Msg // node -> peer requests seen since the last step (adversary)
	got           []*c15Msg // other node -> peer messages since the last reset
	status        *c15Msg
	outq          []c15Out // honest: answers waiting for the handler to read
	td            uint64   // TD of the status this peer sent
	wasRegistered bool
	session       int
}

func (pe *c15Peer) isReturned() bool {
	pe.mu.Lock()
	defer pe.mu.Unlock()
	return pe.returned
}

type c15Env struct {
	r  *simrt.Run
	w  *nomsim.World
	p  *simnode.Node // donor / reference chain
	q  *simnode.Node // node under test
	pm *protocol.ProtocolManager

	n0      uint64 // Q's height when the protocol manager started
	k       uint64 // donor extension: P is at n0+k
	genesis types.Hash
	netID   uint64
	shapeD  bool

	peers    []*c15Peer
	peerSeq  int
	probeSeq uint64
	probeHit map[types.Hash]map[*c15Peer]bool
	pmu      sync.Mutex

	pKnown map[types.Hash]bool // account blocks known to P (for the pool oracle)

	forged map[types.Hash]*nom.DetailedMomentum

	hostile, honestOK int
	fing              [32]byte
	baseGoroutines    int
	lastHeight        uint64
	hcSeq             int
	advSeq            int
	plan              int
	gap               uint64
	offset            uint64 // adversary's belief of the downloader's block-cache offset
	sawAncestorReq    bool
	prng              uint64
	liveFire          string
	heapBase          int64
	strict            bool
}

func (e *c15Env) logf(format string, a ...any) {
	s := fmt.Sprintf(format, a...)
	h := sha256.New()
	h.Write(e.fing[:])
	h.Write([]byte(s))
	copy(e.fing[:], h.Sum(nil))
	e.r.Logf("%s", s)
	if c15Echo {
		fmt.Fprintln(os.Stderr, s) // debugging aid for runs that kill the process
	}
}

// canonical hash of P's chain at height h (zero when absent)
func (e *c15Env) canon(h uint64) types.Hash {
	m, err := e.p.Bridge.GetBlockByNumber(h)
	if err != nil || m == nil {
		return types.Hash{}
	}
	return m.Hash
}

func (e *c15Env) connect(name string, honest bool, view uint64) *c15Peer {
	e.peerSeq++
	pe := &c15Peer{name: name, honest: honest, view: view}
	pe.id[0] = 0xC1
	if honest {
		pe.id[0] = 0xA1
	}
	binary.BigEndian.PutUint32(pe.id[1:5], uint32(e.peerSeq))
	pe.conn = &c15Conn{e: e, pe: pe, in: make(chan p2p.Msg), closed: make(chan struct{})}
	e.peers = append(e.peers, pe)
	run := e.pm.SubProtocols[0].Run
	peer := p2p.NewPeer(pe.id, name, nil)
	go func() {
		err := run(peer, pe.conn)
		pe.mu.Lock()
		pe.returned, pe.runErr = true, err
		pe.mu.Unlock()
		pe.conn.close() // p2p closes the connection when the protocol handler returns
	}()
	synctest.Wait()
	return pe
}

// handlerState at quiescence: "ended", "reading" (parked in ReadMsg) or "elsewhere".
func (pe *c15Peer) handlerState() string {
	if pe.isReturned() {
		return "ended"
	}
	if pe.conn.waiting.Load() > 0 {
		return "reading"
	}
	return "elsewhere"
}

// inject hands one message to the node's handler for this peer and waits for
// quiescence. Returns false when the previous message of this peer has still not
// been taken by the handler (the handler is not in ReadMsg).
func (e *c15Env) inject(pe *c15Peer, code uint64, size uint32, payload io.Reader) bool {
	if pe.isReturned() {
		return false
	}
	if pe.lastInj != nil && !pe.lastInj.done.Load() {
		return false
	}
	inj := &c15Inj{}
	pe.lastInj = inj
	pe.lastCode = code
	go func() {
		select {
		case pe.conn.in <- p2p.Msg{Code: code, Size: size, Payload: &c15CountReader{r: payload, inj: inj}}:
			inj.done.Store(true)
		case <-pe.conn.closed:
		}
	}()
	synctest.Wait()
	return true
}

func (e *c15Env) send(pe *c15Peer, code uint64, v any) bool {
	b, err := rlp.EncodeToBytes(v)
	if err != nil {
		panic(err)
	}
	return e.inject(pe, code, uint32(len(b)), bytes.NewReader(b))
}

func (e *c15Env) disconnect(pe *c15Peer, why string) {
	if pe.closedBy == "" {
		pe.closedBy = why
	}
	pe.conn.close()
	synctest.Wait()
}

// probeRegistration asks the node to gossip a block with a fresh hash (what a
// node does for every block it creates) and notes which peers received it:
// those are the peers the node currently keeps registered.
func (e *c15Env) probeRegistration() {
	e.probeSeq++
	var h types.Hash
	copy(h[:], []byte("c15-registration-probe"))
	binary.BigEndian.PutUint64(h[24:], e.probeSeq)
	e.pmu.Lock()
	hit := map[*c15Peer]bool{}
	e.probeHit[h] = hit
	e.pmu.Unlock()
	done := make(chan struct{})
	go func() {
		e.pm.BroadcastAccountBlock(&nom.AccountBlock{Hash: h})
		close(done)
	}()
	synctest.Wait()
	select {
	case <-done:
	default:
		// a registered peer's connection does not drain: cannot happen with the
		// harness readers; treat as harness trouble
		e.r.Fail("harness", "registration-probe-blocked", "BroadcastAccountBlock did not return at quiescence")
	}
	e.pmu.Lock()
	delete(e.probeHit, h)
	e.pmu.Unlock()
	for _, pe := range e.peers {
		pe.registered = hit[pe]
	}
}

// ---- reply inspection (limits of the statement) ----

func c15CountList(data []byte) (int, error) {
	content, _, err := rlp.SplitList(data)
	if err != nil {
		return 0, err
	}
	return rlp.CountValues(content)
}

// checkCaps judges one message the node wrote to a peer.
func (e *c15Env) checkCaps(pe *c15Peer, m *c15Msg) {
	cause := c15Name(pe.lastCode)
	if m.size > c15MaxMsg {
		e.r.Report("reply-size", cause, "node sent %s of %d bytes (> 10 MiB) to %s after its %s", c15Name(m.code), m.size, pe.name, cause)
		return
	}
	switch m.code {
	case c15BlockHashes, c15NewBlockHashes:
		n, err := c15CountList(m.data)
		if err == nil && n > c15MaxHashes {
			disc := strings.TrimSuffix(strings.TrimPrefix(cause, "Get"), "Msg")
			if pe.lastCode != c15GetBlockHashes && pe.lastCode != c15GetBlockHashesFromNumber {
				disc = "unsolicited-" + c15Name(m.code)
			} else {
				disc = "Get" + disc
			}
			e.r.Report("reply-cap", disc, "node sent %s with %d hashes (> %d) to %s in answer to %s", c15Name(m.code), n, c15MaxHashes, pe.name, pe.lastDesc())
		}
	case c15Blocks:
		n, err := c15CountList(m.data)
		if err == nil && n > c15MaxBlocks {
			e.r.Report("reply-cap", "GetBlocks", "node sent BlocksMsg with %d momentums (> %d) to %s in answer to %s", n, c15MaxBlocks, pe.name, pe.lastDesc())
		}
	}
}

func (pe *c15Peer) lastDesc() string { return c15Name(pe.lastCode) }

// take returns the unseen messages of a peer's inbox (marks them seen).
func (e *c15Env) take(pe *c15Peer) []*c15Msg {
	pe.mu.Lock()
	defer pe.mu.Unlock()
	var out []*c15Msg
	for _, m := range pe.inbox {
		if !m.seen {
			m.seen = true
			out = append(out, m)
		}
	}
	// keep the inbox short
	if len(pe.inbox) > 64 {
		pe.inbox = pe.inbox[len(pe.inbox)-16:]
	}
	return out
}

func c15Summary(ms []*c15Msg) string {
	var parts []string
	for _, m := range ms {
		n := -1
		if m.code == c15BlockHashes || m.code == c15NewBlockHashes || m.code == c15Blocks || m.code == c15GetBlocks || m.code == c15Tx {
			if k, err := c15CountList(m.data); err == nil {
				n = k
			}
		}
		parts = append(parts, fmt.Sprintf("%s[n=%d,size=%d]", c15Name(m.code), n, m.size))
	}
	sort.Strings(parts)
	return strings.Join(parts, " ")
}

func c15Short(h types.Hash) string { return hex.EncodeToString(h[:4]) }

// ---- settling: quiescence, collection, honest answers, clock ----

func c15IsRequest(code uint64) bool {
	return code == c15GetBlockHashes || code == c15GetBlockHashesFromNumber || code == c15GetBlocks
}

// settle waits for quiescence and processes everything the node wrote: limits are
// judged on every message, requests addressed to honest peers are answered from
// P's chain, requests addressed to the adversary are parked for the script.
func (e *c15Env) settle() {
	for round := 0; round < 64; round++ {
		synctest.Wait()
		progressed := false
		for _, pe := range e.peers {
			if pe.honest && len(pe.outq) > 0 && pe.closedBy == "" {
				o := pe.outq[0]
				if e.inject(pe, o.code, uint32(len(o.data)), bytes.NewReader(o.data)) {
					pe.outq = pe.outq[1:]
					progressed = true
				}
			}
			for _, m := range e.take(pe) {
				e.checkCaps(pe, m)
				switch {
				case m.code == c15Status && !pe.gotStatus:
					pe.gotStatus = true
					pe.status = m
				case c15IsRequest(m.code):
					if pe.honest {
						if pe.closedBy == "" {
							e.honestAnswer(pe, m)
							progressed = true
						}
					} else {
						pe.pendingReq = append(pe.pendingReq, m)
						if len(pe.pendingReq) > 8 {
							pe.pendingReq = pe.pendingReq[len(pe.pendingReq)-8:]
						}
						pe.asked = append(pe.asked, m)
						e.trackOffset(m)
					}
				default:
					pe.got = append(pe.got, m)
				}
			}
		}
		if !progressed {
			return
		}
	}
}

// trackOffset follows the downloader's block-cache offset the way the sync
// origin can infer it: the head fetch asks 512 hashes from max(0, head-512); the
// next request for 512 hashes (after the single-hash search probes) starts at
// ancestor+1, which is where the block cache begins.
func (e *c15Env) trackOffset(m *c15Msg) {
	if m.code != c15GetBlockHashesFromNumber {
		return
	}
	var rq c15GetHashesFromNumber
	if rlp.DecodeBytes(m.data, &rq) != nil || rq.Amount != 512 {
		return
	}
	qh := e.q.Height()
	if (qh > 512 && rq.Number == qh-512) || (qh <= 512 && rq.Number == 0) {
		e.sawAncestorReq, e.offset = true, 0
	} else if e.sawAncestorReq {
		e.sawAncestorReq, e.offset = false, rq.Number
	}
}

// advance moves the fake clock by d in slices, settling after each, so that
// honest peers answer in time and node timers fire in order.
func (e *c15Env) advance(d time.Duration) {
	const slice = 500 * time.Millisecond
	for d > 0 {
		s := slice
		if d < s {
			s = d
		}
		time.Sleep(s)
		d -= s
		e.settle()
	}
}

// ---- honest peers ----

type c15Out struct {
	code uint64
	data []byte
}

func (e *c15Env) honestAnswer(pe *c15Peer, m *c15Msg) {
	var out c15Out
	switch m.code {
	case c15GetBlockHashesFromNumber:
		var req c15GetHashesFromNumber
		if rlp.DecodeBytes(m.data, &req) != nil {
			return
		}
		hs := e.refHashes(req.Number, req.Amount, pe.view)
		out.code, out.data = c15BlockHashes, c15Enc(hs)
	case c15GetBlockHashes:
		out.code, out.data = c15BlockHashes, c15Enc([]types.Hash{})
	case c15GetBlocks:
		var req []types.Hash
		if rlp.DecodeBytes(m.data, &req) != nil {
			return
		}
		type hb struct {
			h uint64
			d *nom.DetailedMomentum
		}
		var found []hb
		for _, h := range req {
			d := e.p.Bridge.GetBlock(h)
			if d != nil && d.Momentum.Height <= pe.view && d.Momentum.Height > 1 && len(found) < c15MaxBlocks {
				found = append(found, hb{d.Momentum.Height, d})
			}
		}
		sort.Slice(found, func(i, j int) bool { return found[i].h < found[j].h })
		ds := []*nom.DetailedMomentum{}
		for _, f := range found {
			ds = append(ds, f.d)
		}
		out.code, out.data = c15Blocks, c15Enc(ds)
	default:
		return
	}
	e.r.Probe("honest-served-node-request")
	if c15Echo {
		n, _ := c15CountList(out.data)
		fmt.Fprintf(os.Stderr, "    [%s asked %s %x -> %s n=%d]\n", pe.name, c15Name(m.code), m.data[:min(len(m.data), 24)], c15Name(out.code), n)
	}
	pe.outq = append(pe.outq, out)
}

// refHashes is what a go-zenon peer holding the reference chain up to `view`
// sends for GetBlockHashesFromNumber: the hashes of heights max(number,1) ..
// number+amount-1 (at most 512, at most up to its head), newest first.
func (e *c15Env) refHashes(number, amount, view uint64) []types.Hash {
	hs := []types.Hash{}
	first := number
	if first == 0 {
		first = 1
	}
	if amount > c15MaxHashes {
		amount = c15MaxHashes
	}
	if amount > 0 && first <= view {
		last := number + amount - 1
		if last > view || last < number {
			last = view
		}
		for h := last; h >= first; h-- {
			hs = append(hs, e.canon(h))
		}
	}
	return hs
}

func c15Enc(v any) []byte {
	b, err := rlp.EncodeToBytes(v)
	if err != nil {
		panic(err)
	}
	return b
}

// honestJoin connects an honest peer, checks the node's status message against
// the node's chain and completes the handshake with a truthful status.
func (e *c15Env) honestJoin(name string, view uint64) *c15Peer {
	pe := e.connect(name, true, view)
	e.settle()
	fr := e.q.Frontier()
	if !pe.gotStatus {
		e.r.Report("honest-peer", "no-status", "node did not open the session of honest peer %s with a status message", name)
	} else {
		var st c15StatusData
		if err := rlp.DecodeBytes(pe.status.data, &st); err != nil {
			e.r.Report("honest-peer", "bad-status", "node's status to %s does not decode: %v", name, err)
		} else if st.ProtocolVersion != 61 || uint64(st.NetworkId) != e.netID || st.GenesisBlock != e.genesis || st.CurrentBlock != fr.Hash || st.TD != fr.Height {
			e.r.Report("honest-peer", "wrong-status", "node's status to %s is %+v, chain frontier is %d/%v genesis %v", name, st, fr.Height, fr.Hash, e.genesis)
		}
	}
	e.send(pe, c15Status, &c15StatusData{61, uint32(e.netID), view, e.canon(view), e.genesis})
	pe.sentStatus = true
	e.settle()
	e.probeRegistration()
	e.logf("honest %s joined view=%d returned=%v registered=%v", name, view, pe.isReturned(), pe.registered)
	if pe.isReturned() || !pe.registered {
		e.r.Report("honest-peer", "refused", "honest peer %s with a valid status was not accepted (returned=%v err=%v registered=%v)", name, pe.isReturned(), pe.runErr, pe.registered)
	}
	return pe
}

// honestRequest issues one valid request and compares the answer with P's chain.
func (e *c15Env) honestRequest(pe *c15Peer) {
	t := e.r.T
	if pe.closedBy != "" || pe.isReturned() {
		return
	}
	qh := e.q.Height()
	pe.got = nil
	kind := t.Choose(3)
	var desc string
	var verify func(ms []*c15Msg) string // "" = ok, "-" = no answer yet, else complaint
	find := func(ms []*c15Msg, code uint64) *c15Msg {
		for _, m := range ms {
			if m.code == code {
				return m
			}
		}
		return nil
	}
	switch kind {
	case 0: // hashes by number
		num := uint64(1 + t.Choose(int(qh)))
		amt := uint64(1 + t.Choose(c15MaxHashes))
		desc = fmt.Sprintf("GetBlockHashesFromNumber{%d,%d}", num, amt)
		e.send(pe, c15GetBlockHashesFromNumber, &c15GetHashesFromNumber{num, amt})
		verify = func(ms []*c15Msg) string {
			m := find(ms, c15BlockHashes)
			if m == nil {
				return "-"
			}
			var hs []types.Hash
			if err := rlp.DecodeBytes(m.data, &hs); err != nil {
				return "answer does not decode: " + err.Error()
			}
			last := num + amt - 1
			if last > qh {
				last = qh
			}
			if uint64(len(hs)) != last-num+1 {
				return fmt.Sprintf("%d hashes, expected %d (heights %d..%d of a chain of %d)", len(hs), last-num+1, num, last, qh)
			}
			// the statement fixes the content, not the direction: accept the run
			// num..last in ascending or in descending order
			asc, dsc := true, true
			for i, h := range hs {
				asc = asc && h == e.canon(num+uint64(i))
				dsc = dsc && h == e.canon(last-uint64(i))
			}
			if !asc && !dsc {
				return fmt.Sprintf("the %d hashes are not the chain's hashes of heights %d..%d in either direction (first is %v)", len(hs), num, last, hs[0])
			}
			if dsc && !asc {
				e.r.Probe("hashes-from-number-answered-descending")
			}
			return ""
		}
	case 1: // hashes by hash: a contiguous run of canonical hashes ending at (or just below) the origin
		at := uint64(1 + t.Choose(int(qh)))
		amt := uint64(1 + t.Choose(c15MaxHashes))
		desc = fmt.Sprintf("GetBlockHashes{height %d,%d}", at, amt)
		e.send(pe, c15GetBlockHashes, &c15GetHashes{e.canon(at), amt})
		verify = func(ms []*c15Msg) string {
			m := find(ms, c15BlockHashes)
			if m == nil {
				return "-"
			}
			var hs []types.Hash
			if err := rlp.DecodeBytes(m.data, &hs); err != nil {
				return "answer does not decode: " + err.Error()
			}
			if uint64(len(hs)) > amt {
				return fmt.Sprintf("%d hashes for amount %d", len(hs), amt)
			}
			if len(hs) == 0 {
				if at == 1 {
					return "" // no ancestors of the first momentum
				}
				return "empty answer for a known origin"
			}
			// heights of the returned hashes on the canonical chain
			hts := make([]uint64, len(hs))
			for i, h := range hs {
				d := e.p.Bridge.GetBlock(h)
				if d == nil || d.Momentum.Height > qh {
					return fmt.Sprintf("hash #%d %v is not on the chain", i, h)
				}
				hts[i] = d.Momentum.Height
			}
			asc, dsc := true, true
			for i := 1; i < len(hts); i++ {
				asc = asc && hts[i] == hts[i-1]+1
				dsc = dsc && hts[i]+1 == hts[i-1]
			}
			if !asc && !dsc {
				return fmt.Sprintf("heights %v are not a contiguous run", hts)
			}
			top := hts[0]
			if asc {
				top = hts[len(hts)-1]
			}
			if top != at && top+1 != at {
				return fmt.Sprintf("run of heights tops at %d for origin height %d", top, at)
			}
			low := top + 1 - uint64(len(hts))
			if uint64(len(hs)) < amt && low != 1 {
				return fmt.Sprintf("only %d of %d hashes although the run stops at height %d", len(hs), amt, low)
			}
			return ""
		}
	case 2: // blocks by hash; more than 128 may be asked, at most 128 may come back
		cnt := 1 + t.Choose(8)
		if t.Choose(4) == 0 {
			cnt = 100 + t.Choose(100)
		}
		var req []types.Hash
		var want []uint64
		for i := 0; i < cnt; i++ {
			if qh < 2 {
				break
			}
			h := uint64(2 + t.Choose(int(qh-1)))
			req = append(req, e.canon(h))
			want = append(want, h)
		}
		desc = fmt.Sprintf("GetBlocks{%d known hashes}", len(req))
		e.send(pe, c15GetBlocks, req)
		verify = func(ms []*c15Msg) string {
			m := find(ms, c15Blocks)
			if m == nil {
				return "-"
			}
			var ds []*nom.DetailedMomentum
			if err := rlp.DecodeBytes(m.data, &ds); err != nil {
				return "answer does not decode: " + err.Error()
			}
			exp := len(want)
			if exp > c15MaxBlocks {
				exp = c15MaxBlocks
			}
			if len(ds) != exp {
				return fmt.Sprintf("%d momentums for %d known hashes", len(ds), len(want))
			}
			for i, d := range ds {
				ref := e.p.Detailed(want[i])
				if d.Momentum.Hash != ref.Momentum.Hash || d.Momentum.Height != ref.Momentum.Height || d.Momentum.ComputeHash() != ref.Momentum.Hash {
					return fmt.Sprintf("momentum #%d is %d/%v, asked for %d/%v", i, d.Momentum.Height, d.Momentum.Hash, want[i], ref.Momentum.Hash)
				}
				if len(d.AccountBlocks) != len(ref.AccountBlocks) {
					return fmt.Sprintf("momentum %d came with %d account blocks, chain has %d", want[i], len(d.AccountBlocks), len(ref.AccountBlocks))
				}
				for j := range d.AccountBlocks {
					if d.AccountBlocks[j].Hash != ref.AccountBlocks[j].Hash {
						return fmt.Sprintf("momentum %d account block #%d differs", want[i], j)
					}
				}
			}
			return ""
		}
	}
	e.settle()
	res := verify(pe.got)
	// bounded patience: the answer must arrive within 10 simulated seconds
	for waited := 0; res == "-" && waited < 20 && !pe.isReturned(); waited++ {
		e.advance(500 * time.Millisecond)
		res = verify(pe.got)
	}
	switch {
	case res == "":
		e.honestOK++
		e.r.Probe("honest-request-answered")
		e.logf("honest %s %s: ok", pe.name, desc)
	case res == "-":
		e.logf("honest %s %s: NO ANSWER returned=%v", pe.name, desc, pe.isReturned())
		e.r.Report("honest-peer", "unanswered", "honest peer %s got no answer to the valid request %s within 10 simulated seconds (session returned=%v err=%v)", pe.name, desc, pe.isReturned(), pe.runErr)
	default:
		e.logf("honest %s %s: WRONG %s", pe.name, desc, res)
		e.r.Report("honest-peer", "wrong-answer", "honest peer %s, valid request %s: %s", pe.name, desc, res)
	}
}

// honestCheckpoint: a fresh honest peer connects, asks, verifies and leaves.
func (e *c15Env) honestCheckpoint() {
	e.hcSeq++
	pe := e.honestJoin(fmt.Sprintf("Hc%d", e.hcSeq), e.q.Height())
	e.honestRequest(pe)
	e.disconnect(pe, "peer-left")
}

// ---- state oracles ----

func (e *c15Env) poolHashes() []types.Hash {
	var out []types.Hash
	for _, b := range e.q.Chain.GetAllUncommittedAccountBlocks() {
		out = append(out, b.Hash)
	}
	sort.Slice(out, func(i, j int) bool { return bytes.Compare(out[i][:], out[j][:]) < 0 })
	return out
}

// checkState: the node's frontier is on the reference chain (the only valid
// momentums a peer can deliver are the reference node's) and never moves back;
// the pool holds only blocks that exist on the reference node.
func (e *c15Env) checkState(where string) {
	fr := e.q.Frontier()
	if fr.Hash != e.canon(fr.Height) {
		e.r.Report("state-changed", "frontier-off-chain", "%s: node frontier %d/%v is not the reference chain's momentum %v", where, fr.Height, fr.Hash, e.canon(fr.Height))
	}
	if fr.Height < e.lastHeight {
		e.r.Report("state-changed", "frontier-rolled-back", "%s: node frontier went from height %d to %d", where, e.lastHeight, fr.Height)
	}
	e.lastHeight = fr.Height
	for _, h := range e.poolHashes() {
		if !e.pKnown[h] {
			e.r.Report("state-changed", "pool-foreign-block", "%s: node's pool holds account block %v that the reference node never had", where, h)
			break
		}
	}
}

// ---- the adversary's session and one step ----

func (e *c15Env) newAdversary() *c15Peer {
	t := e.r.T
	e.advSeq++
	adv := e.connect(fmt.Sprintf("A%d", e.advSeq), false, 0)
	adv.session = e.advSeq
	e.settle()
	if e.shapeD {
		e.plan = t.Pick([]int{2, 3, 2, 2})
		e.gap = []uint64{1, 0, 2, 5, 40, 1000}[t.Choose(6)]
		// a strict session keeps to its plan: answers every request at once
		e.strict = e.plan != 0 && t.Choose(4) != 3
	}
	e.sawAncestorReq, e.offset = false, 0
	e.logf("adversary %s connected plan=%d gap=%d gotStatus=%v", adv.name, e.plan, e.gap, adv.gotStatus)
	return adv
}

func c15ErrClass(err error) string {
	if err == nil {
		return "nil"
	}
	s := err.Error()
	if i := strings.Index(s, " - "); i > 0 {
		return s[:i]
	}
	if strings.Contains(s, "closed message pipe") {
		return "pipe-closed"
	}
	if len(s) > 24 {
		s = s[:24]
	}
	return s
}

// decodeAsNode decodes the payload the way the handler would see it.
func (a *c15Action) decodeAsNode(v any) bool {
	d := a.data
	if int64(len(d)) > a.total {
		d = d[:a.total]
	}
	return rlp.NewStream(bytes.NewReader(d), uint64(a.size)).Decode(v) == nil
}

// wouldStartSync: in the serve shape the adversary must not become a sync
// origin (see runC15), so payloads that would raise its TD above the node's
// height are not injected there.
func (e *c15Env) wouldStartSync(adv *c15Peer, a *c15Action) bool {
	switch a.code {
	case c15Status:
		var st c15StatusData
		return !adv.registered && a.decodeAsNode(&st) && st.TD > e.q.Height()
	case c15NewBlock:
		var d *nom.DetailedMomentum
		return a.decodeAsNode(&d) && d != nil && d.Momentum != nil && d.Momentum.Height > adv.td
	}
	return false
}

// guarded runs f and reports whether it panicked.
func c15Guarded(f func()) (panicked bool, val any, stack string) {
	defer func() {
		if p := recover(); p != nil {
			panicked, val = true, p
			buf := make([]byte, 4096)
			stack = string(buf[:runtime.Stack(buf, false)])
		}
	}()
	f()
	return
}

// prevalidate calls, on the run goroutine and under recover, the chain-bridge
// method the handler is about to call with the peer's parameters. A panic there
// is a panic on the handler (or downloader) goroutine of a real node, which has
// no recover and terminates the process. Returns false when the message must
// not be injected because it would kill this worker process.
func (e *c15Env) prevalidate(adv *c15Peer, a *c15Action, batch []*nom.DetailedMomentum, certain bool) bool {
	if !(adv.registered || adv.wasRegistered || adv.sentStatus) || a.size > c15MaxMsg {
		return true // the handshake cannot have completed: the message ends the session before any lookup
	}
	switch a.code {
	case c15GetBlockHashes:
		var req c15GetHashes
		if !a.decodeAsNode(&req) {
			return true
		}
		amt := req.Amount
		if amt > c15MaxHashes {
			amt = c15MaxHashes
		}
		known := e.q.Bridge.HasBlock(req.Hash)
		if pan, val, _ := c15Guarded(func() { e.q.Bridge.GetBlockHashesFromHash(req.Hash, amt) }); pan {
			disc := "GetBlockHashesMsg-unknown-hash"
			if known {
				disc = "GetBlockHashesMsg-known-hash"
			}
			e.r.Report("peer-kills-node", disc, "one %s{hash %v (known to the node: %v), amount %d} from a connected peer makes ChainBridge.GetBlockHashesFromHash panic (%v) on the peer's handler goroutine; nothing in protocol/ or p2p/ recovers, the process terminates", c15Name(a.code), req.Hash, known, req.Amount, val)
			e.r.Probe("prevalidation-caught-killer")
			return e.liveFire == "all" || e.liveFire == "GetBlockHashes"
		}
	case c15Blocks:
		if len(batch) == 0 {
			return true
		}
		if pan, val, _ := c15Guarded(func() { e.q.Bridge.InsertChain(batch) }); pan {
			if !certain {
				// the harness cannot tell whether the downloader would take this
				// delivery to InsertChain: no claim, but no risk for the worker either
				e.r.Skip("suspected-killer-not-injected")
				return e.liveFire == "all" || e.liveFire == "InsertChain"
			}
			e.r.Report("peer-kills-node", "InsertChain-gap-batch", "a sync origin that denies any common ancestor (download starts at height %d, node frontier %d) and then delivers the requested momentum claiming height %d makes the downloader call ChainBridge.InsertChain with a batch whose parent height %d holds no momentum; it panics (%v) on the downloader goroutine and terminates the process", e.offset, e.q.Height(), batch[0].Momentum.Height, batch[0].Momentum.Height-1, val)
			e.r.Probe("prevalidation-caught-killer")
			return e.liveFire == "all" || e.liveFire == "InsertChain"
		}
	}
	return true
}

// gapBatch: the batch the downloader will hand to InsertChain when this answer
// is delivered, if its first momentum sits at a height whose parent height holds
// no momentum on the node. certain=true when the adversary's view of the
// downloader's block-cache offset says that this momentum is the head of the
// cache (then the call is certain); otherwise the delivery is only suspected.
func (e *c15Env) gapBatch(reqs []*c15Msg, a *c15Action) (batch []*nom.DetailedMomentum, certain bool) {
	if a.code != c15Blocks {
		return nil, false
	}
	var asked []types.Hash
	for _, req := range reqs {
		var hs []types.Hash
		if req.code == c15GetBlocks && rlp.DecodeBytes(req.data, &hs) == nil {
			asked = append(asked, hs...)
		}
	}
	if len(asked) == 0 {
		return nil, false
	}
	want := map[types.Hash]bool{}
	for _, h := range asked {
		want[h] = true
	}
	var ds []*nom.DetailedMomentum
	if !a.decodeAsNode(&ds) {
		return nil, false
	}
	byHeight := map[uint64]*nom.DetailedMomentum{}
	var heights []uint64
	for _, d := range ds {
		if d != nil && d.Momentum != nil && want[d.Momentum.Hash] {
			if byHeight[d.Momentum.Height] == nil {
				heights = append(heights, d.Momentum.Height)
			}
			byHeight[d.Momentum.Height] = d
		}
	}
	sort.Slice(heights, func(i, j int) bool { return heights[i] < heights[j] })
	qh := e.q.Height()
	orphan := func(h uint64) bool { return h-1 < 1 || h-1 > qh } // no momentum at the parent height
	head := uint64(0)
	if e.offset != 0 && byHeight[e.offset] != nil && orphan(e.offset) {
		head, certain = e.offset, true
	} else {
		for _, h := range heights {
			if orphan(h) {
				head = h
				break
			}
		}
	}
	if head == 0 && byHeight[0] == nil {
		return nil, false
	}
	for h := head; byHeight[h] != nil; h++ {
		batch = append(batch, byHeight[h])
		if h == ^uint64(0) {
			break
		}
	}
	return batch, certain
}

func (e *c15Env) fire(step int, adv *c15Peer, a *c15Action, batch []*nom.DetailedMomentum, certain bool) {
	r, t := e.r, e.r.T
	pre := !adv.registered && !adv.wasRegistered
	phase := "post-handshake"
	if pre {
		phase = "pre-handshake"
	}
	e.logf("step %d %s %s %s: %s (declared %d, supplied %d)", step, adv.name, phase, a.class, a.desc, a.size, a.total)
	if !e.shapeD && e.wouldStartSync(adv, a) {
		r.Skip("serve-shape-sync-trigger")
		e.logf("  skipped: would make the adversary a sync origin in the serve shape")
		return
	}
	if a.code == c15Blocks && batch == nil {
		// an unsolicited BlocksMsg is taken as the answer to whatever the node has asked this peer
		batch, certain = e.gapBatch(adv.pendingReq, a)
	}
	if !e.prevalidate(adv, a, batch, certain) {
		e.logf("  not injected: it terminates the process (reported)")
		return
	}
	if a.class != "handshake" {
		e.hostile++
		r.Fault(a.class)
		if pre {
			r.Fault("pre-handshake")
		}
	}
	r.Probe("code-" + c15Name(a.code))
	var ms0, ms1 runtime.MemStats
	runtime.ReadMemStats(&ms0)
	h0, pool0 := e.q.Height(), len(e.poolHashes())
	adv.got, adv.asked = nil, nil
	var payload io.Reader = bytes.NewReader(a.data)
	if a.total > int64(len(a.data)) {
		payload = &c15Pattern{head: a.data, n: a.total, fill: []byte{0x00, 0xc0, 0x80, 0xa0, 0xff}[int(a.total)%5]}
	}
	e.inject(adv, a.code, a.size, payload)
	inj := adv.lastInj
	if a.validStatus {
		adv.sentStatus = true
	}
	e.settle()
	if !adv.wasRegistered {
		// learn at once whether this message completed the handshake: the node
		// may drop the peer again before the step's clock advance is over
		e.probeRegistration()
		adv.wasRegistered = adv.registered
	}
	// how long the peer stays silent afterwards (answers mostly come promptly)
	wts := []int{2, 1, 1, 1}
	if a.class == "answer" || a.class == "handshake" {
		wts = []int{6, 2, 1, 1}
	}
	dt := time.Duration(0)
	if !(e.strict && (a.class == "answer" || a.class == "handshake")) {
		dt = []time.Duration{0, 600 * time.Millisecond, 6 * time.Second, 13 * time.Second}[t.Pick(wts)]
	}
	if e.strict && a.class == "handshake" {
		// a session with a plan waits for the node's first request (the syncer's
		// next forced cycle, at most 4 s away)
		for waited := 0; len(adv.pendingReq) == 0 && !adv.isReturned() && waited < 9; waited++ {
			e.advance(500 * time.Millisecond)
		}
	}
	e.advance(dt)
	// the handler must be back in ReadMsg or have ended: it is never parked
	// elsewhere for good. Patience: 30 simulated seconds.
	for waited := 0; adv.handlerState() == "elsewhere" && waited < 60; waited++ {
		e.advance(500 * time.Millisecond)
	}
	runtime.ReadMemStats(&ms1)
	if st := adv.handlerState(); st == "elsewhere" {
		r.Report("stall", "handler-parked", "30 simulated seconds after %s the node's handler for %s is neither back in ReadMsg nor ended (message taken: %v)", a.desc, adv.name, inj.done.Load())
		e.disconnect(adv, "harness-gave-up")
		return
	}
	// allocation: (1) churn — bytes allocated while handling the message, far
	// beyond anything proportional to its size; (2) retention — heap still held
	// after a collection. Values are never logged (they are not deterministic).
	// (valid momentums the message made the node adopt cost real work: 2 MiB each)
	adopted := int64(e.q.Height()) - int64(h0)
	if adopted < 0 {
		adopted = 0
	}
	if alloc := int64(ms1.TotalAlloc - ms0.TotalAlloc); alloc > c15AllocSlack {
		if alloc > c15AllocSlack+1024*a.total+adopted*(2<<20) {
			r.Report("bloat", "allocation-"+c15Name(a.code), "handling %s (%d bytes supplied) allocated %d MiB", a.desc, a.total, alloc>>20)
		}
		runtime.GC()
		runtime.ReadMemStats(&ms1)
		if held := int64(ms1.HeapAlloc) - e.heapBase; held > c15AllocSlack+4*a.total {
			r.Report("bloat", "retained-"+c15Name(a.code), "after %s (%d bytes supplied) and a collection the heap holds %d MiB more than at the start of the session", a.desc, a.total, held>>20)
		}
	}
	if a.size > c15MaxMsg && (inj.consumed.Load() > 0 || len(adv.got) > 0) {
		r.Report("size-limit", "oversize-message-processed", "a %s declaring %d bytes (> 10 MiB) was processed: %d payload bytes read, answers: %s", c15Name(a.code), a.size, inj.consumed.Load(), c15Summary(adv.got))
	}
	if e.q.Height() > h0 {
		r.Probe("node-adopted-delivered-momentums")
	}
	if len(e.poolHashes()) > pool0 {
		r.Probe("node-pooled-delivered-blocks")
	}
	e.afterStep(adv, a)
}

// afterStep: who is still connected, who is still registered, state oracles.
func (e *c15Env) afterStep(adv *c15Peer, a *c15Action) {
	r := e.r
	e.probeRegistration()
	if adv.registered {
		adv.wasRegistered = true
	}
	status := "alive"
	if adv.isReturned() {
		status = "ended(" + c15ErrClass(adv.runErr) + ")"
		if adv.closedBy == "" {
			adv.closedBy = "node-error"
			r.Probe("offender-dropped")
		}
	} else if adv.wasRegistered && !adv.registered {
		// the node unregistered the peer and asked p2p to disconnect it
		status = "dropped-by-node"
		e.disconnect(adv, "node-drop")
		r.Probe("offender-dropped")
	}
	for _, pe := range e.peers {
		if !pe.honest || pe.closedBy != "" {
			continue
		}
		if st := pe.handlerState(); st == "elsewhere" {
			e.logf("  honest %s handler parked", pe.name)
			r.Report("collateral", "honest-handler-parked", "after %s from %s the handler of honest peer %s is not waiting for its next message", a.desc, adv.name, pe.name)
		}
		if pe.isReturned() || !pe.registered {
			e.logf("  honest %s LOST returned=%v registered=%v", pe.name, pe.isReturned(), pe.registered)
			r.Report("collateral", "honest-peer-dropped", "after %s from %s the honest peer %s lost its session (handler returned=%v err=%v, still registered=%v)", a.desc, adv.name, pe.name, pe.isReturned(), pe.runErr, pe.registered)
			e.disconnect(pe, "lost")
		}
	}
	e.checkState("after " + a.desc)
	fr := e.q.Frontier()
	if status == "alive" {
		status = adv.handlerState()
	}
	e.logf("  -> %s %s registered=%v | got %s | asked %s | node %d/%s pool %d", adv.name, status, adv.registered, c15Summary(adv.got), c15Summary(adv.asked), fr.Height, c15Short(fr.Hash), len(e.poolHashes()))
}

// liveness: a peer that is still connected gets a valid request answered, i.e.
// its handler is back in ReadMsg.
func (e *c15Env) liveness(adv *c15Peer) {
	if adv.closedBy != "" || adv.isReturned() || !adv.registered {
		return
	}
	adv.got = nil
	qh := e.q.Height()
	e.send(adv, c15GetBlockHashesFromNumber, &c15GetHashesFromNumber{qh, 1})
	inj := adv.lastInj
	e.settle()
	ok := func() bool {
		for _, m := range adv.got {
			if m.code == c15BlockHashes {
				var hs []types.Hash
				if rlp.DecodeBytes(m.data, &hs) == nil && len(hs) == 1 && hs[0] == e.canon(qh) {
					return true
				}
			}
		}
		return false
	}
	for waited := 0; !ok() && !adv.isReturned() && waited < 60; waited++ {
		e.advance(500 * time.Millisecond)
	}
	e.logf("  liveness %s: answered=%v ended=%v", adv.name, ok(), adv.isReturned())
	if !ok() && !adv.isReturned() {
		e.r.Report("stall", "request-unanswered", "peer %s is still connected but a valid request sent after its previous message stays unanswered for 30 simulated seconds (taken by the handler: %v, handler %s)", adv.name, inj.done.Load(), adv.handlerState())
		e.disconnect(adv, "harness-gave-up")
	} else if ok() {
		e.r.Probe("adversary-liveness-answered")
	}
}

func (e *c15Env) nextAction(adv *c15Peer) (*c15Action, []*nom.DetailedMomentum, bool) {
	t := e.r.T
	if !adv.registered && !adv.sentStatus && t.Choose(4) != 3 {
		// complete the handshake first
		td := e.q.Height()
		head := e.canon(td)
		desc := "truthful"
		if e.shapeD {
			v := t.Choose(4)
			if e.plan != 0 && v == 0 {
				v = 1 + t.Choose(3) // a session with a download plan wants to be a sync origin
			}
			switch v {
			case 1:
				if e.k > 0 {
					td = e.n0 + e.k
					head = e.canon(td)
					desc = "donor frontier"
				}
			case 2:
				td += uint64(1 + t.Choose(2000))
				head = e.junkHash()
				desc = "ahead, unknown head"
			case 3:
				td = ^uint64(0) - uint64(t.Choose(2))
				head = e.junkHash()
				desc = "maximal td"
			}
		}
		a := c15Act("handshake", c15Status, c15Enc(&c15StatusData{61, uint32(e.netID), td, head, e.genesis}), fmt.Sprintf("StatusMsg{valid, td %d, %s}", td, desc))
		a.validStatus = true
		adv.td = td
		return a, nil, false
	}
	if adv.registered && len(adv.pendingReq) > 0 && (e.strict || t.Choose(8) != 7) {
		reqs := append([]*c15Msg(nil), adv.pendingReq...)
		a := e.answer(adv)
		// find the request that was answered (the one no longer pending)
		var req *c15Msg
		for _, m := range reqs {
			still := false
			for _, p := range adv.pendingReq {
				if p == m {
					still = true
				}
			}
			if !still {
				req = m
			}
		}
		var batch []*nom.DetailedMomentum
		certain := false
		if req != nil && req.code == c15GetBlocks {
			batch, certain = e.gapBatch([]*c15Msg{req}, a)
		}
		return a, batch, certain
	}
	code := e.pickCode()
	switch t.Pick([]int{5, 3, 2}) {
	case 0:
		a := e.wellFormed(adv, code)
		if a.validStatus && !adv.registered {
			var st c15StatusData
			a.decodeAsNode(&st)
			adv.td = st.TD
		}
		return a, nil, false
	case 1:
		a := e.wellFormed(adv, code)
		a.validStatus = false
		e.mutate(a)
		return a, nil, false
	default:
		return e.randomBytes(code), nil, false
	}
}

func c15CollectBlocks(into map[types.Hash]bool, bs []*nom.AccountBlock) {
	for _, b := range bs {
		if b == nil {
			continue
		}
		into[b.Hash] = true
		c15CollectBlocks(into, b.DescendantBlocks)
	}
}

func runC15(r *simrt.Run) {
	// peer handlers are real goroutines: a busy node lock is waited for on the simulated clock, so that a
	// handler stuck behind a lock shows up as a stall after 30 simulated seconds instead of freezing the run
	r.DurableLockWaits(600 * time.Second)
	t := r.T
	mode := nomsim.SporkMode(t.Choose(3))
	w := nomsim.NewWorld(r, nomsim.MockGenesis(mode))
	w.Net.Gossip = false
	p := w.AddNode("P", nomsim.MockPillars(), false)
	q := w.AddNode("Q", nil, false)
	wl := nomsim.NewWorkload(w, mode)
	wl.MaxOps = 1 + t.Choose(3)

	e := &c15Env{r: r, w: w, p: p, q: q, probeHit: map[types.Hash]map[*c15Peer]bool{}, pKnown: map[types.Hash]bool{}, forged: map[types.Hash]*nom.DetailedMomentum{}}
	e.liveFire = c15LiveFire
	e.prng = uint64(t.Uint32())<<1 | 1

	// chain of 20..600 momentums (thorough: up to 1300); one class reaches beyond 512
	var target uint64
	switch t.Pick([]int{4, 2, 2}) {
	case 0:
		target = uint64(20 + t.Choose(60))
	case 1:
		target = uint64(80 + t.Choose(300))
	default:
		target = uint64(513 + t.Choose(88))
		if r.Tier == "thorough" {
			target = uint64(513 + t.Choose(800))
		}
	}
	e.shapeD = t.Bool()
	if t.Choose(3) != 0 {
		e.k = uint64(1 + t.Choose(40))
	}
	busyEvery := 2 + t.Choose(10)
	produce := func(upTo uint64, ops bool) {
		for s := 0; p.Height() < upTo && s < 4000; s++ {
			t.Span(func() {
				if ops && s%busyEvery == 0 {
					wl.Ops(p)
				}
				w.StepSlot()
			})
		}
	}
	produce(target, true)
	w.Net.SyncFrom(p, q)
	e.n0 = q.Height()
	if e.n0 != p.Height() || q.Frontier().Hash != p.Frontier().Hash {
		r.Fail("harness", "setup-sync", "follower did not adopt the producer's chain: %d vs %d", e.n0, p.Height())
	}
	busyEvery = 1
	produce(e.n0+e.k, true)
	e.k = p.Height() - e.n0
	for h := uint64(2); h <= p.Height(); h++ {
		c15CollectBlocks(e.pKnown, p.Detailed(h).AccountBlocks)
	}
	c15CollectBlocks(e.pKnown, p.Chain.GetAllUncommittedAccountBlocks())
	e.genesis = e.canon(1)
	e.netID = q.Chain.ChainIdentifier()
	e.lastHeight = e.n0

	minPeers := []int{1, 2, 0, 3}[t.Choose(4)]
	if e.shapeD && minPeers > 1 && t.Choose(8) != 0 {
		minPeers = 1 // with one peer at a time, a larger quorum switches synchronisation off
	}
	e.pm = protocol.NewProtocolManager(minPeers, e.netID, q.Bridge)
	e.pm.Start()
	r.Cleanup(func() {
		for _, pe := range e.peers {
			pe.conn.close()
		}
		go e.pm.Stop()
		synctest.Wait()
	})
	synctest.Wait()
	e.baseGoroutines = runtime.NumGoroutine()
	{
		var ms runtime.MemStats
		runtime.GC()
		runtime.ReadMemStats(&ms)
		e.heapBase = int64(ms.HeapAlloc)
	}
	e.logf("setup: chain %d, donor +%d, shape=%v minPeers=%d pool(P)=%d", e.n0, e.k, map[bool]string{false: "serve", true: "download"}[e.shapeD], minPeers, len(p.Chain.GetAllUncommittedAccountBlocks()))

	stepNum, maxSteps := 59, 100
	if r.Tier == "thorough" {
		stepNum, maxSteps = 199, 360
	}
	var adv *c15Peer
	var honest []*c15Peer
	if !e.shapeD {
		honest = append(honest, e.honestJoin("H1", e.n0))
		if t.Bool() {
			honest = append(honest, e.honestJoin("H2", e.n0))
		}
		e.honestRequest(honest[0])
	} else {
		if e.k > 0 && t.Bool() {
			// an honest peer that is ahead: the node synchronises from it through the
			// real downloader; positive control of the engine
			j := uint64(1 + t.Choose(int(e.k)))
			h0 := e.honestJoin("H0", e.n0+j)
			for waited := 0; q.Height() < e.n0+j && waited < 120; waited++ {
				e.advance(500 * time.Millisecond)
			}
			e.logf("honest sync from H0: node height %d (offered %d)", q.Height(), e.n0+j)
			if q.Height() == e.n0+j {
				r.Probe("honest-sync-completed")
			} else {
				r.Skip("honest-sync-incomplete")
			}
			e.checkState("after honest sync")
			e.honestRequest(h0)
			e.disconnect(h0, "peer-left")
		} else {
			e.honestCheckpoint()
		}
	}
	done := 0
	step := func() {
		i := done
		done++
		if adv == nil || adv.closedBy != "" {
			adv = e.newAdversary()
		}
		a, batch, certain := e.nextAction(adv)
		e.fire(i, adv, a, batch, certain)
		if adv.closedBy == "" && t.Choose(2) == 1 {
			e.liveness(adv)
		}
		if !e.shapeD {
			live := []*c15Peer{}
			for _, h := range honest {
				if h.closedBy == "" {
					live = append(live, h)
				}
			}
			if len(live) > 0 && t.Choose(2) == 0 {
				e.honestRequest(live[t.Choose(len(live))])
			}
		} else if t.Choose(4) == 3 && !(e.strict && adv.closedBy == "" && len(adv.pendingReq) > 0) {
			// checkpoint: let every timeout of the adversary's games expire, then a
			// fresh honest peer must be served
			e.advance(13 * time.Second)
			e.afterStep(adv, a)
			e.honestCheckpoint()
		}
	}
	// a variable-length loop of deletable iterations (the minimiser removes
	// whole steps), topped up to two dozen steps
	t.Loop(stepNum, stepNum+1, maxSteps, step)
	for done < 24 {
		t.Span(step)
	}
	// closing: quiet period, then the node must still serve a newcomer
	e.advance(13 * time.Second)
	if adv != nil && adv.closedBy == "" {
		e.afterStep(adv, &c15Action{desc: "the closing quiet period"})
	}
	if e.shapeD {
		e.honestCheckpoint()
	} else {
		for _, h := range honest {
			if h.closedBy == "" {
				e.honestRequest(h)
			}
		}
		e.honestCheckpoint()
	}
	e.checkState("end of run")
	{
		var ms runtime.MemStats
		runtime.GC()
		runtime.ReadMemStats(&ms)
		if held := int64(ms.HeapAlloc) - e.heapBase; held > 2*c15AllocSlack {
			r.Report("bloat", "retained-heap", "after %d peer messages and a collection the heap holds %d MiB more than when the protocol manager started", e.hostile, held>>20)
		}
	}
	if g := runtime.NumGoroutine(); g > e.baseGoroutines+200 {
		r.Report("bloat", "goroutines", "goroutines grew from %d to %d over %d peer messages", e.baseGoroutines, g, e.hostile)
	}
	r.Probes["hostile-messages"] += e.hostile
	r.NonTrivial = e.hostile >= 10 && e.honestOK >= 1
	r.Finger = hex.EncodeToString(e.fing[:8])
	r.Sample["chain"] = e.n0
	r.Sample["donor_extension"] = e.k
	r.Sample["shape"] = map[bool]string{false: "serve", true: "download"}[e.shapeD]
	r.Sample["hostile_messages"] = e.hostile
	r.Sample["honest_requests_verified"] = e.honestOK
	r.Sample["adversary_sessions"] = e.advSeq
	r.Sample["final_height"] = q.Height()
}
