package checks

import (
	"fmt"
	"time"

	"github.com/zenon-network/go-zenon/chain/nom"
	"github.com/zenon-network/go-zenon/common/types"

	"verif/sim/nomsim"
	"verif/sim/oracle"
	"verif/sim/simnode"
	"verif/sim/simrt"
)

func init() { register("C06", runC06) }

// freshFollower builds a node that only ever sees src's current chain.
func freshFollower(r *simrt.Run, w *nomsim.World, name string, src *simnode.Node, batchMax int) *simnode.Node {
	y := w.AddNode(name, nil, false)
	for y.Height() < src.Height() {
		from := y.Height() + 1
		to := from + uint64(r.T.Choose(batchMax))
		if to > src.Height() {
			to = src.Height()
		}
		idx, err := y.Bridge.InsertChain(src.Batch(from, to))
		if err != nil || idx != 0 {
			r.Fail("honest-batch-refused", "fresh-node", "fresh node refused %s's chain [%d..%d]: idx=%d err=%v", src.Name, from, to, idx, err)
		}
	}
	return y
}

func runC06(r *simrt.Run) {
	r.WatchLocks() // a lock of the node that is never released is a violation, not a hang
	t := r.T
	mode := nomsim.SporkMode(t.Choose(3))
	w := nomsim.NewWorld(r, nomsim.MockGenesis(mode))
	w.EnforceReceiverRule(0)
	if t.Choose(3) != 0 {
		w.SetEpochDuration(time.Duration(300*(2+t.Choose(2))) * time.Second)
		w.ShortRewardKnobs(int64(10*t.Choose(6)), uint64(1+t.Choose(10)))
	}
	wl := nomsim.NewWorkload(w, mode)
	wl.MaxOps = 1 + t.Choose(5)
	f := nomsim.NewFork(w, wl, t.Choose(6), true, true)
	f.Swing = t.Bool()
	f.Lifecycles = t.Bool()
	common := 3 + t.Choose(30)
	split := 2 + t.Choose(40)
	if r.Tier == "thorough" {
		common = 3 + t.Choose(90)
	}
	// some runs start from a history longer than the distance (360) at which the store moves historical
	// views to its second-level cache: views that far behind are opened before the switch and again after
	deep := t.Choose(8) == 0
	if deep {
		f.Common(361+t.Choose(12), false)
		r.Probe("deep-prefix")
	}
	f.Common(common, true)
	r.Logf("common prefix height %d", f.ForkHeight)
	opened := map[*simnode.Node][]types.HashHeight{}

	// during the split the observers open historical views and consensus reads
	// on their own branch (cache poisoning for the later switch)
	poison := func(n *simnode.Node) {
		h := n.Height()
		for i := 0; i < 3; i++ {
			x := uint64(1 + t.Choose(int(h)))
			if deep && h > 362 && i == 0 {
				x = uint64(1 + t.Choose(int(h-361)))
			}
			if m, err := n.Bridge.GetBlockByNumber(x); err == nil && m != nil {
				if v := n.Mgr.Get(m.Identifier()); v != nil {
					_ = oracle.Digest(oracle.Dump(v))
					r.Probe("view-opened-before-switch")
					if x+360 < h {
						r.Probe("far-view-opened-before-switch")
					}
					if x <= f.ForkHeight {
						opened[n] = append(opened[n], m.Identifier())
					}
				}
				n.Chain.GetMomentumStore(m.Identifier())
			}
		}
		_ = consensusView(n, 40, 40)
	}
	half := split / 2
	f.Split(half, t.Bool(), t.Bool())
	for _, n := range []*simnode.Node{f.XA, f.XB, f.A, f.B} {
		t.Span(func() {
			if t.Bool() {
				poison(n)
			}
		})
	}
	f.Split(split-half, true, true)
	for _, n := range []*simnode.Node{f.XA, f.XB} {
		t.Span(func() {
			if t.Bool() {
				poison(n)
			}
		})
	}
	win, lose, ok := f.Longer()
	for tries := 0; !ok && tries < 60; tries++ {
		w.StepSlot()
		w.Net.Flush()
		win, lose, ok = f.Longer()
	}
	if !ok {
		r.Skip("branches-stayed-equal")
		return
	}
	depth := lose.Height() - f.ForkHeight
	r.Logf("fork at %d: winner %s height %d, loser %s height %d (depth %d)", f.ForkHeight, win.Name, win.Height(), lose.Name, lose.Height(), depth)
	if depth == 0 {
		r.Probe("loser-had-no-branch")
	}
	// remember the abandoned identifiers
	var abandoned []types.HashHeight
	for h := f.ForkHeight + 1; h <= lose.Height(); h++ {
		if m, _ := lose.Bridge.GetBlockByNumber(h); m != nil {
			abandoned = append(abandoned, m.Identifier())
		}
	}
	losers := f.SideB()
	if lose == f.A {
		losers = f.SideA()
	}
	w.Net.Heal()
	if t.Choose(4) == 0 {
		// reorg right after a restart (cold caches)
		for _, n := range losers {
			if err := n.Restart(false); err != nil {
				r.Fail("restart", "open", "%v", err)
			}
		}
		r.Fault("restart-before-reorg")
	}
	w.Net.MaxBatch = []int{128, 7, 1}[t.Choose(3)]
	for _, n := range losers {
		w.Net.SyncFrom(win, n)
	}
	if depth > 30 {
		r.Probe("fork-deeper-than-window")
		for _, n := range losers {
			if n.Frontier().Hash == win.Frontier().Hash {
				r.Fail("window", "deep-reorg-accepted", "node %s abandoned %d momentums (more than 30)", n.Name, depth)
			}
		}
		r.NonTrivial = true
		r.Finger = win.Frontier().Hash.String() + "-deep"
		return
	}
	r.Fault(fmt.Sprintf("reorg-depth-%s", bucket(int(depth))))
	y := freshFollower(r, w, "Y", win, 64)
	cmp := func(stage string) {
		for _, x := range losers {
			if x.Frontier().Hash != y.Frontier().Hash {
				r.Fail("reorged-node-diverges", "frontier", "%s: reorged node %s is at %d/%v, fresh node at %d/%v", stage, x.Name, x.Height(), x.Frontier().Hash, y.Height(), y.Frontier().Hash)
			}
			// every historical view of the adopted chain around the fork and beyond
			var ids []types.HashHeight
			lo := uint64(1)
			if f.ForkHeight > 4 {
				lo = f.ForkHeight - 4
			}
			for h := lo; h <= y.Height(); h++ {
				if h <= f.ForkHeight+6 || t.Choose(4) == 0 {
					if m, _ := y.Bridge.GetBlockByNumber(h); m != nil {
						ids = append(ids, m.Identifier())
					}
				}
			}
			// and the views this node had opened while it was on the abandoned branch
			ids = append(ids, opened[x]...)
			compareNodes(r, "reorged-node-differs-from-fresh", y, x, ids)
			for _, id := range abandoned {
				if v := x.Mgr.Get(id); v != nil {
					r.Fail("abandoned-branch-visible", "historical-view", "%s: node %s still serves a view of abandoned momentum %v", stage, x.Name, id)
				}
				if x.Bridge.HasBlock(id.Hash) {
					r.Fail("abandoned-branch-visible", "has-block", "%s: node %s still knows abandoned momentum %v", stage, x.Name, id)
				}
			}
			cx, cy := consensusView(x, 60, 40), consensusView(y, 60, 40)
			if cx != cy {
				r.Fail("reorged-node-differs-from-fresh", "consensus-view", "%s: consensus answers differ on %s vs fresh node:\n%s\n%s", stage, x.Name, cx, cy)
			}
			r.Probe("consensus-views-compared")
			// the pool of the reorged node holds only blocks a fresh node accepts
			for _, b := range x.Chain.GetAllUncommittedAccountBlocks() {
				if b.BlockType == 4 { // contract send: travels inside its receive
					continue
				}
				if err := y.Bridge.AddAccountBlocks([]*nom.AccountBlock{b}); err != nil && !poolPriorityRefusal(err) {
					r.Fail("pool-trace", "unacceptable-block", "%s: block %v/%d left in %s's pool is refused by a fresh node: %v", stage, b.Address, b.Height, x.Name, err)
				}
				r.Probe("pool-block-checked")
			}
		}
	}
	cmp("after switch")
	// keep going on the adopted chain: everybody together, gossip on
	more := 2 + t.Choose(12)
	for i := 0; i < more; i++ {
		t.Span(func() {
			wl.G.RefreshTokens(win)
			wl.Ops(win)
			w.Net.Flush()
			w.StepSlot()
			w.Net.Flush()
		})
	}
	for _, n := range w.Nodes {
		if n != win && n.Up {
			w.Net.SyncFrom(win, n)
		}
	}
	if y.Height() < win.Height() {
		w.Net.SyncFrom(win, y)
	}
	if y.Frontier().Hash == win.Frontier().Hash {
		cmp("after continuing")
	}

	// store level: commit then rollback restores every key
	t.Span(func() {
		z := freshFollower(r, w, "Z", win, 64)
		h := z.Height()
		k := uint64(1 + t.Choose(6))
		if k >= h {
			return
		}
		target, _ := z.Bridge.GetBlockByNumber(h - k)
		ref := freshFollowerTo(r, w, "Zref", win, h-k)
		before := oracle.Dump(ref.Mgr.Frontier())
		ins := z.Chain.AcquireInsert("c06 rollback")
		err := z.Chain.RollbackTo(ins, target.Identifier())
		ins.Unlock()
		if err != nil {
			r.Fail("rollback", "error", "RollbackTo(%d) from %d: %v", h-k, h, err)
		}
		after := oracle.Dump(z.Mgr.Frontier())
		if oracle.Digest(before) != oracle.Digest(after) {
			r.Fail("rollback-not-exact", oracle.DiffClass(before, after), "rolling back %d momentums to height %d does not restore the state a node at that height holds: %s", k, h-k, oracle.Diff(before, after))
		}
		r.Probe("rollback-identity-checked")
	})
	r.NonTrivial = depth >= 1 && r.Probes["frontier-dumps-compared"] > 0
	r.Finger = win.Frontier().Hash.String()
	r.Sample["fork_height"] = f.ForkHeight
	r.Sample["depth"] = depth
	r.Sample["winner_height"] = win.Height()
	r.Sample["sync_batch"] = w.Net.MaxBatch
}

func freshFollowerTo(r *simrt.Run, w *nomsim.World, name string, src *simnode.Node, upTo uint64) *simnode.Node {
	y := w.AddNode(name, nil, false)
	if upTo >= 2 {
		idx, err := y.Bridge.InsertChain(src.Batch(2, upTo))
		if err != nil || idx != 0 {
			r.Fail("honest-batch-refused", "fresh-node", "fresh node refused chain [2..%d]: idx=%d err=%v", upTo, idx, err)
		}
	}
	return y
}

func bucket(d int) string {
	switch {
	case d == 0:
		return "0"
	case d <= 2:
		return "1-2"
	case d <= 9:
		return "3-9"
	case d <= 20:
		return "10-20"
	case d <= 30:
		return "21-30"
	}
	return ">30"
}
