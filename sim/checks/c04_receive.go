package checks

import (
	"fmt"

	"github.com/zenon-network/go-zenon/chain/nom"
	"github.com/zenon-network/go-zenon/common/types"

	"verif/sim/nomsim"
	"verif/sim/oracle"
	"verif/sim/simnode"
	"verif/sim/simrt"
)

func init() { register("C04", runC04) }

// ledgerScanC04 evaluates both clauses on one node's confirmed ledger.
func ledgerScanC04(r *simrt.Run, n *simnode.Node, stage string) (receives int, contractReceives int) {
	ms := n.Chain.GetFrontierMomentumStore()
	accounts := oracle.Accounts(n.Mgr.Frontier())
	type rcv struct {
		by     types.Address
		height uint64
	}
	received := map[types.Hash][]rcv{}
	sends := map[types.Hash]*nom.AccountBlock{}
	contractSeq := map[types.Address][]types.Hash{}
	for _, a := range accounts {
		as := ms.GetAccountStore(a)
		fr := as.Identifier()
		for h := uint64(1); h <= fr.Height; h++ {
			b, err := as.ByHeight(h)
			if err != nil || b == nil {
				r.Fail("ledger-scan", "missing-block", "%s: node %s account %v has no block at height %d", stage, n.Name, a, h)
			}
			switch b.BlockType {
			case nom.BlockTypeUserSend, nom.BlockTypeContractSend:
				sends[b.Hash] = b
			case nom.BlockTypeUserReceive, nom.BlockTypeContractReceive:
				received[b.FromBlockHash] = append(received[b.FromBlockHash], rcv{a, h})
				receives++
				if b.BlockType == nom.BlockTypeContractReceive {
					contractSeq[a] = append(contractSeq[a], b.FromBlockHash)
					contractReceives++
				}
			}
		}
	}
	for h, rs := range received {
		if len(rs) > 1 {
			_ = fmt.Sprint
			r.Fail("received-twice", "same-send", "%s: node %s: send %v is received %d times: %v", stage, n.Name, h, len(rs), rs)
		}
		s := sends[h]
		if s == nil {
			r.Fail("receive-without-send", "unknown-send", "%s: node %s: block %v/%d receives %v which is not a send on the ledger", stage, n.Name, rs[0].by, rs[0].height, h)
		}
		if s.ToAddress != rs[0].by {
			r.Fail("received-by-non-addressee", "receiver", "%s: node %s: send %v addressed to %v was received by %v", stage, n.Name, h, s.ToAddress, rs[0].by)
		}
	}
	// confirmation order of sends to each contract, computed from the momentums
	want := map[types.Address][]types.Hash{}
	for h := uint64(1); h <= n.Height(); h++ {
		m, err := ms.GetMomentumByHeight(h)
		if err != nil || m == nil {
			r.Fail("ledger-scan", "missing-momentum", "%s: node %s height %d", stage, n.Name, h)
		}
		for _, hd := range m.Content {
			b, err := ms.GetAccountBlock(*hd)
			if err != nil || b == nil {
				r.Fail("ledger-scan", "missing-content-block", "%s: node %s momentum %d", stage, n.Name, h)
			}
			if b.BlockType == nom.BlockTypeContractSend {
				continue // travels with (and is ordered by) the receive block that produced it
			}
			group := append([]*nom.AccountBlock{b}, b.DescendantBlocks...)
			for _, x := range group {
				if x.IsSendBlock() && types.IsEmbeddedAddress(x.ToAddress) {
					want[x.ToAddress] = append(want[x.ToAddress], x.Hash)
				}
			}
		}
	}
	for c, seq := range contractSeq {
		w := want[c]
		if len(seq) > len(w) {
			r.Fail("contract-inbox-order", "more-receives-than-sends", "%s: node %s contract %v received %d calls but only %d were confirmed", stage, n.Name, c, len(seq), len(w))
		}
		for i := range seq {
			if seq[i] != w[i] {
				r.Fail("contract-inbox-order", "not-fifo", "%s: node %s contract %v: receive #%d takes send %v but the %d-th confirmed send is %v", stage, n.Name, c, i, seq[i], i, w[i])
			}
		}
	}
	return
}

func runC04(r *simrt.Run) {
	r.WatchLocks() // a lock of the node that is never released is a violation, not a hang
	t := r.T
	mode := nomsim.SporkMode(t.Choose(3))
	w := nomsim.NewWorld(r, nomsim.MockGenesis(mode))
	w.EnforceReceiverRule(0) // the enforced regime (see DESIGN: the pre-enforcement regime is C03's)
	wl := nomsim.NewWorkload(w, mode)
	wl.MaxOps = 2 + t.Choose(5)
	wl.Mix = nomsim.Mix{Transfer: 5, Receive: 6, Flow: 5, RandomCall: 2, Spork: 0}
	f := nomsim.NewFork(w, wl, t.Choose(6), t.Bool(), t.Bool())
	w.Net.DropPct = []int{0, 5, 15}[t.Choose(3)]
	w.Net.DupPct = []int{0, 10}[t.Choose(2)]
	w.Net.DelayPct = []int{0, 20}[t.Choose(2)]

	// competing receive attempts on top of the random traffic
	compete := func(n *simnode.Node) {
		u := w.Users[t.Choose(len(w.Users))]
		hs := w.Unreceived(n, u.Address, 8)
		if len(hs) == 0 {
			return
		}
		h := hs[t.Choose(len(hs))]
		switch t.Choose(6) {
		case 5: // a user tries to receive a send that is addressed to a contract
			top := n.Height()
			if top < 3 {
				return
			}
			d := n.Detailed(top - uint64(t.Choose(int(minU64(top-2, 6)))))
			if d == nil {
				return
			}
			for _, b := range d.AccountBlocks {
				if b.IsSendBlock() && types.IsEmbeddedAddress(b.ToAddress) && b.Amount.Sign() > 0 {
					_, e := w.Receive(n, u.Address, b.Hash)
					r.Logf("compete user-receives-contract-send %v by %v: refused=%v", b.Hash.String()[:8], u.Address.String()[:8], e != nil)
					r.Probe("attempt-user-receives-contract-send")
					break
				}
			}
			return
		case 4: // a second contract receive for a call the contract has already received
			c := types.EmbeddedContracts[t.Choose(len(types.EmbeddedContracts))]
			as := n.Chain.GetFrontierAccountStore(c)
			top := as.Identifier().Height
			if top == 0 {
				return
			}
			old, err := as.ByHeight(1 + uint64(t.Choose(int(top))))
			if err != nil || old == nil || old.BlockType != nom.BlockTypeContractReceive {
				return
			}
			send, err := n.Chain.GetFrontierMomentumStore().GetAccountBlockByHash(old.FromBlockHash)
			if err != nil || send == nil {
				return
			}
			var again *nom.AccountBlock
			func() {
				defer func() { recover() }()
				if ex, err := n.Sup.GenerateAutoReceive(send); err == nil && ex != nil && ex.Transaction != nil {
					again = ex.Transaction.Block
				}
			}()
			r.Probe("attempt-contract-receive-again")
			if again == nil && len(old.DescendantBlocks) == 0 {
				// the node's generator declines: craft the copy by hand on the contract's present frontier
				fr := n.Chain.GetFrontierAccountStore(c).Identifier()
				again = nomsim.CloneBlock(old)
				again.Height, again.PreviousHash = fr.Height+1, fr.Hash
				again.MomentumAcknowledged = n.Frontier().Identifier()
				again.Hash = again.ComputeHash()
				r.Probe("contract-receive-again-handcrafted")
			} else if again != nil {
				r.Probe("contract-receive-again-generated")
			}
			if again == nil {
				return
			}
			if err := n.Bridge.AddAccountBlocks([]*nom.AccountBlock{again}); err == nil {
				r.Fail("received-twice", "contract-receive-replayed", "node %s accepted a second receive block %v/%d of %v for call %v, which the contract received at height %d", n.Name, c, again.Height, again.Hash, send.Hash, old.Height)
			}
			return
		}
		switch t.Choose(4) {
		case 0: // the same account twice in a row
			_, e1 := w.Receive(n, u.Address, h)
			_, e2 := w.Receive(n, u.Address, h)
			r.Logf("compete same-account-twice %v: %v / %v", h.String()[:8], e1 != nil, e2 != nil)
			r.Probe("attempt-same-account-twice")
		case 1: // another account tries
			o := w.Users[t.Choose(len(w.Users))]
			_, e := w.Receive(n, o.Address, h)
			r.Logf("compete other-account %v by %v: refused=%v", h.String()[:8], o.Address.String()[:8], e != nil)
			r.Probe("attempt-other-account")
		case 2: // fork siblings: two receive blocks for the same height (different plasma), both offered to the pool
			fr := n.Chain.GetFrontierAccountStore(u.Address).Identifier()
			mk := func(extra uint64) *nom.AccountBlock {
				tx, err := n.Sup.GenerateFromTemplate(&nom.AccountBlock{BlockType: nom.BlockTypeUserReceive, Address: u.Address, FromBlockHash: h,
					PreviousHash: fr.Hash, Height: fr.Height + 1, FusedPlasma: 21000 + extra}, u.Signer)
				if err != nil {
					return nil
				}
				return tx.Block
			}
			b1, b2 := mk(0), mk(uint64(1+t.Choose(1000)))
			for _, b := range []*nom.AccountBlock{b1, b2} {
				if b != nil {
					e := n.Bridge.AddAccountBlocks([]*nom.AccountBlock{b})
					r.Logf("compete sibling %v fused %d: refused=%v", h.String()[:8], b.FusedPlasma, e != nil)
				}
			}
			r.Probe("attempt-fork-siblings")
		case 3: // receive, then receive again after a few more blocks of the account
			w.Receive(n, u.Address, h)
			w.Send(n, u.Address, w.Users[0].Address, types.ZnnTokenStandard, wlAmount(t), nil)
			_, e := w.Receive(n, u.Address, h)
			r.Logf("compete receive-again-later %v: refused=%v", h.String()[:8], e != nil)
			r.Probe("attempt-receive-again-later")
		}
	}
	wl.OnAccepted = nil
	common := 4 + t.Choose(25)
	for i := 0; i < common; i++ {
		t.Span(func() {
			wl.G.RefreshTokens(f.A)
			wl.Ops(f.A)
			t.Loop(1, 2, 3, func() { compete(f.A) })
			w.Net.DeliverDue()
			w.StepSlot()
			w.Net.DeliverDue()
		})
	}
	w.Net.Flush()
	for _, n := range w.Nodes {
		if n != f.A {
			w.Net.SyncFrom(f.A, n)
		}
	}
	// some nodes restart on their (non-empty) database before the branches part
	if t.Choose(3) == 0 {
		for _, n := range w.Nodes {
			if n.Up && t.Bool() {
				r.Fault("restart-before-split")
				if err := n.Restart(false); err != nil {
					r.Fail("restart", "open", "%v", err)
				}
			}
		}
	}
	// split: the same sends can be received on both branches
	w.Net.Partition(f.SideA(), f.SideB())
	split := 2 + t.Choose(30)
	for i := 0; i < split; i++ {
		t.Span(func() {
			for _, n := range []*simnode.Node{f.A, f.B} {
				wl.G.RefreshTokens(n)
				wl.Ops(n)
				t.Loop(1, 2, 3, func() { compete(n) })
			}
			w.Net.Flush()
			w.StepSlot()
			w.Net.Flush()
		})
	}
	f.ForkHeight = nomsim.CommonAncestor(f.A, f.B)
	for _, n := range w.Nodes {
		ledgerScanC04(r, n, "before heal")
	}
	win, lose, ok := f.Longer()
	for tries := 0; !ok && tries < 40; tries++ {
		w.StepSlot()
		win, lose, ok = f.Longer()
	}
	// collect the loser branch's account blocks: they will be gossiped again after the switch
	var replay []*nom.AccountBlock
	if ok {
		for h := f.ForkHeight + 1; h <= lose.Height(); h++ {
			if d := lose.Detailed(h); d != nil {
				for _, b := range d.AccountBlocks {
					if b.BlockType != nom.BlockTypeContractSend {
						replay = append(replay, b)
					}
				}
			}
		}
		for _, b := range lose.Chain.GetAllUncommittedAccountBlocks() {
			if b.BlockType != nom.BlockTypeContractSend {
				replay = append(replay, b)
			}
		}
		sortBlocks(replay)
	}
	w.Net.Heal()
	if ok && lose.Height()-f.ForkHeight <= 30 {
		for _, n := range w.Nodes {
			if n != win {
				w.Net.SyncFrom(win, n)
			}
		}
		r.Fault("reorg-depth-" + bucket(int(lose.Height()-f.ForkHeight)))
		// the abandoned branch's blocks reach everybody again
		acc := 0
		for _, b := range replay {
			for _, n := range w.Nodes {
				if n.Up && n.Bridge.AddAccountBlocks([]*nom.AccountBlock{nomsim.CloneBlock(b)}) == nil {
					acc++
				}
			}
		}
		r.Probes["abandoned-blocks-regossiped"] += len(replay)
		r.Probes["abandoned-blocks-reaccepted"] += acc
	}
	if t.Choose(3) == 0 {
		for _, n := range w.Nodes {
			if n.Up && t.Bool() {
				r.Fault("restart")
				if err := n.Restart(false); err != nil {
					r.Fail("restart", "open", "%v", err)
				}
			}
		}
	}
	more := 3 + t.Choose(12)
	for i := 0; i < more; i++ {
		t.Span(func() {
			if win.Up {
				wl.G.RefreshTokens(win)
				wl.Ops(win)
				t.Loop(1, 2, 2, func() { compete(win) })
			}
			w.Net.Flush()
			w.StepSlot()
			w.Net.Flush()
		})
	}
	total, contract := 0, 0
	for _, n := range w.Nodes {
		if !n.Up {
			continue
		}
		a, c := ledgerScanC04(r, n, "final")
		total += a
		contract += c
	}
	r.Probes["receives-scanned"] += total
	r.Probes["contract-receives-scanned"] += contract
	r.NonTrivial = total >= 10 && contract >= 3
	r.Finger = win.Frontier().Hash.String()
	r.Sample["heights"] = []uint64{f.A.Height(), f.B.Height()}
	r.Sample["fork_height"] = f.ForkHeight
	r.Sample["receives_contract_receives"] = []int{total, contract}
}

func minU64(a, b uint64) uint64 {
	if a < b {
		return a
	}
	return b
}
