package checks

import "verif/sim/simrt"

// c15Lower is set by c15_lower.go when the binary was built with the p2p shims
// (build tag verifshims + shim overlay). Without them the lower layers are not
// reachable and that part of C15 is counted as skipped.
var c15Lower func(r *simrt.Run)

func init() {
	// wrap C15 once all init functions have registered it (file order: c15_l* < c15_p*: do it lazily)
	wrapC15 = func() {
		p := Registry["C15"]
		if p == nil || p.wrapped {
			return
		}
		p.wrapped = true
		orig := p.Run
		p.Run = func(r *simrt.Run) {
			if r.T.Choose(4) == 0 {
				if c15Lower == nil {
					r.Skip("lower-layers-shims-not-built")
				} else {
					c15Lower(r)
					return
				}
			}
			orig(r)
		}
	}
}
