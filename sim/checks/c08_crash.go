package checks

// C08 — committing or rolling back a momentum is atomic across a crash.
//
// Technique (no hook in the code under test): goleveldb appends one journal
// record per Put/Delete/Write and flushes it to the file before returning, so
// "the process died after its k-th write of the operation" is the directory
// image taken before the operation plus the first k NEW journal records, and a
// write torn by the death is the journal cut inside record k+1 (package
// simdisk).
//
// Images are taken from LIVE nodes, never across a stop/reopen (a reopen
// replays the journal into a table file and starts an empty journal, which
// would destroy the record boundaries of the operation): the full "before"
// image is copied after synctest.Wait() let goleveldb's background goroutines go
// quiet, with the file listing compared before/after the copy; the "after"
// snapshots (journal name + bytes) are taken by a momentum event listener right
// after every single chain-manager Add/Pop, which splits multi-momentum
// operations (RollbackTo of d momentums, InsertChain of a competing branch) into
// their single-momentum units. A background table compaction between the two
// does not matter (tables are rewritten with the same content, the journal is
// untouched); a memtable rotation switches the journal file and makes the
// sample a counted skip, as does an image that disagrees with the live node's
// own iterator.
//
// Own momentum inserts are sampled on the live producer P. Rollbacks and
// reorganisations are sampled on a clone: a node started, without producing
// keys, on a copy of P's directory — what P is after a clean restart — so that
// the operation runs in the run's own goroutine (a panic there is recoverable,
// a panic in a pillar worker goroutine kills the worker process). Competing
// branches come from a second producer started on P's directory as it was d
// momentums earlier.
//
// Oracle, per crash state: (1) the raw key space recovered by goleveldb equals
// exactly the raw key space before or after the unit; (2) a torn write
// recovers to the state of the previous record boundary; (3) a sampled subset
// is opened through the real start path (db.NewLevelDBManager + chain.Init …)
// and continued — the same momentum/branch/rollback is delivered again, or a
// competing branch — and must reach the key space the never-crashed node has.
// Independently (4) the stored redo (0x66) and undo (0x77) entries of a unit must
// transform the "before" key space into the "after" one and back.

import (
	"bytes"
	"crypto/sha256"
	"encoding/binary"
	"encoding/hex"
	"fmt"
	"os"
	"path/filepath"
	"runtime/debug"
	"sort"
	"strings"
	"testing/synctest"
	"time"

	"github.com/zenon-network/go-zenon/chain/nom"
	"github.com/zenon-network/go-zenon/common/types"

	"verif/sim/nomsim"
	"verif/sim/simdisk"
	"verif/sim/simnode"
	"verif/sim/simrt"
)

func init() { register("C08", runC08) }

const (
	c08Frontier = 0x55 // raw prefix of the frontier key space (value = 0x00‖v, empty = deleted)
	c08Patch    = 0x66 // ‖ height(8, BE): redo patch of the momentum at that height
	c08Undo     = 0x77 // ‖ height(8, BE): undo patch of the momentum at that height

	c08MaxDepth = 10 // deepest sampled rollback
)

// ---- event recorder: one journal snapshot per chain-manager Add / Pop ----

type c08Event struct {
	del    bool
	height uint64
	hash   types.Hash
	tail   *simdisk.Tail
	err    error
}

type c08Recorder struct {
	dir    string
	armed  bool
	events []c08Event
}

func (rc *c08Recorder) snap(del bool, d *nom.DetailedMomentum) {
	if !rc.armed {
		return
	}
	t, err := simdisk.TakeTail(rc.dir)
	rc.events = append(rc.events, c08Event{del: del, height: d.Momentum.Height, hash: d.Momentum.Hash, tail: t, err: err})
}
func (rc *c08Recorder) InsertMomentum(d *nom.DetailedMomentum) { rc.snap(false, d) }
func (rc *c08Recorder) DeleteMomentum(d *nom.DetailedMomentum) { rc.snap(true, d) }

// ---- views of a raw dump ----

// c08Logical is the state the store represents: frontier keys that exist (the
// empty value is the store's own encoding of "deleted") plus every redo/undo entry.
func c08Logical(raw []simdisk.KV) []simdisk.KV {
	out := make([]simdisk.KV, 0, len(raw))
	for _, kv := range raw {
		if len(kv.K) > 0 && kv.K[0] == c08Frontier && len(kv.V) == 0 {
			continue
		}
		out = append(out, kv)
	}
	return out
}

func c08Digest(kvs []simdisk.KV) string {
	h := sha256.New()
	var l [8]byte
	for _, kv := range kvs {
		binary.BigEndian.PutUint32(l[:4], uint32(len(kv.K)))
		binary.BigEndian.PutUint32(l[4:], uint32(len(kv.V)))
		h.Write(l[:])
		h.Write(kv.K)
		h.Write(kv.V)
	}
	return hex.EncodeToString(h.Sum(nil)[:8])
}

func c08Get(raw []simdisk.KV, key []byte) ([]byte, bool) {
	i := sort.Search(len(raw), func(i int) bool { return bytes.Compare(raw[i].K, key) >= 0 })
	if i < len(raw) && bytes.Equal(raw[i].K, key) {
		return raw[i].V, true
	}
	return nil, false
}

func c08HeightKey(prefix byte, h uint64) []byte {
	k := make([]byte, 9)
	k[0] = prefix
	binary.BigEndian.PutUint64(k[1:], h)
	return k
}

func c08Hex(b []byte, max int) string {
	s := hex.EncodeToString(b)
	if len(s) > max {
		return fmt.Sprintf("%s…(%dB)", s[:max], len(b))
	}
	return s
}

// c08DecodeBatch decodes a stored patch (leveldb batch body without header).
func c08DecodeBatch(p []byte) ([]simdisk.Op, error) {
	hdr := make([]byte, 12)
	// count entries first: Record.Ops wants the count in the header
	n := 0
	q := p
	for len(q) > 0 {
		typ := q[0]
		q = q[1:]
		kl, w := binary.Uvarint(q)
		if w <= 0 || int(kl) > len(q)-w {
			return nil, fmt.Errorf("bad key length in stored patch")
		}
		q = q[w+int(kl):]
		if typ == 1 {
			vl, w := binary.Uvarint(q)
			if w <= 0 || int(vl) > len(q)-w {
				return nil, fmt.Errorf("bad value length in stored patch")
			}
			q = q[w+int(vl):]
		} else if typ != 0 {
			return nil, fmt.Errorf("bad entry type %d in stored patch", typ)
		}
		n++
	}
	binary.LittleEndian.PutUint32(hdr[8:], uint32(n))
	rec := simdisk.Record{Payload: append(hdr, p...)}
	return rec.Ops()
}

// c08Apply applies a stored patch to the logical frontier key space of raw and
// returns the resulting logical frontier key space (sorted).
func c08Apply(raw []simdisk.KV, ops []simdisk.Op) []simdisk.KV {
	m := map[string][]byte{}
	for _, kv := range raw {
		if len(kv.K) > 0 && kv.K[0] == c08Frontier && len(kv.V) > 0 {
			m[string(kv.K[1:])] = kv.V[1:]
		}
	}
	for _, op := range ops {
		if op.Delete {
			delete(m, string(op.Key))
		} else {
			m[string(op.Key)] = op.Value
		}
	}
	return c08SortedMap(m)
}

func c08SortedMap(m map[string][]byte) []simdisk.KV {
	keys := make([]string, 0, len(m))
	for k := range m {
		keys = append(keys, k)
	}
	sort.Strings(keys)
	out := make([]simdisk.KV, 0, len(keys))
	for _, k := range keys {
		out = append(out, simdisk.KV{K: []byte(k), V: m[k]})
	}
	return out
}

func c08FrontierSpace(raw []simdisk.KV) []simdisk.KV { return c08Apply(raw, nil) }

// c08ApplyRaw applies the key operations of one journal record to a raw dump.
func c08ApplyRaw(raw []simdisk.KV, ops []simdisk.Op) []simdisk.KV {
	m := make(map[string][]byte, len(raw)+len(ops))
	for _, kv := range raw {
		m[string(kv.K)] = kv.V
	}
	for _, op := range ops {
		if op.Delete {
			delete(m, string(op.Key))
		} else {
			m[string(op.Key)] = op.Value
		}
	}
	return c08SortedMap(m)
}

// ---- the check ----

type c08Unit struct {
	kind   string // "commit" | "rollback"
	height uint64
	hash   types.Hash
	before []byte // journal before the unit
	after  []byte // journal after the unit
}

type c08State struct {
	r       *simrt.Run
	w       *nomsim.World
	p       *simnode.Node
	rec     *c08Recorder // recorder of the live producer P
	scratch string
	seq     int
	follow  simnode.Config // config of reopened nodes: no producing keys, so no producer goroutines
	wl      *nomsim.Workload

	ring map[uint64]*simdisk.Image // P's directory by height (map is only indexed, never iterated for decisions)

	history  []string // "kind:n" per enumerated unit (fingerprint)
	fullEnum int      // units fully enumerated with n>=2, or n==1 with a torn offset tried
}

func (c *c08State) dir(tag string) string {
	c.seq++
	return filepath.Join(c.scratch, fmt.Sprintf("%s%d", tag, c.seq))
}

func c08Attach(n *simnode.Node) *c08Recorder {
	rec := &c08Recorder{dir: n.Dir}
	n.Chain.Register(rec)
	return rec
}

// clone starts a node without producing keys on a copy of P's directory: the
// node P would be after a clean restart. Rollbacks and reorganisations are
// sampled on clones, in the run's own goroutine, so that the producer P (whose
// momentum inserts run in a pillar worker goroutine) never rolls back itself.
func (c *c08State) clone(name string) (*simnode.Node, *c08Recorder) {
	synctest.Wait()
	d := c.dir("clone")
	if _, err := simdisk.Take(c.p.Dir, d); err != nil {
		c.r.Skip("file-set-changed")
		os.RemoveAll(d)
		return nil, nil
	}
	x := simnode.NewOnDir(c.r, name, c.follow, d)
	if err := x.Open(); err != nil {
		c.r.Fail("harness", "clone-open", "copy of the live directory does not open: %v", err)
	}
	return x, c08Attach(x)
}

func (c *c08State) discard(x *simnode.Node) {
	func() {
		defer func() { recover() }()
		x.Stop()
	}()
	os.RemoveAll(x.Dir)
}

// ringSnap keeps directory images of P at its most recent heights (fork points
// for competing branches).
func (c *c08State) ringSnap() {
	h := c.p.Height()
	if c.ring[h] != nil {
		return
	}
	synctest.Wait()
	d := c.dir("ring")
	img, err := simdisk.Take(c.p.Dir, d)
	if err != nil {
		os.RemoveAll(d)
		return
	}
	c.ring[h] = img
	for old, im := range c.ring {
		if old+uint64(c08MaxDepth) < h {
			os.RemoveAll(im.Dir)
			delete(c.ring, old)
		}
	}
}

// rawOf materialises one crash state and lets goleveldb recover it (the
// read-write recovery the node's own open performs).
func (c *c08State) rawOf(img *simdisk.Image, journal []byte) ([]simdisk.KV, error) {
	d := c.dir("x")
	defer os.RemoveAll(d)
	if err := img.Materialise(d, journal); err != nil {
		return nil, err
	}
	return simdisk.RawDump(d)
}

// rawOfRO is rawOf through goleveldb's read-only recovery (bulk enumeration).
func (c *c08State) rawOfRO(img *simdisk.Image, journal []byte) ([]simdisk.KV, error) {
	d := c.dir("x")
	defer os.RemoveAll(d)
	if err := img.Materialise(d, journal); err != nil {
		return nil, err
	}
	return simdisk.RawDumpRO(d)
}

// step drives one slot on node n alone.
func (c *c08State) step(n *simnode.Node) bool {
	w := c.w
	s := w.Slot
	w.Slot++
	w.AdvanceTo(s)
	h0 := n.Height()
	ok, err := n.ProduceAt(w.SlotTime(s))
	if err != nil {
		c.r.Logf("slot %d node %s: election error %v", s, n.Name, err)
		return false
	}
	h1 := n.Height()
	c.r.Logf("slot %d node %s produced=%v height %d -> %d (%s)", s, n.Name, ok, h0, h1, n.Frontier().Hash.String()[:8])
	return h1 > h0
}

// violation reports; unknown signatures end the run after the current operation.
func (c *c08State) violation(kind, disc, format string, a ...any) {
	c.r.Report("crash-"+kind, disc, format, a...)
}

func (c *c08State) describeRecord(rec *simdisk.Record) string {
	ops, err := rec.Ops()
	if err != nil {
		return "undecodable batch: " + err.Error()
	}
	var s []string
	for i, op := range ops {
		if i >= 3 {
			s = append(s, fmt.Sprintf("…+%d", len(ops)-3))
			break
		}
		if op.Delete {
			s = append(s, "Delete("+c08Hex(op.Key, 40)+")")
		} else {
			s = append(s, fmt.Sprintf("Put(%s, %dB)", c08Hex(op.Key, 40), len(op.Value)))
		}
	}
	return strings.Join(s, " ")
}

// sampleOp takes the "before" image of live node p, runs do() on it with the
// recorder armed and enumerates every crash state of every unit. redo delivers
// the same operation to a reopened crash image; with wantCompeting a competing
// branch is built on top of the "before" image after the operation.
func (c *c08State) sampleOp(p *simnode.Node, rec *c08Recorder, name string, do func() error, redo func(n *simnode.Node) error, wantCompeting bool) {
	r, t := c.r, c.r.T
	synctest.Wait() // goleveldb's background goroutines (flush/compaction) are parked
	s0dir := c.dir("s0-")
	defer os.RemoveAll(s0dir)
	img, err := simdisk.Take(p.Dir, s0dir)
	if err != nil {
		r.Logf("op %s: before-image unusable (%v); running the operation unsampled", name, err)
		r.Skip("file-set-changed")
		if err := do(); err != nil {
			r.Logf("op %s (unsampled): err=%v", name, errStrC08(err))
		}
		return
	}
	h0 := p.Height()
	rec.events = nil
	rec.armed = true
	var opErr error
	func() {
		defer func() {
			if x := recover(); x != nil {
				opErr = fmt.Errorf("panic: %v", x)
			}
		}()
		opErr = do()
	}()
	rec.armed = false
	events := rec.events
	rec.events = nil
	r.Logf("op %s: height %d -> %d events=%d err=%v", name, h0, p.Height(), len(events), errStrC08(opErr))
	if len(events) == 0 {
		r.Skip("operation-wrote-nothing")
		return
	}
	synctest.Wait()
	final, err := simdisk.TakeTail(p.Dir)
	if err != nil {
		r.Logf("op %s: the journal file was switched during the operation (memtable rotation); sample skipped", name)
		r.Skip("file-set-changed")
		return
	}
	// split into units
	var units []c08Unit
	prev := img.Journal
	for _, e := range events {
		if e.err != nil || e.tail == nil || !img.Extends(e.tail) || len(e.tail.Journal) < len(prev) || !bytes.Equal(e.tail.Journal[:len(prev)], prev) {
			r.Logf("op %s: the journal file was switched during the operation (memtable rotation); sample skipped", name)
			r.Skip("file-set-changed")
			return
		}
		k := "commit"
		if e.del {
			k = "rollback"
		}
		units = append(units, c08Unit{kind: k, height: e.height, hash: e.hash, before: prev, after: e.tail.Journal})
		prev = e.tail.Journal
	}
	if !img.Extends(final) || !bytes.Equal(final.Journal, prev) {
		if img.Extends(final) {
			// something wrote after the last Add/Pop event: not the shape this model covers
			r.Logf("op %s: journal moved after the last event (%d -> %d bytes)", name, len(prev), len(final.Journal))
			r.Skip("writes-outside-add-pop")
			return
		}
		r.Logf("op %s: the journal file was switched during the operation (memtable rotation); sample skipped", name)
		r.Skip("file-set-changed")
		return
	}
	// the final image must be what the live, never-crashed node holds
	rawFinal, err := c.rawOf(img, final.Journal)
	if err != nil {
		r.Logf("op %s: final image does not open: %v", name, err)
		r.Skip("image-disagrees-with-live-node")
		return
	}
	if why := c08AgreesWithLive(rawFinal, p); why != "" {
		r.Logf("op %s: final image disagrees with the live node: %s", name, why)
		r.Skip("image-disagrees-with-live-node")
		return
	}
	logicalFinal := c08Logical(rawFinal)
	if opErr != nil {
		// the live operation itself stopped half way (not a crash matter): every
		// unit it completed is still enumerated, but "deliver it again" has no
		// never-crashed outcome to be compared with
		r.Skip("continuation-not-judged-live-operation-failed")
		redo = nil
	}

	// competing branch: built on the "before" image by a separate producer
	var competing []*nom.DetailedMomentum
	var logicalCompeting []simdisk.KV
	if wantCompeting && opErr == nil {
		competing, logicalCompeting = c.buildCompeting(p, img, final.Journal, name)
	}

	rawBefore, err := c.rawOf(img, img.Journal)
	if err != nil {
		r.Logf("op %s: before-image does not open: %v", name, err)
		r.Skip("file-set-changed")
		return
	}
	// real-start-path checks cost a node start each: in the quick tier they are
	// done on the first, the last and one tape-chosen middle unit of a long operation
	cont := map[int]bool{}
	if r.Tier == "thorough" || len(units) <= 3 {
		for i := range units {
			cont[i] = true
		}
	} else {
		cont[0], cont[len(units)-1] = true, true
		cont[1+t.Choose(len(units)-2)] = true
	}
	for ui := range units {
		u := &units[ui]
		var rawAfter []simdisk.KV
		t.Span(func() {
			rd, cp := redo, competing
			if !cont[ui] {
				rd, cp = nil, nil
			}
			rawAfter = c.enumerateUnit(name, img, u, ui+1, len(units), rawBefore, logicalFinal, cont[ui], rd, cp, logicalCompeting)
		})
		if rawAfter == nil {
			return
		}
		rawBefore = rawAfter
		if len(r.Unknown()) > 0 {
			r.Abort()
		}
	}
}

// c08AgreesWithLive compares the image's frontier key space with what the live
// node serves through its own frontier iterator, key by key. The iterator
// yields deleted keys too, with a nil value; they must be the image's
// empty-valued keys.
func c08AgreesWithLive(raw []simdisk.KV, p *simnode.Node) string {
	it := p.Mgr.Frontier().NewIterator(nil)
	defer it.Release()
	n := 0
	for _, kv := range raw {
		if len(kv.K) == 0 || kv.K[0] != c08Frontier {
			continue
		}
		if !it.Next() {
			return fmt.Sprintf("image has more frontier keys than the live node (%d)", n)
		}
		n++
		var v []byte
		if len(kv.V) > 0 {
			v = kv.V[1:]
		}
		lv := it.Value()
		if !bytes.Equal(it.Key(), kv.K[1:]) || !bytes.Equal(lv, v) || (lv == nil) != (len(kv.V) == 0) {
			return fmt.Sprintf("key %s: image %s live key %s %s", c08Hex(kv.K[1:], 40), c08Hex(v, 40), c08Hex(it.Key(), 40), c08Hex(lv, 40))
		}
	}
	if it.Next() {
		return fmt.Sprintf("live node has more frontier keys than the image (%d)", n)
	}
	return ""
}

// buildCompeting starts a producer Q on a copy of the "before" image, lets it
// make a branch that is longer than anything the operation produced, and
// computes the reference: the logical key space of a never-crashed node (the
// "before" image) that adopts the branch.
func (c *c08State) buildCompeting(p *simnode.Node, img *simdisk.Image, finalJournal []byte, name string) ([]*nom.DetailedMomentum, []simdisk.KV) {
	r, t := c.r, c.r.T
	qd := c.dir("q")
	defer os.RemoveAll(qd)
	if err := img.Materialise(qd, img.Journal); err != nil {
		return nil, nil
	}
	q := simnode.NewOnDir(r, "Q", simnode.Config{Genesis: c.w.Gen, PillarKeys: nomsim.MockPillars()}, qd)
	if err := q.Open(); err != nil {
		r.Logf("competing branch: producer does not open: %v", err)
		r.Skip("competing-branch-unavailable")
		return nil, nil
	}
	base := q.Height()
	want := 1 + t.Choose(2)
	if p.Height() > base {
		want += int(p.Height() - base)
	}
	c.w.SkipSlots(1) // never the slot of the live node's own momentum: the branch must differ
	for i := 0; i < want+3 && int(q.Height()-base) < want; i++ {
		if t.Bool() {
			c.wl.Op(q)
		}
		c.step(q)
	}
	batch := q.Batch(base+1, q.Height())
	q.Stop()
	if len(batch) < want {
		r.Skip("competing-branch-unavailable")
		return nil, nil
	}
	// reference: the never-crashed node — it completed the operation — adopts the branch
	ref, err := c.continueOn(img, finalJournal, func(n *simnode.Node) error {
		_, err := n.Bridge.InsertChain(batch)
		return err
	})
	if err != nil {
		r.Logf("competing branch of %d momentums refused by the never-crashed node: %v", len(batch), errStrC08(err))
		r.Skip("competing-branch-refused-by-never-crashed-node")
		return nil, nil
	}
	r.Logf("op %s: competing branch %d..%d (%s), reference %s", name, base+1, base+uint64(len(batch)), batch[len(batch)-1].Momentum.Hash.String()[:8], c08Digest(ref))
	r.Probe("competing-branch-built")
	return batch, ref
}

type c08OpenErr struct{ what string }

func (e *c08OpenErr) Error() string { return e.what }

// continueOn opens a crash state through the node's real start path, applies
// cont, stops the node and returns the logical key space left on disk.
func (c *c08State) continueOn(img *simdisk.Image, journal []byte, cont func(n *simnode.Node) error) (logical []simdisk.KV, err error) {
	d := c.dir("n")
	defer os.RemoveAll(d)
	if err := img.Materialise(d, journal); err != nil {
		return nil, err
	}
	n := simnode.NewOnDir(c.r, "X", c.follow, d)
	func() {
		defer func() {
			if p := recover(); p != nil {
				err = &c08OpenErr{fmt.Sprintf("start panics: %v\n%s", p, c08Stack())}
			}
		}()
		if e := n.Open(); e != nil {
			err = &c08OpenErr{"start fails: " + e.Error()}
		}
	}()
	if err != nil {
		return nil, err
	}
	func() {
		defer func() {
			if p := recover(); p != nil {
				err = fmt.Errorf("panic: %v\n%s", p, c08Stack())
			}
		}()
		err = cont(n)
	}()
	func() {
		defer func() { recover() }()
		n.Stop()
	}()
	if err != nil {
		return nil, err
	}
	raw, e := simdisk.RawDump(d)
	if e != nil {
		return nil, e
	}
	return c08Logical(raw), nil
}

// c08Stack: the first repository frames of the current stack as file:line only
// (no argument values or addresses: the text goes into the event log).
func c08Stack() string {
	lines := strings.Split(string(debug.Stack()), "\n")
	var keep []string
	for _, l := range lines {
		l = strings.TrimSpace(l)
		if !strings.HasPrefix(l, "/") || !strings.Contains(l, ".go:") {
			continue
		}
		if !(strings.Contains(l, "/go-zenon") || strings.Contains(l, "/repo/") || strings.Contains(l, "goleveldb") || strings.Contains(l, "/drill")) {
			continue
		}
		if i := strings.Index(l, " "); i >= 0 {
			l = l[:i]
		}
		// keep the path from the repository root on, so the text is the same for /repo and scratch copies
		for _, root := range []string{"/common/", "/chain/", "/vm/", "/protocol/", "/consensus/", "/verifier/", "/pillar/", "/goleveldb"} {
			if j := strings.Index(l, root); j >= 0 {
				l = l[j+1:]
				break
			}
		}
		keep = append(keep, l)
		if len(keep) >= 8 {
			break
		}
	}
	return strings.Join(keep, "\n")
}

// enumerateUnit checks every crash state of one Add/Pop. Returns the raw
// "after" dump (nil when the unit had to be skipped).
func (c *c08State) enumerateUnit(name string, img *simdisk.Image, u *c08Unit, ui, nUnits int, rawBefore []simdisk.KV, logicalFinal []simdisk.KV, withStart bool,
	redo func(n *simnode.Node) error, competing []*nom.DetailedMomentum, logicalCompeting []simdisk.KV) []simdisk.KV {
	r, t := c.r, c.r.T
	recsB, restB, whyB := simdisk.Parse(u.before)
	recs, rest, why := simdisk.Parse(u.after)
	if restB != len(u.before) || rest != len(u.after) {
		r.Logf("op %s unit %d: live journal does not parse cleanly (%s / %s)", name, ui, whyB, why)
		r.Skip("journal-unparsed")
		return nil
	}
	n0 := len(recsB)
	if len(recs) < n0 || (n0 > 0 && recs[n0-1].End != recsB[n0-1].End) {
		r.Skip("journal-unparsed")
		return nil
	}
	news := recs[n0:]
	n := len(news)
	if n == 0 {
		r.Skip("operation-wrote-nothing")
		return rawBefore
	}
	if u.kind == "commit" {
		r.Probe("commit-sampled")
	} else {
		r.Probe("rollback-sampled")
	}
	r.Probes["records-per-op"] += n
	entries := 0
	for i := range news {
		entries += news[i].Entries()
		if news[i].Chunks > 1 {
			r.Probe("multi-chunk-records") // record larger than what is left of a 32 KiB block: FIRST/MIDDLE/LAST
		}
	}
	rawAfter, err := c.rawOf(img, u.after)
	if err != nil {
		r.Skip("image-disagrees-with-live-node")
		return nil
	}
	fpKey := []byte{c08Frontier, 0x00}
	fpB, _ := c08Get(rawBefore, fpKey)
	fpA, _ := c08Get(rawAfter, fpKey)
	r.Logf("op %s unit %d/%d %s height %d: %d journal records (%d key operations, %d bytes), keys %d -> %d, before %s after %s",
		name, ui, nUnits, u.kind, u.height, n, entries, len(u.after)-len(u.before), len(rawBefore), len(rawAfter), c08Digest(rawBefore), c08Digest(rawAfter))
	if bytes.Equal(fpB, fpA) {
		// an Add or Pop that does not move the frontier pointer is not a commit/rollback
		c.violation(u.kind, "frontier-not-moved", "op %s unit %d: frontier pointer is %s before and after", name, ui, c08Hex(fpA, 90))
	}
	c.undoRedo(name, u, rawBefore, rawAfter)

	// (1) every record boundary, (2) one torn offset inside every record
	cut := func(k int) int { // journal length of crash state k
		if k == 0 {
			return len(u.before)
		}
		return news[k-1].End
	}
	// model cross-check: what goleveldb recovers from the journal cut at boundary k
	// must be what it recovered at boundary k-1 plus the key operations this
	// package's own parser decodes from record k (parser, boundaries and the
	// "one write = one record" premise are thereby tested against goleveldb)
	model := func(k int, prev, got []simdisk.KV) {
		if prev == nil {
			return // the previous boundary did not open (reported); nothing to build on
		}
		ops, err := news[k-1].Ops()
		if err != nil {
			r.Fail("model", "record-undecodable", "op %s unit %d: journal record %d of %d: %v", name, ui, k, n, err)
		}
		if want := c08ApplyRaw(prev, ops); !simdisk.Equal(want, got) {
			r.Fail("model", "journal-prefix-mismatch", "op %s unit %d: goleveldb recovers at record boundary %d of %d a key space that differs on %d keys from boundary %d plus the %d decoded operations of record %d",
				name, ui, k, n, len(simdisk.DiffKeys(want, got)), k-1, len(ops), k)
		}
	}
	prevRaw := rawBefore
	var tornKs []int
	flipAt := 0 // first write after which the frontier pointer is the new one
	var exRaw []simdisk.KV
	exK, exFlipped := 0, false
	for k := 1; k <= n; k++ {
		// torn write of record k: journal ends strictly inside it
		lo, hi := cut(k-1), cut(k)
		tornAt := lo + 1 + t.Choose(hi-lo-1)
		rawT, err := c.rawOfRO(img, u.after[:tornAt])
		r.Probe("torn-offsets")
		switch {
		case err != nil:
			c.violation(u.kind, "torn-write-unrecoverable", "op %s unit %d (%s height %d): journal cut at byte %d, inside record %d of %d [%d,%d): goleveldb does not open: %v", name, ui, u.kind, u.height, tornAt, k, n, lo, hi, err)
		case prevRaw != nil && !simdisk.Equal(rawT, prevRaw):
			if simdisk.Equal(rawT, rawBefore) || simdisk.Equal(rawT, rawAfter) {
				r.Probe("torn-offset-recovered-to-other-legal-state")
			} else {
				c.violation(u.kind, "torn-write-state", "op %s unit %d (%s height %d): journal cut at byte %d inside record %d of %d recovers to a state that is neither the previous record boundary nor before/after (%d keys differ from boundary %d)",
					name, ui, u.kind, u.height, tornAt, k, n, len(simdisk.DiffKeys(rawT, prevRaw)), k-1)
			}
		}
		if k == n {
			model(k, prevRaw, rawAfter)
			break
		}
		rawK, err := c.rawOfRO(img, u.after[:cut(k)])
		r.Probe("crash-states-enumerated")
		if err != nil {
			c.violation(u.kind, "unrecoverable", "op %s unit %d: crash state %d of %d does not open with goleveldb: %v", name, ui, k, n, err)
			prevRaw = nil
			continue
		}
		model(k, prevRaw, rawK)
		fpK, _ := c08Get(rawK, fpKey)
		flipped := bytes.Equal(fpK, fpA) && !bytes.Equal(fpA, fpB)
		if flipped && flipAt == 0 {
			flipAt = k
		}
		if !simdisk.Equal(rawK, rawBefore) && !simdisk.Equal(rawK, rawAfter) {
			tornKs = append(tornKs, k)
			// example: prefer a state whose frontier pointer already moved while keys are missing
			if exRaw == nil || (flipped && !exFlipped) {
				exRaw, exK, exFlipped = rawK, k, flipped
			}
		}
		prevRaw = rawK
	}
	if len(tornKs) > 0 {
		flip := "with the last write"
		if flipAt > 0 {
			flip = fmt.Sprintf("at write %d", flipAt)
		}
		c.violation(u.kind, "torn-state", "%d of the %d interior crash states are torn (first write %d, last write %d; the frontier pointer moves %s). Example: %s",
			len(tornKs), n-1, tornKs[0], tornKs[len(tornKs)-1], flip, c.tornDetail(name, u, ui, exK, n, news, exRaw, rawBefore, rawAfter))
	}
	r.Probes["crash-states-enumerated"] += 2 // k=0 and k=n were recovered as rawBefore / rawAfter
	c.fullEnum++                             // n>=2: every interior boundary visited; n==1: the torn offset inside the single record was tried
	c.history = append(c.history, fmt.Sprintf("%s:%d", u.kind, n))

	// (3) real start path + continuation on a subset
	if !withStart {
		return rawAfter
	}
	type pick struct {
		label string
		cutAt int
		torn  bool // the image itself is already neither before nor after
	}
	isTorn := map[int]bool{}
	for _, k := range tornKs {
		isTorn[k] = true
	}
	picks := []pick{{fmt.Sprintf("k=%d/%d", n, n), cut(n), false}}
	if ui == 1 {
		picks = append(picks, pick{fmt.Sprintf("k=0/%d", n), cut(0), false})
	}
	if n >= 2 {
		seen := map[int]bool{}
		for i := 0; i < 2 && i < n-1; i++ {
			k := 1 + t.Choose(n-1)
			if seen[k] {
				continue
			}
			seen[k] = true
			picks = append(picks, pick{fmt.Sprintf("k=%d/%d", k, n), cut(k), isTorn[k]})
		}
	} else {
		lo, hi := cut(0), cut(1)
		picks = append(picks, pick{"torn-write-in-1/1", lo + 1 + t.Choose(hi-lo-1), false})
	}
	for _, pk := range picks {
		if redo != nil {
			r.Probe("continuation-checked")
			got, err := c.continueOn(img, u.after[:pk.cutAt], redo)
			c.judgeContinuation(name, u, ui, pk.label, pk.torn, "redelivered", got, err, logicalFinal)
		} else {
			// still exercise the real start path
			r.Probe("reopen-only-checked")
			_, err := c.continueOn(img, u.after[:pk.cutAt], func(*simnode.Node) error { return nil })
			if oe, ok := err.(*c08OpenErr); ok {
				c.judgeContinuation(name, u, ui, pk.label, pk.torn, "", nil, oe, nil)
			}
		}
		if competing != nil {
			r.Probe("continuation-competing-checked")
			got, err := c.continueOn(img, u.after[:pk.cutAt], func(n *simnode.Node) error {
				_, err := n.Bridge.InsertChain(competing)
				return err
			})
			c.judgeContinuation(name, u, ui, pk.label, pk.torn, "competing", got, err, logicalCompeting)
		}
	}
	return rawAfter
}

// judgeContinuation: signatures of images that are themselves torn carry the
// prefix "torn-" — they are consequences of the torn state. The unprefixed
// signatures (a crash image that IS exactly before/after fails to start or to
// continue) are a different defect and must never be masked by the former.
func (c *c08State) judgeContinuation(name string, u *c08Unit, ui int, label string, torn bool, how string, got []simdisk.KV, err error, want []simdisk.KV) {
	r := c.r
	pre := ""
	if torn {
		pre = "torn-"
		label += " (a torn state)"
	}
	if err != nil {
		if oe, ok := err.(*c08OpenErr); ok {
			if !torn && strings.Contains(oe.what, "unmarshalling empty output") {
				// the image IS exactly the state before/after, i.e. the directory of a
				// node that never crashed; it does not start because a rolled-back
				// creation left an empty-valued key which chain.Init's spork scan cannot
				// parse. A rollback-exactness defect (not crash atomicity), kept under
				// its own signature so it can never hide a real restart failure.
				c.violation(u.kind, "reopen-fails-empty-list-entry", "op %s unit %d (%s height %d) crash state %s (exactly the state before/after): node %s", name, ui, u.kind, u.height, label, oe.what)
				return
			}
			c.violation(u.kind, pre+"reopen-fails", "op %s unit %d (%s height %d) crash state %s: node %s", name, ui, u.kind, u.height, label, oe.what)
			return
		}
		c.violation(u.kind, pre+"continuation-fails", "op %s unit %d (%s height %d) crash state %s: after restart the %s operation fails: %v", name, ui, u.kind, u.height, label, how, errStrC08(err))
		return
	}
	if !simdisk.Equal(got, want) {
		diff := simdisk.DiffKeys(got, want)
		ex := ""
		for i, k := range diff {
			if i >= 4 {
				break
			}
			a, _ := c08Get(got, k)
			b, _ := c08Get(want, k)
			ex += fmt.Sprintf("\n  key %s: crashed+continued %s, never-crashed %s", c08Hex(k, 60), c08Hex(a, 40), c08Hex(b, 40))
		}
		c.violation(u.kind, pre+"continuation-diverges", "op %s unit %d (%s height %d) crash state %s: restart + %s operation leaves %d keys different from the never-crashed node%s",
			name, ui, u.kind, u.height, label, how, len(diff), ex)
		return
	}
	r.Logf("op %s unit %d crash state %s: restart + %s ok (%s)", name, ui, label, how, c08Digest(got))
}

func (c *c08State) tornDetail(name string, u *c08Unit, ui, k, n int, news []simdisk.Record, rawK, rawBefore, rawAfter []simdisk.KV) string {
	fpKey := []byte{c08Frontier, 0x00}
	fpK, _ := c08Get(rawK, fpKey)
	fpB, _ := c08Get(rawBefore, fpKey)
	fpA, _ := c08Get(rawAfter, fpKey)
	fp := "neither"
	switch {
	case bytes.Equal(fpK, fpB):
		fp = "still the old one"
	case bytes.Equal(fpK, fpA):
		fp = "already the new one"
	}
	dB := simdisk.DiffKeys(rawK, rawBefore)
	dA := simdisk.DiffKeys(rawK, rawAfter)
	_, hasPatch := c08Get(rawK, c08HeightKey(c08Patch, u.height))
	_, hasUndo := c08Get(rawK, c08HeightKey(c08Undo, u.height))
	s := fmt.Sprintf("op %s unit %d (%s of momentum %d): process death after write %d of %d leaves a store that is neither the state before (%d keys differ) nor after (%d keys differ); frontier pointer %s; redo entry for height %d present=%v, undo entry present=%v",
		name, ui, u.kind, u.height, k, n, len(dB), len(dA), fp, u.height, hasPatch, hasUndo)
	s += fmt.Sprintf("\n  write %d: %s\n  write %d (not reached): %s", k, c.describeRecord(&news[k-1]), k+1, c.describeRecord(&news[k]))
	for i, key := range dA {
		if i >= 3 {
			break
		}
		a, okA := c08Get(rawK, key)
		b, okB := c08Get(rawAfter, key)
		s += fmt.Sprintf("\n  vs after: key %s crash=%s after=%s", c08Hex(key, 60), c08Val(a, okA), c08Val(b, okB))
	}
	for i, key := range dB {
		if i >= 3 {
			break
		}
		a, okA := c08Get(rawK, key)
		b, okB := c08Get(rawBefore, key)
		s += fmt.Sprintf("\n  vs before: key %s crash=%s before=%s", c08Hex(key, 60), c08Val(a, okA), c08Val(b, okB))
	}
	return s
}

func c08Val(v []byte, ok bool) string {
	if !ok {
		return "<absent>"
	}
	return "[" + c08Hex(v, 32) + "]"
}

// undoRedo: the stored redo entry turns "before" into "after", the stored undo
// entry turns "after" into "before", and they exist exactly for the frontier.
func (c *c08State) undoRedo(name string, u *c08Unit, rawBefore, rawAfter []simdisk.KV) {
	holder, other := rawAfter, rawBefore // state that holds the entries of u.height
	if u.kind == "rollback" {
		holder, other = rawBefore, rawAfter
	}
	pk, uk := c08HeightKey(c08Patch, u.height), c08HeightKey(c08Undo, u.height)
	redo, ok1 := c08Get(holder, pk)
	undo, ok2 := c08Get(holder, uk)
	_, ok3 := c08Get(other, pk)
	_, ok4 := c08Get(other, uk)
	if !ok1 || !ok2 || ok3 || ok4 {
		c.violation(u.kind, "undo-redo-entries", "op %s %s of height %d: redo/undo entries present with=%v/%v without=%v/%v (want true/true false/false)", name, u.kind, u.height, ok1, ok2, ok3, ok4)
		return
	}
	ro, err1 := c08DecodeBatch(redo)
	uo, err2 := c08DecodeBatch(undo)
	if err1 != nil || err2 != nil {
		c.violation(u.kind, "undo-redo-entries", "op %s %s of height %d: stored patch undecodable: %v %v", name, u.kind, u.height, err1, err2)
		return
	}
	lo, hi := c08FrontierSpace(other), c08FrontierSpace(holder)
	if got := c08Apply(other, ro); !simdisk.Equal(got, hi) {
		c.violation(u.kind, "redo-mismatch", "op %s %s of height %d: stored redo patch applied to the state without the momentum differs from the state with it on %d keys", name, u.kind, u.height, len(simdisk.DiffKeys(got, hi)))
	}
	if got := c08Apply(holder, uo); !simdisk.Equal(got, lo) {
		d := simdisk.DiffKeys(got, lo)
		c.violation(u.kind, "undo-mismatch", "op %s %s of height %d: stored undo patch applied to the state with the momentum differs from the state without it on %d keys (first %s)", name, u.kind, u.height, len(d), c08Hex(d[0], 60))
	}
	c.r.Probe("undo-redo-checked")
}

func errStrC08(err error) string {
	if err == nil {
		return "nil"
	}
	s := err.Error()
	if len(s) > 300 {
		s = s[:300]
	}
	return s
}

func runC08(r *simrt.Run) {
	r.WatchLocks() // a lock of the node that is never released is a violation, not a hang
	t := r.T
	mode := nomsim.SporkMode(t.Choose(3))
	w := nomsim.NewWorld(r, nomsim.MockGenesis(mode))
	w.EnforceReceiverRule(0)
	w.Net.Gossip = false
	if t.Choose(3) != 0 {
		// short epochs: reward/epoch updates make some momentums' patches large
		w.SetEpochDuration(time.Duration(300*(2+t.Choose(3))) * time.Second)
		w.ShortRewardKnobs(int64(10*t.Choose(6)), uint64(1+t.Choose(10)))
	}
	p := w.AddNode("P", nomsim.MockPillars(), false)
	wl := nomsim.NewWorkload(w, mode)
	wl.MaxOps = 1 + t.Choose(8)
	c := &c08State{r: r, w: w, p: p, scratch: r.TempDir(), wl: wl, ring: map[uint64]*simdisk.Image{},
		follow: simnode.Config{Genesis: w.Gen}}
	c.rec = c08Attach(p)

	slots := 8 + t.Choose(14)
	if r.Tier == "thorough" {
		slots = 20 + t.Choose(60)
	}
	commits, rollbacks := 0, 0

	// (a) the producer's own momentum insert, on the live producer
	sampledCommit := func() {
		var det *nom.DetailedMomentum
		c.sampleOp(p, c.rec, "commit-own", func() error {
			if !c.step(p) {
				return fmt.Errorf("no momentum produced")
			}
			det = p.Detailed(p.Height())
			return p.LastOwnMomentumErr
		}, func(n *simnode.Node) error {
			if det == nil {
				return nil
			}
			_, err := n.Bridge.InsertChain([]*nom.DetailedMomentum{det})
			return err
		}, t.Choose(3) == 1)
		commits++
	}
	depthLimit := func() int {
		lim := int(p.Height() - 1)
		if lim > c08MaxDepth {
			lim = c08MaxDepth
		}
		return lim
	}
	// (b) chain.RollbackTo of 1..10 momentums through AcquireInsert
	directRollback := func() {
		lim := depthLimit()
		if lim < 1 {
			return
		}
		d := 1 + t.Choose(lim)
		x, rec := c.clone("X")
		if x == nil {
			return
		}
		defer c.discard(x)
		h := x.Height()
		target, err := x.Bridge.GetBlockByNumber(h - uint64(d))
		if err != nil || target == nil {
			r.Fail("harness", "no-target", "momentum %d not readable: %v", h-uint64(d), err)
		}
		id := target.Identifier()
		roll := func(n *simnode.Node) error {
			ins := n.Chain.AcquireInsert("c08 rollback")
			defer ins.Unlock()
			return n.Chain.RollbackTo(ins, id)
		}
		c.sampleOp(x, rec, fmt.Sprintf("rollback-%d", d), func() error { return roll(x) }, roll, false)
		rollbacks++
	}
	// (c) ChainBridge.InsertChain of a longer competing branch: a second producer
	// started on P's directory as it was d momentums ago builds the branch
	reorg := func() {
		lim := depthLimit()
		d := 0
		if lim > 0 {
			d = t.Choose(lim + 1)
		}
		h := p.Height()
		for d > 0 && c.ring[h-uint64(d)] == nil {
			d--
		}
		var from *simdisk.Image
		if d == 0 {
			c.ringSnap()
		}
		from = c.ring[h-uint64(d)]
		if from == nil {
			r.Skip("file-set-changed")
			return
		}
		qd := c.dir("q")
		defer os.RemoveAll(qd)
		if err := from.Materialise(qd, from.Journal); err != nil {
			r.Fail("harness", "q-copy", "%v", err)
		}
		q := simnode.NewOnDir(r, "Q", simnode.Config{Genesis: w.Gen, PillarKeys: nomsim.MockPillars()}, qd)
		if err := q.Open(); err != nil {
			r.Fail("harness", "q-open", "image of the live directory at height %d does not open: %v", h-uint64(d), err)
		}
		base := q.Height()
		want := d + 1 + t.Choose(3)
		w.SkipSlots(1)
		for i := 0; i < want+3 && int(q.Height()-base) < want; i++ {
			t.Loop(1, 2, 3, func() { wl.Op(q) })
			c.step(q)
		}
		batch := q.Batch(base+1, q.Height())
		q.Stop()
		if len(batch) <= d {
			r.Skip("competing-branch-unavailable")
			return
		}
		x, rec := c.clone("X")
		if x == nil {
			return
		}
		defer c.discard(x)
		ins := func(n *simnode.Node) error {
			_, err := n.Bridge.InsertChain(batch)
			return err
		}
		c.sampleOp(x, rec, fmt.Sprintf("reorg-d%d-l%d", d, len(batch)), func() error { return ins(x) }, ins, false)
		rollbacks++
	}

	// one run in three confirms blocks with 6-16 KiB of data, so that single commits and rollbacks
	// move several hundred KiB (one write must stay one write whatever its size)
	wl.G.BigData = t.Choose(3) == 0
	if wl.G.BigData {
		r.Probe("knob-big-data")
	}
	for s := 0; s < slots; s++ {
		t.Span(func() {
			wl.G.RefreshTokens(p)
			wl.Ops(p)
			if wl.G.BigData {
				t.Loop(4, 5, 8, func() { wl.G.Transfer(p) })
			}
			switch t.Pick([]int{6, 4, 2, 2, 1}) {
			case 0:
				c.step(p)
			case 1:
				sampledCommit()
			case 2:
				directRollback()
				c.step(p)
			case 3:
				reorg()
				c.step(p)
			case 4:
				r.Fault("restart")
				r.Logf("restart P (journal is replayed into a table file; the next sample starts on an empty journal)")
				if err := p.Restart(false); err != nil {
					r.Fail("restart", "open", "%v", err)
				}
				c.rec = c08Attach(p)
				c.step(p)
			}
			c.ringSnap()
		})
	}
	if commits == 0 {
		t.Span(func() {
			wl.Ops(p)
			sampledCommit()
		})
	}
	if rollbacks == 0 && p.Height() >= 2 {
		t.Span(directRollback)
	}

	r.NonTrivial = c.fullEnum > 0
	h := sha256.New()
	for _, s := range c.history {
		h.Write([]byte(s + ";"))
	}
	h.Write(p.Frontier().Hash.Bytes())
	r.Finger = hex.EncodeToString(h.Sum(nil)[:10])
	r.Sample["height"] = p.Height()
	r.Sample["spork_mode"] = int(mode)
	if len(c.history) > 24 {
		r.Sample["units"] = append(append([]string{}, c.history[:24]...), fmt.Sprintf("…+%d", len(c.history)-24))
	} else {
		r.Sample["units"] = c.history
	}
	r.Sample["crash_states"] = r.Probes["crash-states-enumerated"] + r.Probes["torn-offsets"]
}
