package checks

// C18 phase A, ledger API: every LedgerApi query against ground truth.

import (
	"fmt"
	"math"
	"math/big"
	"sort"
	"strings"

	"github.com/zenon-network/go-zenon/chain/nom"
	"github.com/zenon-network/go-zenon/common/types"
	"github.com/zenon-network/go-zenon/rpc/api"
)

// c18Range is a by-height list query: elements height .. height+count-1 of a
// 1-based sequence, ascending.
type c18Range struct {
	API   string
	Class string
	Limit uint64
	Truth []c18Elem
	Total int64
	Call  func(height, count uint64) ([]c18Elem, int64, error)
}

func (c *c18) rng(l *c18Range, height, count uint64) {
	r := c.r
	r.Probe("api." + l.API)
	c.boundaryUsed(height, count)
	var (
		items []c18Elem
		total int64
		err   error
	)
	n := uint64(len(l.Truth))
	lo, hi := c18RangeWindow(height, count, n)
	want := l.Truth[lo:hi]
	if p := c18Safe(func() { items, total, err = l.Call(height, count) }); p != nil {
		c.note("%s(height=%d,count=%d) PANIC %v", l.API, height, count, p.v)
		if height == 0 || count > l.Limit || (len(want) == 0 && height > 1) {
			r.Probe("handler-panic-on-out-of-range-params." + l.API) // see page()
			return
		}
		r.Report("api-panic", l.Class, "%s(height=%d, count=%d) panicked: %v at %s", l.API, height, count, p.v, c18Short(p.stack))
		return
	}
	if err != nil {
		c.note("%s(height=%d,count=%d) n=%d -> error %v", l.API, height, count, n, err)
		if height == 0 || count > l.Limit {
			// the documented refusals
		} else if len(want) == 0 && height > 1 {
			r.Probe("error-for-height-beyond-end." + l.API) // not wrong data; tolerated
		} else {
			c.refused("range", l.Class, c18Odd(want), "%s(height=%d, count=%d) over %d elements returned error %q although height>0 and count<=%d", l.API, height, count, n, err, l.Limit)
		}
		return
	}
	c.note("%s(height=%d,count=%d) n=%d -> %d items total %d", l.API, height, count, n, len(items), total)
	c.compared++
	if count > l.Limit {
		r.Probe("over-limit-accepted." + l.API)
	}
	if uint64(len(items)) > l.Limit {
		r.Report("bounded", "more-than-limit/"+l.Class, "%s(height=%d, count=%d) returned %d elements, advertised limit %d", l.API, height, count, len(items), l.Limit)
		return
	}
	if len(items) != len(want) {
		if len(want) == 0 {
			r.Report("range", "out-of-range-returns-data/"+l.Class, "%s(height=%d, count=%d): the sequence has %d elements, nothing exists at heights >= %d, but %d elements were returned (first: %s)", l.API, height, count, n, height, len(items), items[0].Val)
		} else {
			r.Report("range", "wrong-range-length/"+l.Class, "%s(height=%d, count=%d): sequence of %d elements, expected %d elements (heights %d..%d), got %d", l.API, height, count, n, len(want), lo+1, hi, len(items))
		}
		return
	}
	for i := range want {
		if items[i].Val != want[i].Val {
			r.Report("range", "wrong-range-content/"+l.Class, "%s(height=%d, count=%d): element %d: got %s want %s", l.API, height, count, i, items[i].Val, want[i].Val)
			return
		}
	}
	if l.Total >= 0 && total != l.Total {
		r.Report("range", "wrong-total/"+l.Class, "%s(height=%d, count=%d): count field %d, the sequence has %d elements", l.API, height, count, total, l.Total)
	}
}

func c18BlockElem(b *nom.AccountBlock) c18Elem {
	return c18Elem{ID: b.Hash.String(), Key: fmt.Sprint(b.Height), Val: fmt.Sprintf("%s#%d t%d>%s %s %s", b.Address.String()[:10], b.Height, b.BlockType, b.ToAddress.String()[:10], b.Hash.String()[:12], c18Ser(b))}
}

func (c *c18) blockElems(bs []*nom.AccountBlock, ordered bool) []c18Elem {
	out := make([]c18Elem, 0, len(bs))
	for _, b := range bs {
		e := c18BlockElem(b)
		e.Odd = c.tr.odd(b)
		if !ordered {
			e.Key = ""
		}
		out = append(out, e)
	}
	return out
}

// apiBlockElems converts API blocks; every block is judged in depth against the
// truth block with the same hash and a mismatch becomes part of the value.
func (c *c18) apiBlockElems(bs []*api.AccountBlock, ordered bool) []c18Elem {
	out := make([]c18Elem, 0, len(bs))
	for _, ab := range bs {
		if ab == nil {
			out = append(out, c18Elem{ID: "nil", Val: "nil"})
			continue
		}
		e := c18BlockElem(&ab.AccountBlock)
		if !ordered {
			e.Key = ""
		}
		if want := c.tr.blockBy[ab.Hash]; want != nil {
			if s := c.tr.judgeBlock(ab, want, true); s != "" {
				e.Val += " !! " + s
			}
		} else {
			e.Val += " !! not in the ledger"
		}
		out = append(out, e)
	}
	return out
}

func c18MomElem(m *nom.Momentum) c18Elem {
	return c18Elem{ID: m.Hash.String(), Key: fmt.Sprint(m.Height), Val: fmt.Sprintf("m%d %s %s", m.Height, m.Hash.String()[:12], c18SerMom(m))}
}

func (c *c18) apiMomElems(ms []*api.Momentum) []c18Elem {
	out := make([]c18Elem, 0, len(ms))
	for _, m := range ms {
		if m == nil || m.Momentum == nil {
			out = append(out, c18Elem{ID: "nil", Val: "nil"})
			continue
		}
		e := c18MomElem(m.Momentum)
		if want := c.tr.momBy[m.Hash]; want != nil {
			if s := c.tr.judgeMomentum(m, want); s != "" {
				e.Val += " !! " + s
			}
		} else {
			e.Val += " !! not in the ledger"
		}
		out = append(out, e)
	}
	return out
}

func c18Reverse(in []c18Elem) []c18Elem {
	out := make([]c18Elem, len(in))
	for i, e := range in {
		out[len(in)-1-i] = e
	}
	return out
}

func (c *c18) report(clause, disc, format string, a ...any) {
	c.r.Report(clause, disc, format, a...)
}

// single runs one non-list query under recover and counts it.
func (c *c18) single(apiName, class string, f func() string) {
	c.singleOdd(apiName, class, "", f)
}

// singleOdd: odd names unusual-but-valid ledger content the query touches; an
// error answer is then reported as query-refused|<odd>.
func (c *c18) singleOdd(apiName, class, odd string, f func() string) {
	c.r.Probe("api." + apiName)
	var bad string
	if p := c18Safe(func() { bad = f() }); p != nil {
		c.note("%s PANIC %v", apiName, p.v)
		c.report("api-panic", class, "%s panicked: %v at %s", apiName, p.v, c18Short(p.stack))
		return
	}
	c.compared++
	if bad != "" {
		c.note("%s -> MISMATCH", apiName)
		if odd != "" && strings.HasPrefix(bad, "error ") {
			c.refused("lookup", class, odd, "%s: %s", apiName, bad)
			return
		}
		c.report("lookup", class, "%s: %s", apiName, bad)
		return
	}
	c.note("%s ok", apiName)
}

func (c *c18) phaseLedger() {
	t, L, tr := c.r.T, c.apis.Ledger, c.tr
	N := len(tr.moms)

	// ---- momentums
	momAsc := make([]c18Elem, 0, N)
	for _, m := range tr.moms {
		momAsc = append(momAsc, c18MomElem(m))
	}
	momDesc := c18Reverse(momAsc)
	byHeight := &c18Range{API: "ledger.getMomentumsByHeight", Class: "momentums", Limit: api.RpcMaxCountSize, Truth: momAsc, Total: int64(N),
		Call: func(h, n uint64) ([]c18Elem, int64, error) {
			l, err := L.GetMomentumsByHeight(h, n)
			if err != nil || l == nil {
				return nil, 0, c18Err(err, l == nil)
			}
			return c.apiMomElems(l.List), int64(l.Count), nil
		}}
	byPage := &c18List{API: "ledger.getMomentumsByPage", Class: "momentums", Limit: api.RpcMaxPageSize, Truth: momDesc, Total: int64(N),
		Call: func(i, s uint32) ([]c18Elem, int64, error) {
			l, err := L.GetMomentumsByPage(i, s)
			if err != nil || l == nil {
				return nil, 0, c18Err(err, l == nil)
			}
			return c.apiMomElems(l.List), int64(l.Count), nil
		}}
	// detailed momentums: the value of an element includes its account blocks
	detAsc := make([]c18Elem, 0, N)
	for _, m := range tr.moms {
		e := c18MomElem(m)
		for _, hd := range m.Content {
			if b := tr.blockBy[hd.Hash]; b != nil {
				e.Val += " +" + c18BlockElem(b).Val
				if o := tr.odd(b); o != "" {
					e.Odd = o
				}
			} else {
				e.Val += " +missing:" + hd.Hash.String()
			}
		}
		detAsc = append(detAsc, e)
	}
	detailed := &c18Range{API: "ledger.getDetailedMomentumsByHeight", Class: "momentums", Limit: api.RpcMaxCountSize, Truth: detAsc, Total: int64(N),
		Call: func(h, n uint64) ([]c18Elem, int64, error) {
			l, err := L.GetDetailedMomentumsByHeight(h, n)
			if err != nil || l == nil {
				return nil, 0, c18Err(err, l == nil)
			}
			ms := make([]*api.Momentum, len(l.List))
			for i, d := range l.List {
				if d != nil {
					ms[i] = d.Momentum
				}
			}
			out := c.apiMomElems(ms)
			for i, d := range l.List {
				if d == nil {
					continue
				}
				for _, e := range c.apiBlockElems(d.AccountBlocks, true) {
					out[i].Val += " +" + e.Val
				}
			}
			return out, int64(l.Count), nil
		}}

	t.Span(func() {
		c.single("ledger.getFrontierMomentum", "momentum", func() string {
			m, err := L.GetFrontierMomentum()
			if err != nil {
				return "error " + err.Error()
			}
			return tr.judgeMomentum(m, tr.frontier)
		})
	})
	for i := 0; i < 2; i++ {
		t.Span(func() {
			want := tr.moms[t.Choose(N)]
			h := want.Hash
			unknown := t.Choose(3) == 2
			if unknown {
				h = c.randomHash()
			}
			c.single("ledger.getMomentumByHash", "momentum", func() string {
				m, err := L.GetMomentumByHash(h)
				if unknown {
					if m != nil && err == nil {
						return fmt.Sprintf("unknown hash %v answered with momentum %v", h, m.Hash)
					}
					return ""
				}
				if err != nil {
					return "error " + err.Error()
				}
				return tr.judgeMomentum(m, want)
			})
		})
	}
	for i := 0; i < 3; i++ {
		t.Span(func() { c.momentumBeforeTime() })
	}
	for i, k := 0, 3+t.Choose(3); i < k; i++ {
		t.Span(func() { h, n := c.heightCount(N); c.rng(byHeight, h, n) })
		t.Span(func() { i, s := c.pagePair(N, byPage.Limit); c.page(byPage, i, s) })
	}
	if N > api.RpcMaxPageSize {
		// more momentums than one page may hold: ask for exactly the limit and one more
		t.Span(func() { c.rng(byHeight, uint64(1+t.Choose(3)), api.RpcMaxCountSize+uint64(t.Choose(2))) })
		t.Span(func() { c.page(byPage, 0, api.RpcMaxPageSize+uint32(t.Choose(2))) })
	}
	t.Span(func() { c.sweep(byPage, uint32(1+t.Choose(40))) })
	for i := 0; i < 2; i++ {
		t.Span(func() {
			h, n := c.heightCount(N)
			if n > 64 && n <= 1024 && h <= uint64(N) && t.Choose(4) != 0 {
				n = 1 + n%64 // keep most detailed queries small (they are expensive)
			}
			c.rng(detailed, h, n)
		})
	}

	// ---- per-address queries
	bestChain, bestPool, bestUnrecv := types.ZeroAddress, types.ZeroAddress, types.ZeroAddress
	unrecv := map[types.Address][]*nom.AccountBlock{}
	for _, a := range tr.accounts {
		if len(tr.chain[a]) > len(tr.chain[bestChain]) {
			bestChain = a
		}
		if len(tr.chain[a])-tr.confirmed[a] > len(tr.chain[bestPool])-tr.confirmed[bestPool] {
			bestPool = a
		}
	}
	cands := append([]types.Address{}, tr.accounts...)
	for _, u := range c.w.Users {
		cands = append(cands, u.Address)
	}
	for _, a := range cands {
		if _, ok := unrecv[a]; !ok {
			unrecv[a] = tr.unreceived(a)
			if len(unrecv[a]) > len(unrecv[bestUnrecv]) {
				bestUnrecv = a
			}
		}
	}
	getUnrecv := func(a types.Address) []*nom.AccountBlock {
		if l, ok := unrecv[a]; ok {
			return l
		}
		return tr.unreceived(a)
	}
	c.r.Probes["unreceived-at-best-address"] += len(unrecv[bestUnrecv])
	c.r.Probes["pooled-at-best-address"] += len(tr.chain[bestPool]) - tr.confirmed[bestPool]

	for round := 0; round < 3; round++ {
		t.Span(func() {
			a := c.address([]types.Address{bestChain, bestPool, bestUnrecv}[round])
			chainAsc := c.blockElems(tr.chain[a], true)
			n := len(chainAsc)
			c.note("address %v: %d blocks, %d unconfirmed, %d unreceived", a, n, n-tr.confirmed[a], len(getUnrecv(a)))
			abByHeight := &c18Range{API: "ledger.getAccountBlocksByHeight", Class: "account-blocks", Limit: api.RpcMaxCountSize, Truth: chainAsc, Total: int64(n),
				Call: func(h, k uint64) ([]c18Elem, int64, error) {
					l, err := L.GetAccountBlocksByHeight(a, h, k)
					if err != nil || l == nil {
						return nil, 0, c18Err(err, l == nil)
					}
					return c.apiBlockElems(l.List, true), int64(l.Count), nil
				}}
			abByPage := &c18List{API: "ledger.getAccountBlocksByPage", Class: "account-blocks", Limit: api.RpcMaxPageSize, Truth: c18Reverse(chainAsc), Total: int64(n),
				Call: func(i, s uint32) ([]c18Elem, int64, error) {
					l, err := L.GetAccountBlocksByPage(a, i, s)
					if err != nil || l == nil {
						return nil, 0, c18Err(err, l == nil)
					}
					return c.apiBlockElems(l.List, true), int64(l.Count), nil
				}}
			pool := tr.chain[a][tr.confirmed[a]:]
			unconf := &c18List{API: "ledger.getUnconfirmedBlocksByAddress", Class: "list", Limit: api.RpcMaxPageSize, Truth: c.blockElems(pool, true), Total: int64(len(pool)),
				Call: func(i, s uint32) ([]c18Elem, int64, error) {
					l, err := L.GetUnconfirmedBlocksByAddress(a, i, s)
					if err != nil || l == nil {
						return nil, 0, c18Err(err, l == nil)
					}
					return c.apiBlockElems(l.List, true), int64(l.Count), nil
				}}
			ur := getUnrecv(a)
			urTotal := int64(len(ur))
			if len(ur) >= 500 {
				urTotal = -1 // the API documents a scan window of 500 entries ("more" flag)
			}
			unreceived := &c18List{API: "ledger.getUnreceivedBlocksByAddress", Class: "unreceived", Limit: 50, MaxIndex: 10, Truth: c.blockElems(ur, false), Total: urTotal, WholeListScope: true,
				Call: func(i, s uint32) ([]c18Elem, int64, error) {
					l, err := L.GetUnreceivedBlocksByAddress(a, i, s)
					if err != nil || l == nil {
						return nil, 0, c18Err(err, l == nil)
					}
					return c.apiBlockElems(l.List, false), int64(l.Count), nil
				}}

			t.Span(func() { c.accountInfo(a) })
			t.Span(func() {
				oddF := ""
				if n > 0 {
					oddF = tr.odd(tr.chain[a][n-1])
				}
				c.singleOdd("ledger.getFrontierAccountBlock", "account-block", oddF, func() string {
					b, err := L.GetFrontierAccountBlock(a)
					if err != nil {
						return "error " + err.Error()
					}
					if n == 0 {
						if b != nil {
							return fmt.Sprintf("address without blocks answered with %v", b.Hash)
						}
						return ""
					}
					return tr.judgeBlock(b, tr.chain[a][n-1], true)
				})
			})
			for i, k := 0, 2+t.Choose(3); i < k; i++ {
				t.Span(func() { h, k := c.heightCount(n); c.rng(abByHeight, h, k) })
				t.Span(func() { i, s := c.pagePair(n, abByPage.Limit); c.page(abByPage, i, s) })
				t.Span(func() { i, s := c.pagePair(len(pool), unconf.Limit); c.page(unconf, i, s) })
				t.Span(func() {
					i, s := c.pagePair(len(ur), 50)
					if t.Bool() { // mostly inside the advertised index/size limits
						i, s = i%12, s%53
					}
					c.page(unreceived, i, s)
				})
			}
			t.Span(func() { c.sweep(abByPage, uint32(1+t.Choose(12))) })
			t.Span(func() { c.sweep(unconf, uint32(1+t.Choose(4))) })
			t.Span(func() { c.sweep(unreceived, uint32(1+t.Choose(50))) })
		})
	}

	// ---- blocks by hash
	var allHashes []types.Hash
	for _, a := range tr.accounts {
		for _, b := range tr.chain[a] {
			allHashes = append(allHashes, b.Hash)
		}
	}
	for i := 0; i < 4; i++ {
		t.Span(func() {
			var h types.Hash
			kind := t.Choose(4)
			switch {
			case kind == 3 || len(allHashes) == 0:
				h = c.randomHash()
			case kind == 2 && tr.nPool > 0: // a pooled block
				for _, a := range tr.accounts {
					if len(tr.chain[a]) > tr.confirmed[a] {
						h = tr.chain[a][len(tr.chain[a])-1].Hash
					}
				}
			default:
				h = allHashes[t.Choose(len(allHashes))]
			}
			oddH := ""
			if b := tr.blockBy[h]; b != nil {
				oddH = tr.odd(b)
			}
			c.singleOdd("ledger.getAccountBlockByHash", "account-block", oddH, func() string {
				b, err := L.GetAccountBlockByHash(h)
				want := tr.blockBy[h]
				_, conf := tr.confAt[h]
				switch {
				case want == nil:
					if b != nil && err == nil {
						return fmt.Sprintf("unknown hash %v answered with block %v", h, b.Hash)
					}
					return ""
				case !conf: // pooled: not part of the chain yet; absent or exact
					if b == nil {
						return ""
					}
					return tr.judgeBlock(b, want, true)
				}
				if err != nil {
					return "error " + err.Error()
				}
				return tr.judgeBlock(b, want, true)
			})
		})
	}
}

func c18Err(err error, nilResult bool) error {
	if err != nil {
		return err
	}
	if nilResult {
		return fmt.Errorf("nil result without error")
	}
	return nil
}

func (c *c18) accountInfo(a types.Address) {
	tr := c.tr
	c.single("ledger.getAccountInfoByAddress", "account-info", func() string {
		info, err := c.apis.Ledger.GetAccountInfoByAddress(a)
		if err != nil {
			return "error " + err.Error()
		}
		if info == nil {
			return "nil result"
		}
		if info.Address != a || info.AccountHeight != uint64(len(tr.chain[a])) {
			return fmt.Sprintf("address %v height %d, ledger has %d blocks for %v", info.Address, info.AccountHeight, len(tr.chain[a]), a)
		}
		as := c.p.Chain.GetFrontierAccountStore(a)
		for _, tk := range tr.tokens {
			bal, err := as.GetBalance(tk.TokenStandard)
			if err != nil {
				return "store error " + err.Error()
			}
			if bal == nil {
				bal = new(big.Int)
			}
			got := new(big.Int)
			if bi := info.BalanceInfoMap[tk.TokenStandard]; bi != nil {
				if bi.Balance != nil {
					got = bi.Balance
				}
				if c18ApiToken(bi.TokenInfo) != c18Token(tk) {
					return fmt.Sprintf("token info for %v: got %s want %s", tk.TokenStandard, c18ApiToken(bi.TokenInfo), c18Token(tk))
				}
			}
			if got.Cmp(bal) != 0 {
				return fmt.Sprintf("balance of %v for %v: got %v, account store has %v", tk.TokenStandard, a, got, bal)
			}
		}
		var bogus []string
		for z := range info.BalanceInfoMap {
			if tr.tokenBy[z] == nil {
				bogus = append(bogus, z.String())
			}
		}
		if len(bogus) > 0 {
			sort.Strings(bogus)
			return fmt.Sprintf("balance listed for non-existent token %v", bogus[0])
		}
		return ""
	})
}

func (c *c18) momentumBeforeTime() {
	t, tr := c.r.T, c.tr
	g := int64(tr.moms[0].TimestampUnix)
	f := int64(tr.frontier.TimestampUnix)
	var ts int64
	switch t.Choose(5) {
	case 0:
		ts = int64(tr.moms[t.Choose(len(tr.moms))].TimestampUnix) + int64(t.Choose(3)) - 1
	case 1:
		ts = g + int64(t.Choose(int(f-g)+20))
	case 2:
		ts = []int64{g - 1, g, g + 1, f - 1, f, f + 1, 0, -1}[t.Choose(8)]
	case 3:
		ts = []int64{1 << 31, 1 << 32, 1 << 33, 1 << 34, 1 << 40, 1 << 62, math.MaxInt64, math.MinInt64, -(1 << 34), math.MaxInt64 / 1000000000, math.MaxInt64/1000000000 + 1}[t.Choose(11)]
		c.r.Probe("boundary-param-used")
	default:
		ts = int64(t.Uint64())
		c.r.Probe("boundary-param-used")
	}
	// latest momentum strictly before ts, and latest at or before ts
	var strict, loose *nom.Momentum
	for _, m := range tr.moms {
		if int64(m.TimestampUnix) < ts {
			strict = m
		}
		if int64(m.TimestampUnix) <= ts {
			loose = m
		}
	}
	c.single("ledger.getMomentumBeforeTime", "momentum-before-time", func() string {
		m, err := c.apis.Ledger.GetMomentumBeforeTime(ts)
		if err != nil {
			return fmt.Sprintf("timestamp %d: error %v", ts, err)
		}
		name := func(x *nom.Momentum) string {
			if x == nil {
				return "none"
			}
			return fmt.Sprintf("height %d (ts %d)", x.Height, x.TimestampUnix)
		}
		if m == nil {
			if strict == nil || loose == nil {
				return ""
			}
			return fmt.Sprintf("timestamp %d: no momentum returned; the latest momentum before that time is %s (genesis ts %d, frontier ts %d)", ts, name(strict), g, f)
		}
		for _, w := range []*nom.Momentum{strict, loose} {
			if w != nil && w.Hash == m.Hash {
				return tr.judgeMomentum(m, w)
			}
		}
		return fmt.Sprintf("timestamp %d: returned momentum height %d (ts %d); the latest momentum before that time is %s", ts, m.Height, m.TimestampUnix, name(strict))
	})
}
