// Package tape is the single source of every decision a simulated run takes.
//
// In generate mode each Choose draws from a splitmix64 PRNG seeded by the run
// seed and appends the drawn value to Rec.  In replay mode the values come from
// Rec (reduced mod n, 0 past the end), so a recorded — possibly minimised — tape
// re-executes the same run.  Nothing else in the harness is random.
package tape

import (
	"encoding/binary"
	"hash/fnv"
)

type Tape struct {
	Seed   uint64
	Rec    []uint32
	state  uint64
	pos    int
	replay bool
	// Overrun counts how many draws went past the recorded tape (replay only).
	Overrun int
	// OverrunLimit, when > 0, makes a replay panic with OverrunPanic once that many draws went past
	// the tape: a minimisation candidate must not be able to spin in a loop that only a non-zero
	// draw would leave.
	OverrunLimit int
	// Spans are the [start,end) tape ranges of self-contained decisions (one
	// slot, one operation). Deleting a whole span keeps the rest aligned.
	Spans []Span
	depth int
}

// OverrunPanic unwinds a replay that drew far more values than the run it was derived from.
type OverrunPanic struct{}

type Span struct {
	Start, End, Depth int
}

// Span marks everything f draws as one deletable unit.
func (t *Tape) Span(f func()) {
	s, d := t.pos, t.depth
	t.depth++
	defer func() {
		t.depth--
		if t.pos > s {
			t.Spans = append(t.Spans, Span{s, t.pos, d})
		}
	}()
	f()
}

// More is the continue-bit of a variable-length loop: true with probability
// num/den. Used as `for t.More(3,4) { t.Span(op) }` with the draw inside the
// span of the iteration it guards, so deleting an iteration keeps alignment.
func (t *Tape) Loop(num, den, max int, body func()) int {
	n := 0
	for n < max {
		stop := false
		t.Span(func() {
			if !t.Prob(num, den) {
				stop = true
				return
			}
			body()
		})
		if stop {
			break
		}
		n++
	}
	return n
}

func mix64(z uint64) uint64 {
	z += 0x9e3779b97f4a7c15
	z = (z ^ (z >> 30)) * 0xbf58476d1ce4e5b9
	z = (z ^ (z >> 27)) * 0x94d049bb133111eb
	return z ^ (z >> 31)
}

// Derive gives the seed of run number i of a property for a master seed.
func Derive(master uint64, prop string, i uint64) uint64 {
	h := fnv.New64a()
	h.Write([]byte(prop))
	var b [16]byte
	binary.LittleEndian.PutUint64(b[:8], master)
	binary.LittleEndian.PutUint64(b[8:], i)
	h.Write(b[:])
	return mix64(h.Sum64())
}

func New(seed uint64) *Tape { return &Tape{Seed: seed, state: seed} }

func Replay(seed uint64, rec []uint32) *Tape {
	return &Tape{Seed: seed, Rec: append([]uint32(nil), rec...), replay: true}
}

func (t *Tape) IsReplay() bool { return t.replay }
func (t *Tape) Pos() int       { return t.pos }

func (t *Tape) next() uint32 {
	if t.replay {
		if t.pos >= len(t.Rec) {
			t.pos++
			t.Overrun++
			if t.OverrunLimit > 0 && t.Overrun > t.OverrunLimit {
				panic(OverrunPanic{})
			}
			return 0
		}
		v := t.Rec[t.pos]
		t.pos++
		return v
	}
	t.state += 0x9e3779b97f4a7c15
	z := t.state
	z = (z ^ (z >> 30)) * 0xbf58476d1ce4e5b9
	z = (z ^ (z >> 27)) * 0x94d049bb133111eb
	z ^= z >> 31
	v := uint32(z >> 32)
	t.Rec = append(t.Rec, v)
	t.pos++
	return v
}

// Choose returns a value in [0,n). n<=1 consumes nothing.
func (t *Tape) Choose(n int) int {
	if n <= 1 {
		return 0
	}
	v := t.next()
	if !t.replay {
		// store the reduced value so that lowering a tape entry is meaningful
		v = v % uint32(n)
		t.Rec[len(t.Rec)-1] = v
		return int(v)
	}
	return int(v % uint32(n))
}

// Range returns a value in [lo,hi].
func (t *Tape) Range(lo, hi int) int {
	if hi <= lo {
		return lo
	}
	return lo + t.Choose(hi-lo+1)
}

// Prob is true with probability num/den. The "simple" (0) outcome is false.
func (t *Tape) Prob(num, den int) bool {
	if num <= 0 {
		return false
	}
	return t.Choose(den) >= den-num
}

func (t *Tape) Bool() bool { return t.Choose(2) == 1 }

func (t *Tape) Uint32() uint32 {
	v := t.next()
	return v
}

func (t *Tape) Uint64() uint64 {
	return uint64(t.Uint32())<<32 | uint64(t.Uint32())
}

func (t *Tape) Bytes(k int) []byte {
	out := make([]byte, 0, k+4)
	for len(out) < k {
		v := t.Uint32()
		out = append(out, byte(v), byte(v>>8), byte(v>>16), byte(v>>24))
	}
	return out[:k]
}

// Pick chooses by integer weights; weights<=0 are never chosen.
func (t *Tape) Pick(weights []int) int {
	total := 0
	for _, w := range weights {
		if w > 0 {
			total += w
		}
	}
	if total == 0 {
		return 0
	}
	x := t.Choose(total)
	for i, w := range weights {
		if w <= 0 {
			continue
		}
		if x < w {
			return i
		}
		x -= w
	}
	return len(weights) - 1
}
