// Package simrt is the run-time of one simulated run: the synctest bubble, the
// event log and its digest, fault and probe counters and violation reporting.
package simrt

import (
	"crypto/sha256"
	"encoding/hex"
	"fmt"
	"os"
	"path/filepath"
	"runtime/debug"
	"sort"
	"strings"
	"testing"
	"testing/synctest"
	"time"

	"verif/sim/tape"
)

// Violation is one failed oracle clause. Clause+Disc form the signature used
// for minimisation, replay comparison and the known-findings file.
type Violation struct {
	Clause string `json:"clause"`
	Disc   string `json:"disc"`
	Detail string `json:"detail"`
	Event  int    `json:"event"`
}

func (v *Violation) Signature() string { return v.Clause + "|" + v.Disc }

type abortRun struct{}

// Run is the context handed to a property's run function.
type Run struct {
	Prop string
	T    *tape.Tape
	TB   *testing.T
	Tier string

	Violations []*Violation
	Faults     map[string]int
	Probes     map[string]int
	Skipped    map[string]int
	watchLocks bool
	Sample     map[string]any
	NonTrivial bool
	Finger     string // final state fingerprint, set by the check
	SimSeconds float64

	// Known signatures (from KNOWN_FINDINGS.json): reported, but do not stop a run
	Known map[string]bool

	events   int
	hasher   [32]byte
	trace    []string
	keepAll  bool
	baseDir  string
	dirCount int
	start    time.Time
	cleanups []func()
}

const traceRing = 400

func newRun(prop string, tp *tape.Tape, tb *testing.T, tier string, keepAll bool) *Run {
	return &Run{Prop: prop, T: tp, TB: tb, Tier: tier, Faults: map[string]int{}, Probes: map[string]int{},
		Skipped: map[string]int{}, Sample: map[string]any{}, keepAll: keepAll, Known: map[string]bool{}}
}

// Logf appends one line to the run's event log. It never draws from the tape
// and never reads a real clock.
func (r *Run) Logf(format string, a ...any) {
	s := fmt.Sprintf(format, a...)
	r.events++
	h := sha256.New()
	h.Write(r.hasher[:])
	h.Write([]byte(s))
	copy(r.hasher[:], h.Sum(nil))
	r.trace = append(r.trace, s)
	if !r.keepAll && len(r.trace) > 2*traceRing {
		r.trace = append([]string(nil), r.trace[len(r.trace)-traceRing:]...)
	}
}

func (r *Run) Events() int     { return r.events }
func (r *Run) Digest() string  { return hex.EncodeToString(r.hasher[:8]) }
func (r *Run) Trace() []string { return r.trace }

func (r *Run) Fault(kind string) { r.Faults[kind]++ }
func (r *Run) Probe(name string) { r.Probes[name]++ }
func (r *Run) Skip(what string)  { r.Skipped[what]++ }

// Report records a violation and returns; the run goes on.
func (r *Run) Report(clause, disc, format string, a ...any) {
	v := &Violation{Clause: clause, Disc: disc, Detail: fmt.Sprintf(format, a...), Event: r.events}
	for _, o := range r.Violations {
		if o.Signature() == v.Signature() {
			return
		}
	}
	if len(v.Detail) > 4000 {
		v.Detail = v.Detail[:4000] + "…"
	}
	r.Violations = append(r.Violations, v)
	r.Logf("VIOLATION %s: %s", v.Signature(), v.Detail)
}

// Fail records a violation and ends the run.
func (r *Run) Fail(clause, disc, format string, a ...any) {
	r.Report(clause, disc, format, a...)
	panic(abortRun{})
}

// Abort ends the run without a violation (e.g. after a known finding made the
// remaining state meaningless).
func (r *Run) Abort() { panic(abortRun{}) }

// Check fails the run when err != nil.
func (r *Run) NoErr(clause, disc string, err error) {
	if err != nil {
		r.Fail(clause, disc, "%v", err)
	}
}

// Unknown reports violations whose signature is not listed as known.
func (r *Run) Unknown() []*Violation {
	var out []*Violation
	for _, v := range r.Violations {
		if !r.Known[v.Signature()] {
			out = append(out, v)
		}
	}
	return out
}

// TempDir gives a fresh directory that disappears when the run ends.
func (r *Run) TempDir() string {
	r.dirCount++
	d := filepath.Join(r.baseDir, fmt.Sprintf("d%d", r.dirCount))
	if err := os.MkdirAll(d, 0o700); err != nil {
		panic(err)
	}
	return d
}

func (r *Run) Cleanup(f func()) { r.cleanups = append(r.cleanups, f) }

// Now is the simulated clock (only meaningful inside the bubble).
func (r *Run) Now() time.Time { return time.Now() }

func scratchBase() string {
	if b := os.Getenv("VERIF_TMP"); b != "" {
		return b
	}
	if st, err := os.Stat("/dev/shm"); err == nil && st.IsDir() {
		return "/dev/shm"
	}
	return os.TempDir()
}

// GenesisUnix is the timestamp of the mock genesis used by all ledger runs.
const GenesisUnix = 1000000000

// Exec runs fn inside a fresh synctest bubble whose clock has been advanced to
// the mock genesis. Panics of the run goroutine are turned into a violation
// (clause "panic"); abortRun unwinds silently. The end-of-bubble deadlock panic
// caused by leaked goroutines of abandoned nodes is swallowed.
func Exec(tb *testing.T, prop string, tp *tape.Tape, tier string, keepAll bool, known map[string]bool, fn func(r *Run)) *Run {
	r := newRun(prop, tp, tb, tier, keepAll)
	for k := range known {
		r.Known[k] = true
	}
	base, err := os.MkdirTemp(scratchBase(), "verif-"+prop+"-")
	if err != nil {
		panic(err)
	}
	r.baseDir = base
	defer os.RemoveAll(base)
	func() {
		defer func() {
			// synctest.Test panics with a deadlock message when goroutines stay
			// blocked in the bubble after the root returned; ignore exactly that.
			if p := recover(); p != nil {
				s := fmt.Sprint(p)
				if strings.Contains(s, "deadlock: main bubble goroutine has exited") {
					return
				}
				panic(p)
			}
		}()
		synctest.Test(tb, func(t *testing.T) {
			defer func() {
				for i := len(r.cleanups) - 1; i >= 0; i-- {
					func() {
						defer func() { recover() }()
						r.cleanups[i]()
					}()
				}
			}()
			defer func() {
				if p := recover(); p != nil {
					if _, ok := p.(abortRun); ok {
						return
					}
					if _, ok := p.(tape.OverrunPanic); ok {
						r.Skipped["replay-candidate-overran-tape"]++
						return
					}
					if ll, ok := p.(LockNeverReleased); ok {
						r.Report("lock-never-released", ll.Site, "a lock of the node taken at %s was never released: the next caller would wait for ever\n%s", ll.Site, trimStack(string(debug.Stack())))
						return
					}
					st := string(debug.Stack())
					r.Report("panic", panicSite(st), "%v\n%s", p, trimStack(st))
				}
			}()
			time.Sleep(time.Unix(GenesisUnix, 0).Sub(time.Now()))
			r.start = time.Now()
			fn(r)
			r.SimSeconds = time.Since(r.start).Seconds()
			if site := r.leakedLock(); site != "" && len(r.Violations) == 0 {
				r.Report("lock-never-released", site, "a lock of the node taken at %s was never released (the panic of the lock watch was swallowed on the way)", site)
			}
		})
	}()
	return r
}

// panicSite extracts the first repo frame below the panic for use as
// discriminator, e.g. "chain/momentum/momentum.go:43".
func panicSite(stack string) string {
	lines := strings.Split(stack, "\n")
	seenPanic := false
	for _, l := range lines {
		l = strings.TrimSpace(l)
		if strings.HasPrefix(l, "panic(") {
			seenPanic = true
			continue
		}
		if !seenPanic {
			continue
		}
		root := "/repo/"
		if alt := os.Getenv("VERIF_REPO"); alt != "" && strings.Contains(l, alt+"/") {
			root = alt + "/"
		}
		if i := strings.Index(l, root); i >= 0 {
			s := l[i+len(root):]
			if j := strings.Index(s, " "); j >= 0 {
				s = s[:j]
			}
			// strip the line number: sites must survive unrelated edits above them
			if k := strings.LastIndex(s, ":"); k >= 0 {
				s = s[:k]
			}
			return s
		}
	}
	return "unknown"
}

func trimStack(st string) string {
	lines := strings.Split(st, "\n")
	if len(lines) > 40 {
		lines = lines[:40]
	}
	return strings.Join(lines, "\n")
}

func SortedKeys(m map[string]int) []string {
	out := make([]string, 0, len(m))
	for k := range m {
		out = append(out, k)
	}
	sort.Strings(out)
	return out
}
