package simrt

import (
	"runtime"
	"strings"
	"sync/atomic"
	"time"

	"github.com/zenon-network/go-zenon/verifrt"
)

// LockNeverReleased is the panic value of the lock watch: a goroutine of a run whose harness is
// sequential arrived at an instrumented lock of the code under test and the lock stayed held although
// every other goroutine had ample opportunity to run - somebody returned without releasing it.
type LockNeverReleased struct{ Site string }

var leakedSite atomic.Value // string

func lockWatch(try func() bool, site string) {
	for i := 0; i < 3000000; i++ {
		if try() {
			return
		}
		runtime.Gosched()
	}
	if i := strings.LastIndex(site, ":"); i >= 0 {
		site = site[:i]
	}
	leakedSite.Store(site)
	panic(LockNeverReleased{Site: site})
}

// WatchLocks turns a lock that is never released (a hang of the node in reality) into a reported
// violation. Only for checks that drive their nodes from the run goroutine: with real concurrent callers a
// lock may legitimately stay busy. A cooperative scheduler replaces the watch while it runs and puts it back.
func (r *Run) WatchLocks() {
	leakedSite.Store("")
	verifrt.Hook = lockWatch
	r.Cleanup(func() { verifrt.Hook = nil })
	r.watchLocks = true
}

func (r *Run) leakedLock() string {
	if !r.watchLocks {
		return ""
	}
	s, _ := leakedSite.Load().(string)
	return s
}

// DurableLockWaits is the lock seam for checks whose nodes are driven by several real goroutines (peer
// handlers, RPC connections): a goroutine that finds an instrumented lock busy waits for it on the
// simulated clock instead of inside sync.Mutex. The wait is then visible to the bubble (time keeps
// moving, stall oracles fire) instead of freezing the run; a lock that stays busy for max simulated
// time is reported like in WatchLocks.
func (r *Run) DurableLockWaits(max time.Duration) {
	leakedSite.Store("")
	verifrt.Hook = func(try func() bool, site string) {
		for waited := time.Duration(0); !try(); waited += time.Millisecond {
			if waited > max {
				if i := strings.LastIndex(site, ":"); i >= 0 {
					site = site[:i]
				}
				leakedSite.Store(site)
				panic(LockNeverReleased{Site: site})
			}
			time.Sleep(time.Millisecond)
		}
	}
	r.Cleanup(func() { verifrt.Hook = nil })
	r.watchLocks = true
}
