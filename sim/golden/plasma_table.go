package golden

import (
	_ "embed"
	"encoding/json"
)

//go:embed method_plasma.json
var methodPlasmaJSON []byte

var methodPlasma map[string]map[string]uint64

func init() {
	if err := json.Unmarshal(methodPlasmaJSON, &methodPlasma); err != nil {
		panic(err)
	}
}

// MethodPlasma returns the base plasma of calling contract.method under a
// regime (origin, accelerator, bridge, htlc), as pinned; ok=false when the
// method does not exist under that regime.
func MethodPlasma(regime, key string) (uint64, bool) {
	v, ok := methodPlasma[regime][key]
	return v, ok
}

// Methods lists the callable "contract.method" keys of a regime.
func Methods(regime string) map[string]uint64 { return methodPlasma[regime] }
