// Package golden holds protocol facts written down independently of the code
// under test: hash pre-image layouts, address derivation, the proof-of-work
// threshold, plasma constants and the per-method base plasma table. They are
// the specification the oracles judge against; an edit of the repository that
// changes one of them is exactly what should make a check fire.
package golden

import (
	"crypto/ed25519"
	"encoding/binary"
	"math/big"

	"golang.org/x/crypto/sha3"

	"github.com/zenon-network/go-zenon/chain/nom"
	"github.com/zenon-network/go-zenon/common/types"
)

func u64(v uint64) []byte {
	b := make([]byte, 8)
	binary.BigEndian.PutUint64(b, v)
	return b
}

func h(data ...[]byte) []byte {
	d := sha3.New256()
	for _, x := range data {
		d.Write(x)
	}
	return d.Sum(nil)
}

func pad32(v *big.Int) []byte {
	out := make([]byte, 32)
	if v == nil {
		return out
	}
	b := v.Bytes()
	if len(b) > 32 {
		return b // mirrors "left pad": longer values are not truncated
	}
	copy(out[32-len(b):], b)
	return out
}

// AccountBlockHash: sha3-256 over version, chain id, type, previous hash,
// height, acknowledged momentum (hash‖height), address, to-address, amount (32
// bytes big endian), token standard, from-block hash, hash of the descendant
// hashes, hash of data, fused plasma, difficulty, nonce.
func AccountBlockHash(b *nom.AccountBlock) types.Hash {
	var desc []byte
	for _, d := range b.DescendantBlocks {
		desc = append(desc, d.Hash[:]...)
	}
	var out types.Hash
	copy(out[:], h(
		u64(b.Version), u64(b.ChainIdentifier), u64(b.BlockType),
		b.PreviousHash[:], u64(b.Height),
		b.MomentumAcknowledged.Hash[:], u64(b.MomentumAcknowledged.Height),
		b.Address[:], b.ToAddress[:], pad32(b.Amount), b.TokenStandard[:],
		b.FromBlockHash[:], h(desc), h(b.Data),
		u64(b.FusedPlasma), u64(b.Difficulty), b.Nonce.Data[:],
	))
	return out
}

// MomentumHash: sha3-256 over version, chain id, previous hash, height,
// timestamp, hash of data, hash of content (address‖height‖hash per header),
// changes hash.
func MomentumHash(m *nom.Momentum) types.Hash {
	var content []byte
	for _, hd := range m.Content {
		content = append(content, hd.Address[:]...)
		content = append(content, u64(hd.Height)...)
		content = append(content, hd.Hash[:]...)
	}
	var out types.Hash
	copy(out[:], h(
		u64(m.Version), u64(m.ChainIdentifier), m.PreviousHash[:], u64(m.Height),
		u64(m.TimestampUnix), h(m.Data), h(content), m.ChangesHash[:],
	))
	return out
}

// AddressOf: 0x00 ‖ sha3-256(pubkey)[:19].
func AddressOf(pub []byte) types.Address {
	s := sha3.Sum256(pub)
	var a types.Address
	a[0] = 0
	copy(a[1:], s[:19])
	return a
}

func SignatureOK(pub, msg, sig []byte) bool {
	if len(pub) != ed25519.PublicKeySize || len(sig) != ed25519.SignatureSize {
		return false
	}
	return ed25519.Verify(ed25519.PublicKey(pub), msg, sig)
}

// PoWOK: the first 8 bytes of sha3-256(nonce ‖ sha3-256(address ‖ previous
// hash)), read as a little-endian integer, must be at least 2^64 − ⌊2^64/d⌋.
func PoWOK(addr types.Address, prev types.Hash, nonce [8]byte, difficulty uint64) bool {
	if difficulty == 0 {
		return true
	}
	data := h(addr[:], prev[:])
	calc := h(nonce[:], data)
	v := new(big.Int).SetUint64(binary.LittleEndian.Uint64(calc[:8]))
	two64 := new(big.Int).Lsh(big.NewInt(1), 64)
	thr := new(big.Int).Sub(two64, new(big.Int).Quo(two64, new(big.Int).SetUint64(difficulty)))
	return v.Cmp(thr) >= 0
}

// Plasma constants of the protocol.
const (
	BasePlasma            = 21000
	PlasmaPerDataByte     = 68
	EmbeddedSimple        = 52500
	EmbeddedWithdraw      = 73500
	EmbeddedDoubleWithraw = 94500
	DifficultyPerPlasma   = 1500
	MaxPoWPlasma          = 94500
	MaxPlasmaPerBlock     = 10500000 // 5000 fusion units × 2100
	PlasmaPerQsr          = 2100     // per whole QSR (10^8 base units) fused
	MaxFusedQsrUnits      = 5000
	MaxDataLength         = 16 * 1024
)

// PoWPlasma is the plasma a claimed difficulty is worth.
func PoWPlasma(d uint64) uint64 {
	if d == 0 {
		return 0
	}
	if d > MaxPoWPlasma*DifficultyPerPlasma {
		return MaxPoWPlasma
	}
	return d / DifficultyPerPlasma
}

// FusedPlasma is the plasma a fused QSR amount (base units) provides.
func FusedPlasma(amount *big.Int) uint64 {
	if amount == nil || amount.Sign() <= 0 {
		return 0
	}
	units := new(big.Int).Quo(amount, big.NewInt(100000000))
	if units.Cmp(big.NewInt(MaxFusedQsrUnits)) >= 0 {
		return MaxFusedQsrUnits * PlasmaPerQsr
	}
	return units.Uint64() * PlasmaPerQsr
}

// Regime names the method table in force: which implemented sporks are enforced.
func Regime(accelerator, htlc, bridge bool) string {
	switch {
	case htlc:
		return "htlc"
	case bridge:
		return "bridge"
	case accelerator:
		return "accelerator"
	}
	return "origin"
}
