// Package simdisk turns "the process dies between two writes to LevelDB" into
// directory images, without any hook in the code under test.
//
// goleveldb appends every Put/Delete/Write as ONE journal record (a batch) to
// the current *.log file and flushes it to the file before the call returns.
// A process that dies after its k-th write therefore leaves a journal that
// ends after the k-th record; a write torn by the death leaves a journal that
// ends somewhere inside a record. This file parses the journal format
// independently of goleveldb (only the format is shared):
//
//	file   = sequence of 32 KiB blocks (the last one may be short)
//	block  = tightly packed chunks; a chunk never crosses a block boundary;
//	         fewer than 7 bytes left in a block are zero padding
//	chunk  = crc(4, masked CRC-32C of type‖payload, LE) len(2, LE) type(1) payload
//	type   = 1 FULL | 2 FIRST | 3 MIDDLE | 4 LAST
//	record = one FULL chunk, or FIRST MIDDLE* LAST
package simdisk

import (
	"encoding/binary"
	"fmt"
	"hash/crc32"
)

const (
	BlockSize  = 32 * 1024
	HeaderSize = 7

	chunkFull   = 1
	chunkFirst  = 2
	chunkMiddle = 3
	chunkLast   = 4
)

var castagnoli = crc32.MakeTable(crc32.Castagnoli)

// maskedCRC is LevelDB's masked CRC-32C.
func maskedCRC(b []byte) uint32 {
	c := crc32.Checksum(b, castagnoli)
	return ((c >> 15) | (c << 17)) + 0xa282ead8
}

// Record is one journal record (== one write batch == one db.Put/Delete/Write).
type Record struct {
	// Start is the offset of the first chunk header of the record, End the
	// offset just past its last payload byte. Padding at the end of a block
	// belongs to neither (it is written together with the NEXT record).
	Start, End int
	Chunks     int
	// Payload is the reassembled record: seq(8) count(4) then count entries
	Payload []byte
}

// Entries is the number of key operations in the record's batch header.
func (r *Record) Entries() int {
	if len(r.Payload) < 12 {
		return -1
	}
	return int(binary.LittleEndian.Uint32(r.Payload[8:12]))
}

// Seq is the sequence number of the first key operation of the record.
func (r *Record) Seq() uint64 {
	if len(r.Payload) < 12 {
		return 0
	}
	return binary.LittleEndian.Uint64(r.Payload[0:8])
}

// Parse returns the complete, checksum-correct records of a journal in order.
// rest is the offset at which parsing stopped: len(b) for a clean journal, the
// start of the first incomplete/corrupt chunk otherwise (why says what it was).
func Parse(b []byte) (recs []Record, rest int, why string) {
	off := 0
	var cur *Record
	for off < len(b) {
		left := BlockSize - off%BlockSize
		if left < HeaderSize {
			// trailer of a block: must be zeros
			end := off + left
			if end > len(b) {
				end = len(b)
			}
			for _, x := range b[off:end] {
				if x != 0 {
					return recs, off, "non-zero block trailer"
				}
			}
			off = end
			continue
		}
		if off+HeaderSize > len(b) {
			return recs, off, "truncated chunk header"
		}
		crc := binary.LittleEndian.Uint32(b[off : off+4])
		l := int(binary.LittleEndian.Uint16(b[off+4 : off+6]))
		typ := b[off+6]
		if crc == 0 && l == 0 && typ == 0 {
			return recs, off, "zero header"
		}
		if typ < chunkFull || typ > chunkLast {
			return recs, off, fmt.Sprintf("invalid chunk type %d", typ)
		}
		if HeaderSize+l > left {
			return recs, off, "chunk length overflows block"
		}
		if off+HeaderSize+l > len(b) {
			return recs, off, "truncated chunk payload"
		}
		if maskedCRC(b[off+6:off+HeaderSize+l]) != crc {
			return recs, off, "checksum mismatch"
		}
		payload := b[off+HeaderSize : off+HeaderSize+l]
		switch typ {
		case chunkFull, chunkFirst:
			if cur != nil {
				return recs, cur.Start, "record not terminated"
			}
			cur = &Record{Start: off}
		case chunkMiddle, chunkLast:
			if cur == nil {
				return recs, off, "orphan chunk"
			}
		}
		cur.Chunks++
		cur.Payload = append(cur.Payload, payload...)
		off += HeaderSize + l
		if typ == chunkFull || typ == chunkLast {
			cur.End = off
			recs = append(recs, *cur)
			cur = nil
		}
	}
	if cur != nil {
		return recs, cur.Start, "record not terminated"
	}
	return recs, off, ""
}

// Boundaries returns the end offsets of the complete records of a journal.
func Boundaries(b []byte) []int {
	recs, _, _ := Parse(b)
	out := make([]int, len(recs))
	for i := range recs {
		out[i] = recs[i].End
	}
	return out
}
