package simdisk

import (
	"bytes"
	"encoding/binary"
	"errors"
	"fmt"
	"os"
	"path/filepath"
	"sort"
	"strings"

	"github.com/syndtr/goleveldb/leveldb"
	"github.com/syndtr/goleveldb/leveldb/opt"
)

// ErrUnstable: the directory is not in the simple shape the crash model needs
// (exactly one journal, file set not changing under the copy).
var ErrUnstable = errors.New("simdisk: directory not stable")

type FileInfo struct {
	Name string
	Size int64
}

// Listing is the durable file set of a LevelDB directory. LOCK and the
// human-readable LOG files are not part of the state.
type Listing struct {
	Files   []FileInfo
	Journal string // the *.log file (exactly one, else ErrUnstable)
}

func durable(name string) bool {
	return name != "LOCK" && name != "LOG" && name != "LOG.old" && !strings.HasSuffix(name, ".tmp")
}

func List(dir string) (*Listing, error) {
	ents, err := os.ReadDir(dir)
	if err != nil {
		return nil, err
	}
	l := &Listing{}
	logs := 0
	for _, e := range ents {
		if e.IsDir() {
			continue
		}
		if strings.HasSuffix(e.Name(), ".tmp") {
			return nil, ErrUnstable // a CURRENT/MANIFEST switch is in progress
		}
		if !durable(e.Name()) {
			continue
		}
		fi, err := e.Info()
		if err != nil {
			return nil, ErrUnstable
		}
		l.Files = append(l.Files, FileInfo{e.Name(), fi.Size()})
		if strings.HasSuffix(e.Name(), ".log") {
			logs++
			l.Journal = e.Name()
		}
	}
	sort.Slice(l.Files, func(i, j int) bool { return l.Files[i].Name < l.Files[j].Name })
	if logs != 1 {
		return l, ErrUnstable
	}
	return l, nil
}

// SameExceptJournal reports whether two listings name the same files with the
// same sizes; the journal may have grown from a to b.
func SameExceptJournal(a, b *Listing) bool {
	if a.Journal != b.Journal || len(a.Files) != len(b.Files) {
		return false
	}
	for i := range a.Files {
		x, y := a.Files[i], b.Files[i]
		if x.Name != y.Name {
			return false
		}
		if x.Name == a.Journal {
			if y.Size < x.Size {
				return false
			}
			continue
		}
		if x.Size != y.Size {
			return false
		}
	}
	return true
}

func (l *Listing) String() string {
	var s []string
	for _, f := range l.Files {
		s = append(s, fmt.Sprintf("%s:%d", f.Name, f.Size))
	}
	return strings.Join(s, " ")
}

// Image is a full copy of a database directory taken while its owner was idle.
type Image struct {
	Dir     string
	L       *Listing
	Journal []byte // content of the journal at the time of the copy
}

// Take copies src into dst. The listing is read before and after the copy and
// must be identical (no background flush/compaction moved files meanwhile).
func Take(src, dst string) (*Image, error) {
	before, err := List(src)
	if err != nil {
		return nil, err
	}
	if err := os.MkdirAll(dst, 0o700); err != nil {
		return nil, err
	}
	img := &Image{Dir: dst}
	for _, f := range before.Files {
		b, err := os.ReadFile(filepath.Join(src, f.Name))
		if err != nil {
			return nil, ErrUnstable
		}
		if f.Name == before.Journal {
			img.Journal = b
		}
		if err := os.WriteFile(filepath.Join(dst, f.Name), b, 0o600); err != nil {
			return nil, err
		}
	}
	after, err := List(src)
	if err != nil {
		return nil, err
	}
	if !SameExceptJournal(before, after) || len(after.Files) != len(before.Files) || sizeOf(after, after.Journal) != int64(len(img.Journal)) {
		return nil, ErrUnstable
	}
	img.L = after
	return img, nil
}

func sizeOf(l *Listing, name string) int64 {
	for _, f := range l.Files {
		if f.Name == name {
			return f.Size
		}
	}
	return -1
}

// Tail is the cheap "after" snapshot: the name and the bytes of the journal.
//
// Nothing else is needed: a write (Put/Delete/Write) only appends to the
// journal. The other files change only through goleveldb's own background
// work: a table compaction rewrites immutable tables into new ones with the
// same content and never touches the journal, so "image files + journal
// prefix" stays a state the disk could have been in at the moment of the
// death whether or not a compaction ran meanwhile (compactions are triggered by
// read sampling, independently of the writes). A memtable rotation, which
// does change what the journal means, switches to a NEW journal file and is
// detected by the name.
type Tail struct {
	Name    string
	Journal []byte
}

func TakeTail(src string) (*Tail, error) {
	ents, err := os.ReadDir(src)
	if err != nil {
		return nil, err
	}
	name := ""
	for _, e := range ents {
		if strings.HasSuffix(e.Name(), ".log") {
			if name != "" {
				return nil, ErrUnstable // rotation in progress: two journals
			}
			name = e.Name()
		}
	}
	if name == "" {
		return nil, ErrUnstable
	}
	b, err := os.ReadFile(filepath.Join(src, name))
	if err != nil {
		return nil, ErrUnstable
	}
	return &Tail{Name: name, Journal: b}, nil
}

// Extends reports whether t is the image's journal with only records appended.
func (img *Image) Extends(t *Tail) bool {
	return t.Name == img.L.Journal && len(t.Journal) >= len(img.Journal) && bytes.Equal(t.Journal[:len(img.Journal)], img.Journal)
}

// Materialise builds in dst the directory a process death would leave: the
// image's files with the journal replaced by the given bytes (a prefix of a
// later journal, cut at a record boundary or inside a record).
func (img *Image) Materialise(dst string, journal []byte) error {
	if err := os.MkdirAll(dst, 0o700); err != nil {
		return err
	}
	for _, f := range img.L.Files {
		if f.Name == img.L.Journal {
			continue
		}
		b, err := os.ReadFile(filepath.Join(img.Dir, f.Name))
		if err != nil {
			return err
		}
		if err := os.WriteFile(filepath.Join(dst, f.Name), b, 0o600); err != nil {
			return err
		}
	}
	return os.WriteFile(filepath.Join(dst, img.L.Journal), journal, 0o600)
}

type KV struct{ K, V []byte }

// RawDump opens a directory with goleveldb itself (the same recovery the node's
// db.NewLevelDBManager triggers: manifest, then journal replay into a table)
// and returns the whole raw key space in order. The directory is modified by
// the open, so pass a scratch copy.
func RawDump(dir string) ([]KV, error) {
	return rawDump(dir, &opt.Options{ErrorIfMissing: true})
}

// RawDumpRO is RawDump through goleveldb's read-only recovery: the journal is
// replayed into memory by the same journal reader and batch decoder, nothing is
// written. About three times cheaper; used for the bulk of the enumeration.
func RawDumpRO(dir string) ([]KV, error) {
	return rawDump(dir, &opt.Options{ErrorIfMissing: true, ReadOnly: true, WriteBuffer: 128 << 10, DisableBlockCache: true, DisableSeeksCompaction: true})
}

func rawDump(dir string, o *opt.Options) ([]KV, error) {
	ldb, err := leveldb.OpenFile(dir, o)
	if err != nil {
		return nil, err
	}
	defer ldb.Close()
	var out []KV
	it := ldb.NewIterator(nil, nil)
	for it.Next() {
		out = append(out, KV{append([]byte(nil), it.Key()...), append([]byte(nil), it.Value()...)})
	}
	it.Release()
	if err := it.Error(); err != nil {
		return nil, err
	}
	return out, nil
}

func Equal(a, b []KV) bool {
	if len(a) != len(b) {
		return false
	}
	for i := range a {
		if !bytes.Equal(a[i].K, b[i].K) || !bytes.Equal(a[i].V, b[i].V) {
			return false
		}
	}
	return true
}

// DiffKeys lists the keys on which two ordered dumps differ.
func DiffKeys(a, b []KV) [][]byte {
	var out [][]byte
	i, j := 0, 0
	for i < len(a) || j < len(b) {
		switch {
		case j >= len(b) || (i < len(a) && bytes.Compare(a[i].K, b[j].K) < 0):
			out = append(out, a[i].K)
			i++
		case i >= len(a) || bytes.Compare(a[i].K, b[j].K) > 0:
			out = append(out, b[j].K)
			j++
		default:
			if !bytes.Equal(a[i].V, b[j].V) {
				out = append(out, a[i].K)
			}
			i++
			j++
		}
	}
	return out
}

// Op is one key operation of a journal record (a LevelDB write batch entry).
type Op struct {
	Delete bool
	Key    []byte
	Value  []byte
}

// Ops decodes the batch carried by a record: seq(8) count(4) then per entry
// type(1: 0 delete, 1 put) varint-len key [varint-len value].
func (r *Record) Ops() ([]Op, error) {
	p := r.Payload
	if len(p) < 12 {
		return nil, fmt.Errorf("short batch")
	}
	n := int(binary.LittleEndian.Uint32(p[8:12]))
	p = p[12:]
	var out []Op
	for i := 0; i < n; i++ {
		if len(p) < 1 {
			return out, fmt.Errorf("short batch entry")
		}
		typ := p[0]
		p = p[1:]
		kl, w := binary.Uvarint(p)
		if w <= 0 || int(kl) > len(p)-w {
			return out, fmt.Errorf("bad key length")
		}
		k := p[w : w+int(kl)]
		p = p[w+int(kl):]
		op := Op{Key: k}
		switch typ {
		case 0:
			op.Delete = true
		case 1:
			vl, w := binary.Uvarint(p)
			if w <= 0 || int(vl) > len(p)-w {
				return out, fmt.Errorf("bad value length")
			}
			op.Value = p[w : w+int(vl)]
			p = p[w+int(vl):]
		default:
			return out, fmt.Errorf("bad entry type %d", typ)
		}
		out = append(out, op)
	}
	if len(p) != 0 {
		return out, fmt.Errorf("trailing bytes in batch")
	}
	return out, nil
}
