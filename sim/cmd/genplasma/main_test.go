package genplasma

// One-off generator of golden/method_plasma.json from the pinned tree:
//   go1.26.8 test -vet=off -run TestGen ./cmd/genplasma
// The output is committed and from then on is the specification.

import (
	"encoding/json"
	"os"
	"testing"

	"github.com/zenon-network/go-zenon/common/types"
	"github.com/zenon-network/go-zenon/vm/constants"
	"github.com/zenon-network/go-zenon/vm/embedded"
	"github.com/zenon-network/go-zenon/vm/vm_context"

	"verif/sim/nomsim"
	"verif/sim/simrt"
	"verif/sim/tape"
)

func TestGen(t *testing.T) {
	if os.Getenv("VERIF_GEN") == "" {
		t.Skip()
	}
	out := map[string]map[string]uint64{}
	regimes := map[string][]bool{"origin": {false, false, false}, "accelerator": {true, false, false}, "bridge": {true, false, true}, "htlc": {true, true, true}}
	for name, act := range regimes {
		simrt.Exec(t, "gen", tape.New(1), "quick", false, nil, func(r *simrt.Run) {
			cfg := nomsim.MockGenesis(nomsim.SporksDeclared)
			for i, s := range cfg.SporkConfig.Sporks {
				if act[i] {
					s.Activated = true
					s.EnforcementHeight = 1
				}
			}
			w := nomsim.NewWorld(r, cfg)
			n := w.AddNode("g", nomsim.MockPillars(), false)
			w.StepSlot()
			w.StepSlot()
			ms := n.Chain.GetFrontierMomentumStore()
			ctx := vm_context.NewAccountContext(ms, n.Chain.GetFrontierAccountStore(types.PillarContract), n.Cons.FixedPillarReader(ms.Identifier()))
			tbl := map[string]uint64{}
			for _, c := range nomsim.Contracts {
				for _, mn := range nomsim.MethodNames(c.ABI) {
					m, err := embedded.GetEmbeddedMethod(ctx, c.Addr, c.ABI.Methods[mn].Id())
					if err != nil {
						continue
					}
					p, err := m.GetPlasma(&constants.AlphanetPlasmaTable)
					if err != nil {
						continue
					}
					tbl[c.Name+"."+mn] = p
				}
			}
			out[name] = tbl
		})
	}
	b, _ := json.MarshalIndent(out, "", " ")
	os.WriteFile(os.Getenv("VERIF_GEN"), b, 0o644)
}
