// Command instr generates the lock-yield overlay: for the listed files of the
// repository it inserts, before every statement `X.Lock()` / `X.RLock()`, a call
//
//	verifrt.BeforeLock(func() bool { if X.TryLock() { X.Unlock(); return true }; return false }, "file:line")
//
// (TryRLock/RUnlock for RLock) and adds the virtual package <repo>/verifrt. The
// rewritten files are written to an output directory and referenced by an
// overlay.json for `go build -overlay`; nothing is written under the repository.
// BeforeLock is a no-op unless a scheduler installed verifrt.Hook.
package main

import (
	"bytes"
	"encoding/json"
	"flag"
	"fmt"
	"go/ast"
	"go/parser"
	"go/printer"
	"go/token"
	"os"
	"path/filepath"
	"sort"
	"strings"
)

const rt = `// Package verifrt is injected by /verif's build overlay; it does not exist in the repository.
package verifrt

import (
	"bytes"
	"sort"
)

// Hook, when set, is called before every instrumented lock acquisition with a
// probe that reports whether the lock could be taken right now.
var Hook func(try func() bool, site string)

// MapOrder, when set, lets the simulator choose the order in which SortedKeys20 hands out the keys of
// a map (a permutation of 0..n-1); otherwise the keys come sorted. Either way the order no longer
// depends on the runtime's map iteration.
var MapOrder func(n int) []int

func SortedKeys20[K ~[20]byte, V any](m map[K]V) []K {
	keys := make([]K, 0, len(m))
	for k := range m {
		keys = append(keys, k)
	}
	sort.Slice(keys, func(i, j int) bool {
		a, b := [20]byte(keys[i]), [20]byte(keys[j])
		return bytes.Compare(a[:], b[:]) < 0
	})
	if h := MapOrder; h != nil {
		p := h(len(keys))
		if len(p) == len(keys) {
			out := make([]K, len(keys))
			for i, j := range p {
				out[i] = keys[j]
			}
			return out
		}
	}
	return keys
}

func BeforeLock(try func() bool, site string) {
	if h := Hook; h != nil {
		h(try, site)
	}
}
`

func exprString(fset *token.FileSet, e ast.Expr) string {
	var b bytes.Buffer
	printer.Fprint(&b, fset, e)
	return b.String()
}

func main() {
	repo := flag.String("repo", "/repo", "repository root")
	out := flag.String("out", "", "output directory")
	shims := flag.String("shims", "", "directory of shim files to add to repository packages")
	seams := flag.String("seams", "", "directory of core seams (*.seam) applied in every build")
	flag.Parse()
	targets := flag.Args()
	if *out == "" || len(targets) == 0 {
		fmt.Fprintln(os.Stderr, "usage: instr -repo R -out DIR <dir-or-file relative to repo>...")
		os.Exit(2)
	}
	os.MkdirAll(*out, 0o755)
	var files []string
	for _, tg := range targets {
		p := filepath.Join(*repo, tg)
		st, err := os.Stat(p)
		if err != nil {
			fmt.Fprintf(os.Stderr, "seam-missing: %s: %v\n", tg, err)
			continue
		}
		if st.IsDir() {
			ents, _ := os.ReadDir(p)
			for _, e := range ents {
				if !e.IsDir() && strings.HasSuffix(e.Name(), ".go") && !strings.HasSuffix(e.Name(), "_test.go") {
					files = append(files, filepath.Join(p, e.Name()))
				}
			}
		} else {
			files = append(files, p)
		}
	}
	sort.Strings(files)
	replace := map[string]string{}
	sites := 0
	for _, f := range files {
		fset := token.NewFileSet()
		af, err := parser.ParseFile(fset, f, nil, parser.ParseComments)
		if err != nil {
			fmt.Fprintf(os.Stderr, "parse %s: %v\n", f, err)
			os.Exit(2)
		}
		rel, _ := filepath.Rel(*repo, f)
		raw, err := os.ReadFile(f)
		if err != nil {
			fmt.Fprintln(os.Stderr, err)
			os.Exit(2)
		}
		type ins struct {
			off  int
			text string
		}
		var inserts []ins
		ast.Inspect(af, func(nd ast.Node) bool {
			es, ok := nd.(*ast.ExprStmt)
			if !ok {
				return true
			}
			call, ok := es.X.(*ast.CallExpr)
			if !ok || len(call.Args) != 0 {
				return true
			}
			sel, ok := call.Fun.(*ast.SelectorExpr)
			if !ok || (sel.Sel.Name != "Lock" && sel.Sel.Name != "RLock") {
				return true
			}
			x := exprString(fset, sel.X)
			try, un := "TryLock", "Unlock"
			if sel.Sel.Name == "RLock" {
				try, un = "TryRLock", "RUnlock"
			}
			site := fmt.Sprintf("%s:%d", rel, fset.Position(es.Pos()).Line)
			// same line as the statement: line numbers of the file do not move
			inserts = append(inserts, ins{fset.Position(es.Pos()).Offset,
				fmt.Sprintf("verifrt.BeforeLock(func() bool { if %s.%s() { %s.%s(); return true }; return false }, %q); ", x, try, x, un, site)})
			return true
		})
		n := len(inserts)
		if n == 0 {
			continue
		}
		sort.Slice(inserts, func(i, j int) bool { return inserts[i].off > inserts[j].off })
		src := raw
		for _, in := range inserts {
			src = append(append(append([]byte(nil), src[:in.off]...), []byte(in.text)...), src[in.off:]...)
		}
		// the import goes on the line of the package clause
		pkgEnd := fset.Position(af.Name.End()).Offset
		src = append(append(append([]byte(nil), src[:pkgEnd]...), []byte(`; import "github.com/zenon-network/go-zenon/verifrt"`)...), src[pkgEnd:]...)
		if _, err := parser.ParseFile(token.NewFileSet(), f, src, 0); err != nil {
			fmt.Fprintf(os.Stderr, "instrumented %s does not parse: %v\n", f, err)
			os.Exit(2)
		}
		dst := filepath.Join(*out, strings.ReplaceAll(rel, "/", "__"))
		if err := os.WriteFile(dst, src, 0o644); err != nil {
			fmt.Fprintln(os.Stderr, err)
			os.Exit(2)
		}
		replace[f] = dst
		sites += n
	}
	// core seams: <seams>/*.seam, same format, applied in every build; a seam whose text is not found exactly
	// once (the tree under test changed that spot) is skipped with a note
	if *seams != "" {
		ents, _ := os.ReadDir(*seams)
		for _, e := range ents {
			if e.IsDir() || !strings.HasSuffix(e.Name(), ".seam") {
				continue
			}
			raw, err := os.ReadFile(filepath.Join(*seams, e.Name()))
			if err != nil {
				continue
			}
			var sm struct{ File, Old, New string }
			if json.Unmarshal(raw, &sm) != nil {
				fmt.Fprintf(os.Stderr, "seam-skipped: %s does not parse\n", e.Name())
				continue
			}
			target := filepath.Join(*repo, sm.File)
			srcPath := target
			if r, ok := replace[target]; ok {
				srcPath = r
			}
			src, err := os.ReadFile(srcPath)
			if err != nil || strings.Count(string(src), sm.Old) != 1 {
				fmt.Fprintf(os.Stderr, "seam-skipped: %s: text not found exactly once in %s\n", e.Name(), sm.File)
				continue
			}
			dst := filepath.Join(*out, strings.ReplaceAll(sm.File, "/", "__"))
			if err := os.WriteFile(dst, []byte(strings.Replace(string(src), sm.Old, sm.New, 1)), 0o644); err != nil {
				fmt.Fprintln(os.Stderr, err)
				os.Exit(2)
			}
			replace[target] = dst
			fmt.Fprintf(os.Stderr, "seam-applied: %s\n", e.Name())
		}
	}
	// optional seams: <shims>/*.seam = {"file","old","new"}: one exact textual replacement in a repository file
	if *shims != "" {
		ents, _ := os.ReadDir(*shims)
		for _, e := range ents {
			if e.IsDir() || !strings.HasSuffix(e.Name(), ".seam") {
				continue
			}
			raw, err := os.ReadFile(filepath.Join(*shims, e.Name()))
			if err != nil {
				continue
			}
			var sm struct{ File, Old, New string }
			if json.Unmarshal(raw, &sm) != nil {
				fmt.Fprintf(os.Stderr, "seam-missing: %s does not parse\n", e.Name())
				os.Exit(3)
			}
			target := filepath.Join(*repo, sm.File)
			srcPath := target
			if r, ok := replace[target]; ok {
				srcPath = r
			}
			src, err := os.ReadFile(srcPath)
			if err != nil || strings.Count(string(src), sm.Old) != 1 {
				fmt.Fprintf(os.Stderr, "seam-missing: %s: text not found exactly once in %s\n", e.Name(), sm.File)
				os.Exit(3)
			}
			dst := filepath.Join(*out, strings.ReplaceAll(sm.File, "/", "__"))
			if err := os.WriteFile(dst, []byte(strings.Replace(string(src), sm.Old, sm.New, 1)), 0o644); err != nil {
				fmt.Fprintln(os.Stderr, err)
				os.Exit(2)
			}
			replace[target] = dst
		}
	}
	// optional shim files: <shims>/<path with __ for />.go is added as <repo>/<path>.go
	if *shims != "" {
		ents, _ := os.ReadDir(*shims)
		for _, e := range ents {
			if e.IsDir() || !strings.HasSuffix(e.Name(), ".go") {
				continue
			}
			rel := strings.ReplaceAll(e.Name(), "__", "/")
			replace[filepath.Join(*repo, rel)] = filepath.Join(*shims, e.Name())
		}
	}
	rtp := filepath.Join(*out, "verifrt_rt.go")
	os.WriteFile(rtp, []byte(rt), 0o644)
	replace[filepath.Join(*repo, "verifrt", "rt.go")] = rtp
	b, _ := json.MarshalIndent(map[string]any{"Replace": replace}, "", " ")
	os.WriteFile(filepath.Join(*out, "overlay.json"), b, 0o644)
	fmt.Fprintf(os.Stderr, "instr: %d lock sites in %d files\n", sites, len(replace)-1)
}
