// Injected by /verif's build overlay (never written into the repository): exports the
// unexported rlpx transport so that the simulator can drive it over in-memory pipes.
package p2p

import (
	"crypto/ecdsa"
	"net"

	"github.com/zenon-network/go-zenon/p2p/discover"
)

// VerifRLPX runs the real encryption handshake on fd (receiver side when dial
// is nil) and returns the real framed, encrypted, authenticated transport.
func VerifRLPX(fd net.Conn, prv *ecdsa.PrivateKey, dial *discover.Node) (MsgReadWriter, discover.NodeID, error) {
	t := newRLPX(fd).(*rlpx)
	id, err := t.doEncHandshake(prv, dial)
	if err != nil {
		return nil, id, err
	}
	return t, id, nil
}
