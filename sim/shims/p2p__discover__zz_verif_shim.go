// Injected by /verif's build overlay (never written into the repository): exports the
// discovery protocol over an injected packet connection and its packet encoder.
package discover

import (
	"crypto/ecdsa"
	"net"
)

type VerifConn = conn

// VerifNewUDP starts the real discovery protocol (table, loop, readLoop) on c.
func VerifNewUDP(priv *ecdsa.PrivateKey, c VerifConn) (*Table, func()) {
	tab, u := newUDP(priv, c, nil, "")
	return tab, func() {
		defer func() { recover() }()
		u.close()
	}
}

func VerifEncodePing(priv *ecdsa.PrivateKey, version uint, from, to *net.UDPAddr, exp uint64) ([]byte, error) {
	return encodePacket(priv, pingPacket, &ping{Version: version, From: makeEndpoint(from, uint16(from.Port)), To: makeEndpoint(to, 0), Expiration: exp})
}
func VerifEncodePong(priv *ecdsa.PrivateKey, to *net.UDPAddr, tok []byte, exp uint64) ([]byte, error) {
	return encodePacket(priv, pongPacket, &pong{To: makeEndpoint(to, 0), ReplyTok: tok, Expiration: exp})
}
func VerifEncodeFindnode(priv *ecdsa.PrivateKey, target NodeID, exp uint64) ([]byte, error) {
	return encodePacket(priv, findnodePacket, &findnode{Target: target, Expiration: exp})
}
func VerifEncodeNeighbors(priv *ecdsa.PrivateKey, ids []NodeID, ip net.IP, exp uint64) ([]byte, error) {
	p := &neighbors{Expiration: exp}
	for i, id := range ids {
		p.Nodes = append(p.Nodes, rpcNode{IP: ip, UDP: uint16(30000 + i), TCP: uint16(30000 + i), ID: id})
	}
	return encodePacket(priv, neighborsPacket, p)
}

// VerifPacketType decodes a packet the node sent: 1 ping, 2 pong, 3 findnode, 4 neighbors, 0 undecodable.
func VerifPacketType(buf []byte) (byte, NodeID, int) {
	p, id, _, err := decodePacket(buf)
	if err != nil {
		return 0, id, 0
	}
	switch x := p.(type) {
	case *ping:
		return 1, id, 0
	case *pong:
		return 2, id, 0
	case *findnode:
		return 3, id, 0
	case *neighbors:
		return 4, id, len(x.Nodes)
	}
	return 0, id, 0
}

// VerifTableSize counts the nodes in the table's buckets.
func VerifTableSize(tab *Table) int {
	tab.mutex.Lock()
	defer tab.mutex.Unlock()
	n := 0
	for _, b := range tab.buckets {
		if b != nil {
			n += len(b.entries)
		}
	}
	return n
}
