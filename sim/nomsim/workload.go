package nomsim

import (
	g "github.com/zenon-network/go-zenon/chain/genesis/mock"
	"github.com/zenon-network/go-zenon/chain/nom"
	"github.com/zenon-network/go-zenon/common/types"
	"github.com/zenon-network/go-zenon/verifier"
	"github.com/zenon-network/go-zenon/vm/constants"

	"verif/sim/simnode"
)

// Mix are the integer weights of the client operation classes.
type Mix struct {
	Transfer, Receive, Flow, RandomCall, Spork int
}

var DefaultMix = Mix{Transfer: 3, Receive: 3, Flow: 7, RandomCall: 4, Spork: 1}

type Workload struct {
	W   *World
	G   *Gen
	Mix Mix
	// MaxOps is the largest number of client operations per slot
	MaxOps    int
	SporkMode SporkMode
	sporkDone map[types.Hash]bool
	// OnAccepted is called for every accepted client block
	OnAccepted func(b *nom.AccountBlock)
	// Huge adds, per Ops call, issuances of tokens with boundary supplies and calls moving amounts of
	// 2^63 and more (refund, burn, stake, donate, transfer)
	Huge bool
}

func NewWorkload(w *World, mode SporkMode) *Workload {
	return &Workload{W: w, G: NewGen(w), Mix: DefaultMix, MaxOps: 5, SporkMode: mode, sporkDone: map[types.Hash]bool{}}
}

// Ops performs a tape-chosen number of client operations against node n.
func (wl *Workload) Ops(n *simnode.Node) int {
	t := wl.W.R.T
	acc := 0
	// geometric count with mean ~MaxOps/2, capped; each iteration is one span
	t.Loop(wl.MaxOps, wl.MaxOps+2, 2*wl.MaxOps, func() {
		if wl.Op(n) {
			acc++
		}
	})
	if wl.Huge {
		if t.Choose(4) == 0 {
			FlowByName("issue-token").Run(wl.G, n)
		}
		t.Loop(1, 2, 3, func() {
			if FlowByName("huge-amount-call").Run(wl.G, n) != nil {
				acc++
			}
		})
	}
	return acc
}

func (wl *Workload) Op(n *simnode.Node) bool {
	t := wl.W.R.T
	var b *nom.AccountBlock
	switch t.Pick([]int{wl.Mix.Transfer, wl.Mix.Receive, wl.Mix.Flow, wl.Mix.RandomCall, wl.Mix.Spork}) {
	case 0:
		b, _ = wl.G.Transfer(n)
	case 1:
		return wl.G.ReceiveSome(n, 3) > 0
	case 2:
		b = wl.G.RandomFlow(n)
	case 3:
		b, _, _ = wl.G.RandomCall(n)
	case 4:
		b = wl.sporkOp(n)
	}
	if b != nil && wl.OnAccepted != nil {
		wl.OnAccepted(b)
	}
	return b != nil
}

func (wl *Workload) sporkOp(n *simnode.Node) *nom.AccountBlock {
	t := wl.W.R.T
	from := g.Spork.Address
	if t.Choose(5) == 0 {
		from = wl.G.user()
	}
	if wl.SporkMode == SporksDeclared {
		s := ImplementedSporks[t.Choose(len(ImplementedSporks))]
		b := wl.G.ActivateSpork(n, s.S.SporkId, from)
		if b != nil {
			wl.W.R.Probe("spork-activation-sent-" + s.Name)
		}
		return b
	}
	if t.Bool() {
		wl.G.seq++
		return wl.G.CreateSpork(n, from, "sim-spork-"+string(rune('a'+wl.G.seq%26)))
	}
	// never activate a run-created spork: its id is not implemented and the
	// node would (correctly) halt the process; C17 does that in a child process
	return nil
}

// ShortRewardKnobs shortens the reward-related protocol constants so that a run
// of a few hundred momentums spans several epochs. Restored when the world closes.
func (w *World) ShortRewardKnobs(rewardTimeLimit int64, updateMin uint64) {
	o1, o2 := constants.RewardTimeLimit, constants.UpdateMinNumMomentums
	constants.RewardTimeLimit = rewardTimeLimit
	constants.UpdateMinNumMomentums = updateMin
	w.OnClose(func() { constants.RewardTimeLimit, constants.UpdateMinNumMomentums = o1, o2 })
}

// ShortRevokeWindows shortens the lock / revoke cycles of pillar and sentinel collateral (protocol:
// 83+7 and 27+3 days) so that revocations happen inside a run. Restored when the world closes.
func (w *World) ShortRevokeWindows(pillarLock, pillarRevoke, sentinelLock, sentinelRevoke int64) {
	o1, o2, o3, o4 := constants.PillarEpochLockTime, constants.PillarEpochRevokeTime, constants.SentinelLockTimeWindow, constants.SentinelRevokeTimeWindow
	constants.PillarEpochLockTime, constants.PillarEpochRevokeTime = pillarLock, pillarRevoke
	constants.SentinelLockTimeWindow, constants.SentinelRevokeTimeWindow = sentinelLock, sentinelRevoke
	w.OnClose(func() {
		constants.PillarEpochLockTime, constants.PillarEpochRevokeTime, constants.SentinelLockTimeWindow, constants.SentinelRevokeTimeWindow = o1, o2, o3, o4
	})
}

// EnforceReceiverRule sets the height from which a receive must be made by the
// send's addressee (mainnet default is ~10.1M, beyond any simulated chain).
func (w *World) EnforceReceiverRule(h uint64) {
	o := verifier.ReceiverMismatchEnforcementHeight
	verifier.ReceiverMismatchEnforcementHeight = h
	w.OnClose(func() { verifier.ReceiverMismatchEnforcementHeight = o })
}

// BridgeAdmin makes a harness key the initial administrator of the bridge and
// liquidity contracts and shortens their governance delays, so that
// administrator-gated methods execute instead of failing the permission check.
// (exported protocol variables; restored when the world closes)
func (w *World) BridgeAdmin(admin types.Address, delay uint64, guardians int) {
	o1, o2, o3, o4, o5 := constants.InitialBridgeAdministrator, constants.MinAdministratorDelay, constants.MinSoftDelay, constants.MinUnhaltDurationInMomentums, constants.MinGuardians
	constants.InitialBridgeAdministrator = admin
	constants.MinAdministratorDelay = delay
	constants.MinSoftDelay = delay
	constants.MinUnhaltDurationInMomentums = delay
	constants.MinGuardians = guardians
	w.Admin = &admin
	w.OnClose(func() {
		constants.InitialBridgeAdministrator, constants.MinAdministratorDelay, constants.MinSoftDelay, constants.MinUnhaltDurationInMomentums, constants.MinGuardians = o1, o2, o3, o4, o5
	})
}
