package nomsim

import (
	"github.com/zenon-network/go-zenon/wallet"

	"verif/sim/simnode"
)

// Fork is a partition scenario: two groups of real nodes, each hosting some of
// the registered pillars, grow two real competing branches from a common prefix.
type Fork struct {
	W      *World
	WL     *Workload
	A, B   *simnode.Node // producers of the two sides
	XA, XB *simnode.Node // optional pillar-less observers attached to side A / B
	// ForkHeight is the height of the last common momentum
	ForkHeight uint64
	// Swing lets backers move their weight on one side only during Split
	Swing bool
	// Lifecycles registers and revokes pillars and sentinels on one side only during Split
	Lifecycles bool
}

// NewFork builds the nodes. split chooses which pillar keys go to side A (bitmask
// over the three mock pillars; both sides get at least one).
func NewFork(w *World, wl *Workload, split int, withXA, withXB bool) *Fork {
	keys := MockPillars()
	var ka, kb []*wallet.KeyPair
	masks := []int{1, 2, 4, 3, 5, 6}
	m := masks[split%len(masks)]
	for i, k := range keys {
		if m&(1<<i) != 0 {
			ka = append(ka, k)
		} else {
			kb = append(kb, k)
		}
	}
	f := &Fork{W: w, WL: wl}
	f.A = w.AddNode("A", ka, false)
	f.B = w.AddNode("B", kb, false)
	if withXA {
		f.XA = w.AddNode("XA", nil, false)
	}
	if withXB {
		f.XB = w.AddNode("XB", nil, false)
	}
	return f
}

func (f *Fork) SideA() []*simnode.Node {
	out := []*simnode.Node{f.A}
	if f.XA != nil {
		out = append(out, f.XA)
	}
	return out
}
func (f *Fork) SideB() []*simnode.Node {
	out := []*simnode.Node{f.B}
	if f.XB != nil {
		out = append(out, f.XB)
	}
	return out
}

// Common grows the common prefix for n slots with live gossip: both sides see
// everything (messages are flushed before every slot).
func (f *Fork) Common(n int, ops bool) {
	w := f.W
	w.Net.Gossip = true
	for i := 0; i < n; i++ {
		w.R.T.Span(func() {
			if ops {
				f.WL.G.RefreshTokens(f.A)
				f.WL.Ops(f.A)
			}
			w.Net.Flush()
			w.StepSlot()
			w.Net.Flush()
		})
	}
	// make sure everybody is on A's chain (B side may lag if a message was dropped)
	for _, n := range w.Nodes {
		if n != f.A && n.Up {
			w.Net.SyncFrom(f.A, n)
		}
	}
	f.ForkHeight = f.A.Height()
	for _, n := range w.Nodes {
		if n.Up && n.Height() < f.ForkHeight {
			f.ForkHeight = n.Height()
		}
	}
}

// Split partitions the sides and lets both grow for n slots, with client
// operations on both producers (different on each side).
func (f *Fork) Split(n int, opsA, opsB bool) {
	w := f.W
	w.Net.Partition(f.SideA(), f.SideB())
	defer func() { f.ForkHeight = CommonAncestor(f.A, f.B) }()
	for i := 0; i < n; i++ {
		w.R.T.Span(func() {
			if opsA {
				f.WL.G.RefreshTokens(f.A)
				f.WL.Ops(f.A)
			}
			if opsB {
				f.WL.G.RefreshTokens(f.B)
				f.WL.Ops(f.B)
			}
			if f.Swing && (i == 0 || w.R.T.Choose(3) == 0) { // the first slot of the split always: the branches differ from the start
				// the two branches rank the pillars differently
				side := []*simnode.Node{f.A, f.B}[w.R.T.Choose(2)]
				for k := 0; k < 3; k++ {
					if FlowByName("swing-weight").Run(f.WL.G, side) != nil {
						break
					}
				}
				f.WL.G.ReceiveSome(side, 3)
			}
			if f.Lifecycles && w.R.T.Choose(4) == 0 {
				// registrations and revocations of pillars and sentinels on one branch only
				side := []*simnode.Node{f.A, f.B}[w.R.T.Choose(2)]
				FlowByName([]string{"pillar-lifecycle", "sentinel-lifecycle"}[w.R.T.Choose(2)]).Run(f.WL.G, side)
			}
			w.Net.Flush()
			w.StepSlot()
			w.Net.Flush()
		})
	}
}

// Longer returns (winner, loser) producers by branch length; ok=false on a tie.
func (f *Fork) Longer() (win, lose *simnode.Node, ok bool) {
	ha, hb := f.A.Height(), f.B.Height()
	switch {
	case ha > hb:
		return f.A, f.B, true
	case hb > ha:
		return f.B, f.A, true
	}
	return f.A, f.B, false
}
