package nomsim

import (
	"crypto/ecdsa"
	"encoding/base64"
	"math/big"

	eabi "github.com/ethereum/go-ethereum/accounts/abi"
	ecommon "github.com/ethereum/go-ethereum/common"
	ecrypto "github.com/ethereum/go-ethereum/crypto"

	"github.com/zenon-network/go-zenon/chain/nom"
	zcrypto "github.com/zenon-network/go-zenon/common/crypto"
	"github.com/zenon-network/go-zenon/common/db"
	"github.com/zenon-network/go-zenon/common/types"
	"github.com/zenon-network/go-zenon/vm/constants"
	"github.com/zenon-network/go-zenon/vm/embedded/definition"

	"verif/sim/simnode"
)

// Bridge workload: a harness key administers the bridge (World.BridgeAdmin), another harness key is
// the TSS key that signs unwrap requests. The flows are inert until a run opts in with
// Gen.EnableBridge (they draw nothing from the tape before that), so checks that pick flows at random
// keep their behaviour.
//
// Setup sequence (order and message formats of vm/embedded/tests/z_bridge_test.go, activateBridgeStep1-5),
// advanced one step per invocation of the "bridge-setup" flow from what the bridge storage of the node
// shows (idempotent; it also repairs the configuration when random administrator calls damage it):
//   SetOrchestratorInfo                                   (administrator)
//   NominateGuardians, twice, AdministratorDelay apart    (time challenge)
//   ChangeTssECDSAPubKey(key,"",""), twice, SoftDelay apart (administrator path, time challenge)
//   SetNetwork                                            (administrator)
//   token.IssueToken + token.UpdateToken(owner = bridge)  (the token of the owned pair)
//   SetTokenPair per planned pair, each twice, SoftDelay apart (one pending challenge per method: pairs
//                                                         are configured one after the other)
//   Unhalt when halted; ProposeAdministrator by the guardians after an Emergency
// Independent steps are sent in the same slot; a call is received one momentum after it is confirmed.

const bridgeTokenName = "BridgeTok"

// BridgeFlowNames are the flows a run adds to its flow list after EnableBridge.
var BridgeFlowNames = []string{"bridge-setup", "bridge-wrap", "bridge-unwrap", "bridge-redeem", "bridge-revoke-unwrap", "bridge-replay", "bridge-retune"}

var (
	// fixed secp256k1 scalars: the TSS key, and a key that never is the TSS key (wrong signer)
	bridgeTssKey   = mustECDSA(0x01)
	bridgeOtherKey = mustECDSA(0x41)
	u256Ty, _      = eabi.NewType("uint256", "uint256", nil)
	ethAddrTy, _   = eabi.NewType("address", "address", nil)
)

func mustECDSA(first byte) *ecdsa.PrivateKey {
	b := make([]byte, 32)
	for i := range b {
		b[i] = first + byte(i)
	}
	k, err := ecrypto.ToECDSA(b)
	if err != nil {
		panic(err)
	}
	return k
}

// BridgeTssPubKey is the compressed public key (base64) the setup installs as TSS key.
func BridgeTssPubKey() string {
	return base64.StdEncoding.EncodeToString(ecrypto.CompressPubkey(&bridgeTssKey.PublicKey))
}

type BridgePairPlan struct {
	Zts          types.ZenonTokenStandard // zero until the owned token exists
	TokenAddress string
	Owned        bool
	MinAmount    *big.Int
	Fee          uint32
	RedeemDelay  uint32
}

// BridgeUnwrap is one unwrap request the workload created (registered or not).
type BridgeUnwrap struct {
	Class, Chain uint32
	Tx           types.Hash
	Log          uint32
	To           types.Address
	TokenAddress string
	Amount       *big.Int
	Signature    string
	Valid        bool // signed by the TSS key over exactly these fields
	SeenRedeemed bool // the storage showed it redeemed at some point
	SeenRevoked  bool
}

type BridgeState struct {
	Class, Chain uint32
	Contract     string
	Issuer       types.Address
	Guardians    []types.Address
	Pairs        []*BridgePairPlan
	Reqs         []*BridgeUnwrap
	lastSent     map[string]uint64
	issuerFunded bool
	SetupDone    bool
}

// EnableBridge opts the generator into the bridge flows. World.BridgeAdmin must have been called.
func (gn *Gen) EnableBridge() {
	if gn.Bridge != nil || gn.W.Admin == nil {
		return
	}
	t := gn.W.R.T
	bs := &BridgeState{Class: definition.EvmClass, Chain: 123, Contract: "0x323b5d4c32345ced77393b3530b1eed0f346429d", lastSent: map[string]uint64{}}
	if t.Choose(4) == 3 {
		bs.Class, bs.Chain = definition.NoMClass, 7
	}
	bs.Issuer = gn.W.Users[t.Choose(5)].Address
	k := constants.MinGuardians
	if k < 3 {
		k = 3
	}
	if k > len(gn.W.Users) {
		k = len(gn.W.Users)
	}
	for _, u := range gn.W.Users[:k] {
		bs.Guardians = append(bs.Guardians, u.Address)
	}
	delay := func() uint32 { return uint32(1 + t.Choose(10)) }
	notOwned := &BridgePairPlan{Zts: types.ZnnTokenStandard, TokenAddress: "0x5fbdb2315678afecb367f032d93f642f64180aa3", MinAmount: big.NewInt(100), Fee: uint32(15 * t.Choose(3)), RedeemDelay: delay()}
	owned := &BridgePairPlan{TokenAddress: "0x5aaaa2315678afecb367f032d93f642f64180aa3", Owned: true, MinAmount: big.NewInt(10), Fee: uint32(100 * t.Choose(3)), RedeemDelay: delay()}
	bs.Pairs = []*BridgePairPlan{notOwned, owned}
	if t.Bool() {
		bs.Pairs = []*BridgePairPlan{owned, notOwned}
	}
	if t.Choose(3) == 0 {
		bs.Pairs = append(bs.Pairs, &BridgePairPlan{Zts: types.QsrTokenStandard, TokenAddress: "0x6cccc2315678afecb367f032d93f642f64180aa3", MinAmount: big.NewInt(1), Fee: 0, RedeemDelay: delay()})
	}
	gn.Bridge = bs
}

func bridgeStorage(n *simnode.Node) db.DB {
	return n.Chain.GetFrontierMomentumStore().GetAccountStore(types.BridgeContract).Storage()
}

func (bs *BridgeState) ownedToken(n *simnode.Node) *definition.TokenInfo {
	list, err := definition.GetTokenInfoList(n.Chain.GetFrontierMomentumStore().GetAccountStore(types.TokenContract).Storage())
	if err != nil {
		return nil
	}
	for _, ti := range list {
		if ti.TokenName == bridgeTokenName {
			return ti
		}
	}
	return nil
}

// configured returns the token pairs the workload's network currently holds.
func (bs *BridgeState) configured(n *simnode.Node) []definition.TokenPair {
	ni, err := definition.GetNetworkInfoVariable(bridgeStorage(n), bs.Class, bs.Chain)
	if err != nil || ni == nil || len(ni.Name) == 0 {
		return nil
	}
	return ni.TokenPairs
}

func bridgeUnwrapDigest(class, chain uint32, tx types.Hash, log uint32, to types.Address, tokenAddress string, amount *big.Int) []byte {
	args := eabi.Arguments{{Type: u256Ty}, {Type: u256Ty}, {Type: u256Ty}, {Type: u256Ty}, {Type: u256Ty}, {Type: ethAddrTy}, {Type: u256Ty}}
	msg, err := args.PackValues([]interface{}{
		new(big.Int).SetUint64(uint64(class)), new(big.Int).SetUint64(uint64(chain)), new(big.Int).SetBytes(tx.Bytes()), new(big.Int).SetUint64(uint64(log)),
		new(big.Int).SetBytes(to.Bytes()), ecommon.HexToAddress(tokenAddress), amount})
	if err != nil {
		panic(err)
	}
	if class == definition.NoMClass {
		return zcrypto.Hash(msg) // sha3-256
	}
	inner := ecrypto.Keccak256(msg)
	return ecrypto.Keccak256(append([]byte("\x19Ethereum Signed Message:\n32"), inner...))
}

func bridgeSign(digest []byte, key *ecdsa.PrivateKey) string {
	sig, err := ecrypto.Sign(digest, key)
	if err != nil {
		panic(err)
	}
	return base64.StdEncoding.EncodeToString(sig)
}

func (u *BridgeUnwrap) data() []byte {
	return definition.ABIBridge.PackMethodPanic(definition.UnwrapTokenMethodName, u.Class, u.Chain, u.Tx, u.Log, u.To, u.TokenAddress, u.Amount, u.Signature)
}

// status of a request in the node's bridge storage
const (
	bridgeReqUnregistered = iota
	bridgeReqEarly
	bridgeReqDue
	bridgeReqRedeemed
	bridgeReqRevoked
)

// classify reads the request from the storage and tells whether a Redeem sent now would be due
// (a call sent at frontier F is executed against frontier F+1).
func (bs *BridgeState) classify(n *simnode.Node, u *BridgeUnwrap) int {
	st, err := definition.GetUnwrapTokenRequestByTxHashAndLog(bridgeStorage(n), u.Tx, u.Log)
	if err != nil || st == nil {
		return bridgeReqUnregistered
	}
	if st.Redeemed > 0 {
		u.SeenRedeemed = true
		return bridgeReqRedeemed
	}
	if st.Revoked > 0 {
		u.SeenRevoked = true
		return bridgeReqRevoked
	}
	delay := uint64(0)
	for _, p := range bs.configured(n) {
		if p.TokenAddress == st.TokenAddress {
			delay = uint64(p.RedeemDelay)
		}
	}
	if n.Height()+1 >= st.RegistrationMomentumHeight+delay {
		return bridgeReqDue
	}
	return bridgeReqEarly
}

func (bs *BridgeState) pick(gn *Gen, idx []int) *BridgeUnwrap {
	t := gn.W.R.T
	if len(idx) > 3 && t.Bool() {
		return bs.Reqs[idx[len(idx)-1-t.Choose(3)]] // recent ones
	}
	return bs.Reqs[idx[t.Choose(len(idx))]]
}

func (gn *Gen) bridgeSetup(n *simnode.Node) *nom.AccountBlock {
	bs := gn.Bridge
	st := bridgeStorage(n)
	fr := n.Height()
	info, err1 := definition.GetBridgeInfoVariable(st)
	sec, err2 := definition.GetSecurityInfoVariable(st)
	orch, err3 := definition.GetOrchestratorInfoVariable(st)
	if err1 != nil || err2 != nil || err3 != nil {
		return nil
	}
	var last *nom.AccountBlock
	zero := big.NewInt(0)
	send := func(tag, key string, from, to types.Address, z types.ZenonTokenStandard, amt *big.Int, data []byte) {
		if h, ok := bs.lastSent[tag]; ok && fr < h+2 {
			return // the previous attempt is still on its way
		}
		if b := gn.do(n, key, from, to, z, amt, data); b != nil {
			bs.lastSent[tag] = fr
			last = b
		}
	}
	admin := info.Administrator
	if admin.IsZero() {
		// after an Emergency the guardians vote the administrator back in
		for i, gd := range sec.Guardians {
			if gn.W.Keys[gd] != nil {
				send("propose-"+string(rune('a'+i)), "bridge.ProposeAdministrator", gd, types.BridgeContract, types.ZnnTokenStandard, zero,
					definition.ABIBridge.PackMethodPanic(definition.ProposeAdministratorMethodName, *gn.W.Admin))
			}
		}
		return last
	}
	if gn.W.Keys[admin] == nil {
		return nil
	}
	// a time-challenged method: the first call opens the challenge, the same call after the delay applies it
	challenged := func(tag, method string, delay uint64, data []byte) {
		tc, err := definition.GetTimeChallengeInfoVariable(st, method)
		if err == nil && tc != nil && !tc.ParamsHash.IsZero() && fr <= tc.ChallengeStartHeight+delay {
			return // a challenge is pending and not due yet
		}
		send(tag, "bridge."+method, admin, types.BridgeContract, types.ZnnTokenStandard, zero, data)
	}
	orchOk := orch.WindowSize != 0 && orch.KeyGenThreshold != 0 && orch.ConfirmationsToFinality != 0 && orch.EstimatedMomentumTime != 0
	if !orchOk {
		send("orch", "bridge.SetOrchestratorInfo", admin, types.BridgeContract, types.ZnnTokenStandard, zero,
			definition.ABIBridge.PackMethodPanic(definition.SetOrchestratorInfoMethodName, uint64(6), uint32(3), uint32(15), uint32(10)))
	}
	guardOk := len(sec.Guardians) >= constants.MinGuardians
	if !guardOk {
		challenged("guardians", definition.NominateGuardiansMethodName, sec.AdministratorDelay, definition.ABIBridge.PackMethodPanic(definition.NominateGuardiansMethodName, bs.Guardians))
	}
	ni, err := definition.GetNetworkInfoVariable(st, bs.Class, bs.Chain)
	netOk := err == nil && ni != nil && len(ni.Name) > 0
	if !netOk {
		send("network", "bridge.SetNetwork", admin, types.BridgeContract, types.ZnnTokenStandard, zero,
			definition.ABIBridge.PackMethodPanic(definition.SetNetworkMethodName, bs.Class, bs.Chain, "SimNet", bs.Contract, "{}"))
	}
	tok := bs.ownedToken(n)
	switch {
	case tok == nil:
		send("issue", "token.IssueToken", bs.Issuer, types.TokenContract, types.ZnnTokenStandard, new(big.Int).Set(constants.TokenIssueAmount),
			definition.ABIToken.PackMethodPanic(definition.IssueMethodName, bridgeTokenName, "BRT", "sim.test", big.NewInt(1000000), new(big.Int).Lsh(big.NewInt(1), 62), uint8(2), true, true, false))
	case tok.Owner == bs.Issuer:
		send("own", "token.UpdateToken", bs.Issuer, types.TokenContract, types.ZnnTokenStandard, zero,
			definition.ABIToken.PackMethodPanic(definition.UpdateTokenMethodName, tok.TokenStandard, types.BridgeContract, true, true))
	}
	if tok != nil && !bs.issuerFunded {
		// the issuer collects the issued supply, so that there is something to wrap
		if gn.balance(n, bs.Issuer, tok.TokenStandard).Sign() > 0 {
			bs.issuerFunded = true
		} else {
			for _, h := range gn.W.Unreceived(n, bs.Issuer, 5) {
				if b, err := gn.W.Receive(n, bs.Issuer, h); err == nil {
					gn.W.R.Logf("op: receive %s by %s -> %s", short(h.String()), short(bs.Issuer.String()), short(b.Hash.String()))
				}
			}
		}
	}
	tssOk := info.CompressedTssECDSAPubKey == BridgeTssPubKey()
	if !tssOk && orchOk && guardOk {
		challenged("tss", definition.ChangeTssECDSAPubKeyMethodName, sec.SoftDelay, definition.ABIBridge.PackMethodPanic(definition.ChangeTssECDSAPubKeyMethodName, BridgeTssPubKey(), "", ""))
	}
	if info.Halted {
		send("unhalt", "bridge.Unhalt", admin, types.BridgeContract, types.ZnnTokenStandard, zero, definition.ABIBridge.PackMethodPanic(definition.UnhaltMethodName))
	}
	pairsOk := netOk
	if netOk {
		for _, p := range bs.Pairs {
			if p.Owned && p.Zts == types.ZeroTokenStandard {
				if tok == nil {
					pairsOk = false
					continue
				}
				p.Zts = tok.TokenStandard
			}
			present := false
			for _, c := range ni.TokenPairs {
				if c.TokenStandard == p.Zts && c.TokenAddress == p.TokenAddress {
					present = true
				}
			}
			if present {
				continue
			}
			if pairsOk { // one pending SetTokenPair challenge at a time
				challenged("pair", definition.SetTokenPairMethod, sec.SoftDelay, definition.ABIBridge.PackMethodPanic(definition.SetTokenPairMethod,
					bs.Class, bs.Chain, p.Zts, p.TokenAddress, true, true, p.Owned, p.MinAmount, p.Fee, p.RedeemDelay, "{}"))
			}
			pairsOk = false
		}
	}
	done := orchOk && guardOk && tssOk && !info.Halted && pairsOk && tok != nil && tok.Owner == types.BridgeContract
	if done && !bs.SetupDone {
		gn.W.R.Probe("bridge-setup-completed")
		gn.W.R.Logf("bridge: setup completed at height %d", fr)
	}
	bs.SetupDone = bs.SetupDone || done
	return last
}

var bridgeEthRecipients = []string{"0xb794f5ea0ba39494ce839613fffba74279579268", "0xB794F5eA0ba39494cE839613fffBA74279579268", "b794f5ea0ba39494ce839613fffba74279579268", "0x00000000000000000000000000000000000000ff"}

func (gn *Gen) bridgeWrap(n *simnode.Node) *nom.AccountBlock {
	bs, t := gn.Bridge, gn.W.R.T
	pairs := bs.configured(n)
	if len(pairs) == 0 {
		return nil
	}
	p := pairs[t.Choose(len(pairs))]
	from := gn.user()
	if p.TokenStandard != types.ZnnTokenStandard && p.TokenStandard != types.QsrTokenStandard {
		// a holder of the token, when there is one
		var holders []types.Address
		for _, u := range gn.W.Users {
			if gn.balance(n, u.Address, p.TokenStandard).Sign() > 0 {
				holders = append(holders, u.Address)
			}
		}
		if len(holders) > 0 {
			from = holders[t.Choose(len(holders))]
		}
	}
	var amt *big.Int
	switch t.Choose(8) {
	case 7:
		amt = new(big.Int).Sub(p.MinAmount, big.NewInt(1)) // below the pair's minimum
	case 6:
		amt = new(big.Int).Set(p.MinAmount)
	default:
		if p.TokenStandard == types.ZnnTokenStandard || p.TokenStandard == types.QsrTokenStandard {
			amt = zx(int64(1 + t.Choose(300)))
		} else {
			amt = big.NewInt(int64(10 + t.Choose(20000)))
		}
	}
	to := bridgeEthRecipients[t.Choose(len(bridgeEthRecipients))]
	if t.Choose(12) == 0 {
		to = "0xnothex"
	}
	class, chain := bs.Class, bs.Chain
	if t.Choose(12) == 0 {
		chain++ // an unknown network
	}
	gn.W.R.Probe("bridge-wrap-sent")
	return gn.do(n, "bridge.WrapToken", from, types.BridgeContract, p.TokenStandard, amt, definition.ABIBridge.PackMethodPanic(definition.WrapTokenMethodName, class, chain, to))
}

func (gn *Gen) bridgeUnwrap(n *simnode.Node) *nom.AccountBlock {
	bs, t := gn.Bridge, gn.W.R.T
	info, err := definition.GetBridgeInfoVariable(bridgeStorage(n))
	pairs := bs.configured(n)
	if err != nil || len(info.DecompressedTssECDSAPubKey) == 0 || len(pairs) == 0 {
		return nil
	}
	if len(bs.Reqs) > 0 && t.Choose(5) == 0 {
		// the identical signed request once more
		idx := make([]int, len(bs.Reqs))
		for i := range idx {
			idx[i] = i
		}
		u := bs.pick(gn, idx)
		gn.W.R.Probe("bridge-duplicate-unwrap-attempted")
		return gn.do(n, "bridge.UnwrapToken", gn.user(), types.BridgeContract, types.ZnnTokenStandard, big.NewInt(0), u.data())
	}
	p := pairs[t.Choose(len(pairs))]
	u := &BridgeUnwrap{Class: bs.Class, Chain: bs.Chain, TokenAddress: p.TokenAddress, Log: uint32(t.Choose(4)), To: gn.user()}
	copy(u.Tx[:], t.Bytes(types.HashSize))
	if len(bs.Reqs) > 0 && t.Choose(5) == 0 {
		// the transaction of an earlier request: another log index, or the same one with other content
		u.Tx = bs.Reqs[t.Choose(len(bs.Reqs))].Tx
		gn.W.R.Probe("bridge-unwrap-same-transaction")
	}
	if t.Choose(6) == 0 {
		copy(u.To[:], t.Bytes(types.AddressSize))
		u.To[0] = 0 // user prefix
	}
	if t.Choose(6) == 0 {
		u.TokenAddress = "0x5FBDB2315678AFECB367F032D93F642F64180AA3" // other spelling of the first pair's address
		if t.Bool() {
			u.TokenAddress = "0x7ddddd315678afecb367f032d93f642f64180aa3" // no such pair
		}
	}
	if p.Owned {
		u.Amount = big.NewInt(int64(1 + t.Choose(100000)))
		if t.Choose(10) == 0 {
			u.Amount = new(big.Int).Lsh(big.NewInt(1), 63) // beyond the token's maximum supply: the mint fails
		}
	} else {
		bal := gn.balance(n, types.BridgeContract, p.TokenStandard)
		switch t.Choose(6) {
		case 5:
			u.Amount = new(big.Int).Add(bal, big.NewInt(1)) // more than the bridge holds
		case 4:
			u.Amount = big.NewInt(1)
		default:
			u.Amount = new(big.Int).Div(new(big.Int).Mul(bal, big.NewInt(int64(1+t.Choose(4)))), big.NewInt(8))
			if u.Amount.Sign() == 0 {
				u.Amount = big.NewInt(int64(1 + t.Choose(1000)))
			}
		}
	}
	digest := bridgeUnwrapDigest(u.Class, u.Chain, u.Tx, u.Log, u.To, u.TokenAddress, u.Amount)
	switch t.Choose(8) {
	case 7: // signed by a key that is not the TSS key
		u.Signature = bridgeSign(digest, bridgeOtherKey)
		gn.W.R.Probe("bridge-unwrap-wrong-signer")
	case 6: // a TSS signature of a request that differs in one field
		to, amount, log := u.To, u.Amount, u.Log
		switch t.Choose(3) {
		case 0:
			to = gn.user()
			if to == u.To {
				to[5] ^= 1
			}
		case 1:
			amount = new(big.Int).Add(amount, big.NewInt(1))
		default:
			log++
		}
		u.Signature = bridgeSign(bridgeUnwrapDigest(u.Class, u.Chain, u.Tx, log, to, u.TokenAddress, amount), bridgeTssKey)
		gn.W.R.Probe("bridge-unwrap-signature-of-other-request")
	default:
		u.Signature = bridgeSign(digest, bridgeTssKey)
		u.Valid = true
	}
	bs.Reqs = append(bs.Reqs, u)
	gn.W.R.Probe("bridge-unwrap-sent")
	gn.W.R.Logf("bridge: unwrap #%d tx %s log %d to %s token %s amount %v valid %v", len(bs.Reqs)-1, short(u.Tx.String()), u.Log, short(u.To.String()), u.TokenAddress, u.Amount, u.Valid)
	return gn.do(n, "bridge.UnwrapToken", gn.user(), types.BridgeContract, types.ZnnTokenStandard, big.NewInt(0), u.data())
}

func (gn *Gen) bridgeRedeem(n *simnode.Node) *nom.AccountBlock {
	bs, t := gn.Bridge, gn.W.R.T
	if len(bs.Reqs) == 0 {
		return nil
	}
	var byClass [5][]int
	for i, u := range bs.Reqs {
		c := bs.classify(n, u)
		byClass[c] = append(byClass[c], i)
	}
	weights := []int{1, 3, 5, 1, 1} // unregistered, early, due, redeemed, revoked
	for c := range weights {
		if len(byClass[c]) == 0 {
			weights[c] = 0
		}
	}
	c := t.Pick(weights)
	if len(byClass[c]) == 0 {
		return nil
	}
	u := bs.pick(gn, byClass[c])
	gn.W.R.Probe("bridge-redeem-sent-" + []string{"unregistered", "early", "due", "again", "revoked"}[c])
	from := gn.user() // anyone may redeem: the funds go to the request's recipient
	if gn.W.Keys[u.To] != nil && t.Bool() {
		from = u.To
	}
	return gn.do(n, "bridge.Redeem", from, types.BridgeContract, types.ZnnTokenStandard, big.NewInt(0), definition.ABIBridge.PackMethodPanic(definition.RedeemUnwrapMethodName, u.Tx, u.Log))
}

func (gn *Gen) bridgeRevoke(n *simnode.Node) *nom.AccountBlock {
	bs, t := gn.Bridge, gn.W.R.T
	if len(bs.Reqs) == 0 {
		return nil
	}
	var pending, all []int
	for i, u := range bs.Reqs {
		all = append(all, i)
		if c := bs.classify(n, u); c == bridgeReqEarly || c == bridgeReqDue {
			pending = append(pending, i)
		}
	}
	idx := all
	if len(pending) > 0 && t.Choose(4) != 0 {
		idx = pending
	}
	u := bs.pick(gn, idx)
	from := *gn.W.Admin
	if info, err := definition.GetBridgeInfoVariable(bridgeStorage(n)); err == nil && gn.W.Keys[info.Administrator] != nil {
		from = info.Administrator
	}
	if t.Choose(6) == 0 {
		from = gn.user()
	}
	gn.W.R.Probe("bridge-revoke-sent")
	return gn.do(n, "bridge.RevokeUnwrapRequest", from, types.BridgeContract, types.ZnnTokenStandard, big.NewInt(0), definition.ABIBridge.PackMethodPanic(definition.RevokeUnwrapRequestMethodName, u.Tx, u.Log))
}

// bridgeReplay re-submits the signed request of an unwrap that was redeemed already and, should the
// contract have registered it again, redeems it once it is due.
func (gn *Gen) bridgeReplay(n *simnode.Node) *nom.AccountBlock {
	bs := gn.Bridge
	var done []int
	for i, u := range bs.Reqs {
		bs.classify(n, u)
		if u.SeenRedeemed {
			done = append(done, i)
		}
	}
	if len(done) == 0 {
		return nil
	}
	u := bs.pick(gn, done)
	switch bs.classify(n, u) {
	case bridgeReqRedeemed:
		gn.W.R.Probe("bridge-replay-unwrap-sent")
		return gn.do(n, "bridge.UnwrapToken", gn.user(), types.BridgeContract, types.ZnnTokenStandard, big.NewInt(0), u.data())
	case bridgeReqDue:
		gn.W.R.Probe("bridge-replay-redeem-sent")
		return gn.do(n, "bridge.Redeem", gn.user(), types.BridgeContract, types.ZnnTokenStandard, big.NewInt(0), definition.ABIBridge.PackMethodPanic(definition.RedeemUnwrapMethodName, u.Tx, u.Log))
	}
	return nil
}

// bridgeRetune changes the redeem delay of a configured pair (two calls, SoftDelay apart, like the setup).
func (gn *Gen) bridgeRetune(n *simnode.Node) *nom.AccountBlock {
	bs, t := gn.Bridge, gn.W.R.T
	if !bs.SetupDone {
		return nil
	}
	st := bridgeStorage(n)
	info, err1 := definition.GetBridgeInfoVariable(st)
	sec, err2 := definition.GetSecurityInfoVariable(st)
	pairs := bs.configured(n)
	if err1 != nil || err2 != nil || gn.W.Keys[info.Administrator] == nil || len(pairs) == 0 {
		return nil
	}
	fr := n.Height()
	if h, ok := bs.lastSent["retune"]; ok && fr < h+2 {
		return nil
	}
	tc, err := definition.GetTimeChallengeInfoVariable(st, definition.SetTokenPairMethod)
	pending := err == nil && tc != nil && !tc.ParamsHash.IsZero()
	if pending && fr <= tc.ChallengeStartHeight+sec.SoftDelay {
		return nil
	}
	var plan *BridgePairPlan
	if pending {
		// complete the change that was opened: the plan holds the new delay already
		for _, p := range bs.Pairs {
			for _, c := range pairs {
				if c.TokenAddress == p.TokenAddress && c.RedeemDelay != p.RedeemDelay {
					plan = p
				}
			}
		}
		if plan == nil {
			return nil
		}
	} else {
		plan = bs.Pairs[t.Choose(len(bs.Pairs))]
		nd := uint32(1 + t.Choose(10))
		if plan.Zts == types.ZeroTokenStandard || nd == plan.RedeemDelay {
			return nil
		}
		plan.RedeemDelay = nd
	}
	b := gn.do(n, "bridge.SetTokenPair", info.Administrator, types.BridgeContract, types.ZnnTokenStandard, big.NewInt(0), definition.ABIBridge.PackMethodPanic(definition.SetTokenPairMethod,
		bs.Class, bs.Chain, plan.Zts, plan.TokenAddress, true, true, plan.Owned, plan.MinAmount, plan.Fee, plan.RedeemDelay, "{}"))
	if b != nil {
		bs.lastSent["retune"] = fr
		gn.W.R.Probe("bridge-retune-sent")
	}
	return b
}

func init() {
	guard := func(f func(gn *Gen, n *simnode.Node) *nom.AccountBlock) func(gn *Gen, n *simnode.Node) *nom.AccountBlock {
		return func(gn *Gen, n *simnode.Node) *nom.AccountBlock {
			if gn.Bridge == nil {
				return nil // the run did not opt in (Gen.EnableBridge)
			}
			return f(gn, n)
		}
	}
	Flows = append(Flows,
		Flow{"bridge-setup", guard((*Gen).bridgeSetup)},
		Flow{"bridge-wrap", guard((*Gen).bridgeWrap)},
		Flow{"bridge-unwrap", guard((*Gen).bridgeUnwrap)},
		Flow{"bridge-redeem", guard((*Gen).bridgeRedeem)},
		Flow{"bridge-revoke-unwrap", guard((*Gen).bridgeRevoke)},
		Flow{"bridge-replay", guard((*Gen).bridgeReplay)},
		Flow{"bridge-retune", guard((*Gen).bridgeRetune)},
	)
}
