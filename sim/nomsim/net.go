package nomsim

import (
	"container/heap"
	"fmt"
	"time"

	"github.com/zenon-network/go-zenon/chain/nom"

	"verif/sim/simnode"
)

// Net replaces p2p + ProtocolManager + fetcher + downloader. It moves the same
// payloads (*nom.AccountBlock, *nom.DetailedMomentum batches of at most 128) and
// calls the same ChainBridge methods the protocol handler calls.
type Net struct {
	W   *World
	q   msgHeap
	seq uint64

	// fault rates in percent (0..100), drawn per message from the tape
	DropPct  int
	DupPct   int
	DelayPct int // chance of an extra delay of 1..MaxDelaySlots slots (reordering)
	MaxDelay int // in slots
	// Gossip toggles live propagation (off: nodes only hear what a check delivers itself)
	Gossip bool
	// MaxBatch is the sync batch size (protocol: 128)
	MaxBatch int

	cut map[[2]string]bool

	// InsertErrs records every (index, error) a delivery got back
	OnInsert func(to *simnode.Node, batch []*nom.DetailedMomentum, idx int, err error)
}

type msgKind int

const (
	msgBlock msgKind = iota
	msgMomentum
)

type msg struct {
	at    time.Time
	seq   uint64
	kind  msgKind
	from  *simnode.Node
	to    *simnode.Node
	block *nom.AccountBlock
	mom   *nom.DetailedMomentum
}

type msgHeap []*msg

func (h msgHeap) Len() int { return len(h) }
func (h msgHeap) Less(i, j int) bool {
	if !h[i].at.Equal(h[j].at) {
		return h[i].at.Before(h[j].at)
	}
	return h[i].seq < h[j].seq
}
func (h msgHeap) Swap(i, j int) { h[i], h[j] = h[j], h[i] }
func (h *msgHeap) Push(x any)   { *h = append(*h, x.(*msg)) }
func (h *msgHeap) Pop() any {
	o := *h
	x := o[len(o)-1]
	*h = o[:len(o)-1]
	return x
}

func newNet(w *World) *Net {
	return &Net{W: w, Gossip: true, MaxBatch: 128, MaxDelay: 3, cut: map[[2]string]bool{}}
}

func (nt *Net) Pending() int { return nt.q.Len() }

func link(a, b *simnode.Node) [2]string {
	if a.Name < b.Name {
		return [2]string{a.Name, b.Name}
	}
	return [2]string{b.Name, a.Name}
}

// Partition cuts every link between the two groups; Heal restores all links.
func (nt *Net) Partition(a, b []*simnode.Node) {
	for _, x := range a {
		for _, y := range b {
			nt.cut[link(x, y)] = true
		}
	}
	nt.W.R.Fault("partition")
	nt.W.R.Logf("net: partition %v | %v", names(a), names(b))
}
func (nt *Net) Heal() {
	if len(nt.cut) > 0 {
		nt.W.R.Fault("heal")
		nt.W.R.Logf("net: heal")
	}
	nt.cut = map[[2]string]bool{}
}
func (nt *Net) Connected(a, b *simnode.Node) bool { return !nt.cut[link(a, b)] }

func names(ns []*simnode.Node) []string {
	var out []string
	for _, n := range ns {
		out = append(out, n.Name)
	}
	return out
}

func (nt *Net) send(m *msg) {
	t := nt.W.R.T
	if !nt.Connected(m.from, m.to) {
		nt.W.R.Fault("msg-cut-by-partition")
		return
	}
	if nt.DropPct > 0 && t.Prob(nt.DropPct, 100) {
		nt.W.R.Fault("msg-drop")
		return
	}
	m.at = time.Now().Add(time.Duration(1+t.Choose(3)) * time.Second)
	if nt.DelayPct > 0 && t.Prob(nt.DelayPct, 100) {
		m.at = m.at.Add(time.Duration(1+t.Choose(nt.MaxDelay)) * SlotSeconds * time.Second)
		nt.W.R.Fault("msg-delay")
	}
	nt.seq++
	m.seq = nt.seq
	heap.Push(&nt.q, m)
	if nt.DupPct > 0 && t.Prob(nt.DupPct, 100) {
		d := *m
		d.at = m.at.Add(time.Duration(1+t.Choose(2*SlotSeconds)) * time.Second)
		nt.seq++
		d.seq = nt.seq
		heap.Push(&nt.q, &d)
		nt.W.R.Fault("msg-dup")
	}
}

func (nt *Net) gossipBlock(from *simnode.Node, b *nom.AccountBlock) {
	if !nt.Gossip {
		return
	}
	for _, to := range nt.W.Nodes {
		if to != from {
			nt.send(&msg{kind: msgBlock, from: from, to: to, block: b})
		}
	}
}

func (nt *Net) gossipMomentum(from *simnode.Node, d *nom.DetailedMomentum) {
	if !nt.Gossip {
		return
	}
	for _, to := range nt.W.Nodes {
		if to != from {
			nt.send(&msg{kind: msgMomentum, from: from, to: to, mom: d})
		}
	}
}

// DeliverDue delivers every message whose time has come (by the bubble clock).
func (nt *Net) DeliverDue() {
	now := time.Now()
	for nt.q.Len() > 0 && !nt.q[0].at.After(now) {
		m := heap.Pop(&nt.q).(*msg)
		nt.deliver(m)
	}
}

// Flush delivers everything still in flight, in order, ignoring delays.
func (nt *Net) Flush() {
	for nt.q.Len() > 0 {
		m := heap.Pop(&nt.q).(*msg)
		nt.deliver(m)
	}
}

func (nt *Net) deliver(m *msg) {
	r := nt.W.R
	if !m.to.Up {
		r.Fault("msg-to-down-node")
		return
	}
	switch m.kind {
	case msgBlock:
		err := m.to.Bridge.AddAccountBlocks([]*nom.AccountBlock{m.block})
		r.Logf("net: block %s %s/%d -> %s err=%v", short(m.block.Hash.String()), short(m.block.Address.String()), m.block.Height, m.to.Name, errStr(err))
	case msgMomentum:
		nt.deliverMomentum(m.from, m.to, m.mom)
	}
}

// deliverMomentum is the fetcher/downloader decision: import when it links to
// the frontier, otherwise synchronise with the sender when it is ahead.
func (nt *Net) deliverMomentum(from, to *simnode.Node, d *nom.DetailedMomentum) {
	r := nt.W.R
	if to.Bridge.HasBlock(d.Momentum.Hash) {
		return
	}
	fr := to.Frontier()
	if d.Momentum.PreviousHash == fr.Hash {
		idx, err := to.Bridge.InsertChain([]*nom.DetailedMomentum{d})
		r.Logf("net: momentum %d %s -> %s idx=%d err=%v", d.Momentum.Height, short(d.Momentum.Hash.String()), to.Name, idx, errStr(err))
		if nt.OnInsert != nil {
			nt.OnInsert(to, []*nom.DetailedMomentum{d}, idx, err)
		}
		return
	}
	if d.Momentum.Height <= fr.Height {
		return
	}
	nt.SyncFrom(from, to)
}

// SyncFrom makes `to` download from `from` starting at their common ancestor,
// in batches of at most MaxBatch, stopping at the first failing batch.
func (nt *Net) SyncFrom(from, to *simnode.Node) {
	r := nt.W.R
	if !from.Up || !to.Up || !nt.Connected(from, to) {
		return
	}
	fh := from.Height()
	th := to.Height()
	if fh <= th {
		return
	}
	h := CommonAncestor(from, to)
	r.Probe("sync")
	if h < th {
		r.Probe("sync-fork")
	}
	first := true
	for start := h + 1; start <= fh; {
		end := start + uint64(nt.MaxBatch) - 1
		if first && h < th && end <= th {
			// a side chain is only adopted when the delivered batch itself ends
			// above the local frontier; the real downloader fetches up to 128
			// momentums per batch, which always covers the 30-deep window
			end = start + 127
		}
		first = false
		if end > fh {
			end = fh
		}
		batch := from.Batch(start, end)
		if len(batch) == 0 {
			return
		}
		idx, err := to.Bridge.InsertChain(batch)
		r.Logf("net: sync %s -> %s [%d..%d] idx=%d err=%v", from.Name, to.Name, start, end, idx, errStr(err))
		if nt.OnInsert != nil {
			nt.OnInsert(to, batch, idx, err)
		}
		if err != nil {
			return
		}
		start = end + 1
	}
}

// CommonAncestor is the height of the last momentum two nodes share.
func CommonAncestor(a, b *simnode.Node) uint64 {
	h := a.Height()
	if bh := b.Height(); bh < h {
		h = bh
	}
	for ; h >= 1; h-- {
		x, _ := a.Bridge.GetBlockByNumber(h)
		y, _ := b.Bridge.GetBlockByNumber(h)
		if x != nil && y != nil && x.Hash == y.Hash {
			break
		}
	}
	return h
}

func short(s string) string {
	if len(s) > 8 {
		return s[:8]
	}
	return s
}

func errStr(err error) string {
	if err == nil {
		return "nil"
	}
	s := err.Error()
	if len(s) > 120 {
		s = s[:120]
	}
	return s
}

var _ = fmt.Sprintf
