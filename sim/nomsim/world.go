// Package nomsim is engine A: several real nodes in one bubble, a slot clock, a
// simulated transport with faults, keyed clients and the operation generators.
package nomsim

import (
	"os"
	"fmt"
	"math/big"
	"time"

	"github.com/zenon-network/go-zenon/chain/genesis"
	g "github.com/zenon-network/go-zenon/chain/genesis/mock"
	"github.com/zenon-network/go-zenon/chain/nom"
	"github.com/zenon-network/go-zenon/common/types"
	"github.com/zenon-network/go-zenon/consensus"
	"github.com/zenon-network/go-zenon/vm/constants"
	"github.com/zenon-network/go-zenon/wallet"

	"verif/sim/simnode"
	"verif/sim/simrt"
)

const SlotSeconds = 10

// Globals of the repository that a run configures. They are process-wide, so a
// run sets them before any node exists and restores them when it ends.
type Knobs struct {
	EpochDuration time.Duration
}

type World struct {
	R     *simrt.Run
	Gen   *genesis.GenesisConfig
	Nodes []*simnode.Node
	Slot  int64 // next slot to be driven; slot s starts at genesis + 10*s seconds
	Keys  map[types.Address]*wallet.KeyPair
	Users []*wallet.KeyPair
	// NonceNoise: some submitted blocks carry a nonce although they claim no proof of work
	NonceNoise bool

	Net *Net

	// Admin is the bridge/liquidity administrator when a run installed one
	Admin *types.Address

	// AckDepth, when set, chooses how many momentums below the frontier a
	// client block acknowledges (0 = frontier)
	AckDepth func() int

	restore []func()
}

func GenesisTime() time.Time { return time.Unix(simrt.GenesisUnix, 0) }

// MockPillars are the three producing keys registered in the mock genesis.
func MockPillars() []*wallet.KeyPair { return []*wallet.KeyPair{g.Pillar1, g.Pillar2, g.Pillar3} }

func NewWorld(r *simrt.Run, gen *genesis.GenesisConfig) *World {
	w := &World{R: r, Gen: gen, Keys: map[types.Address]*wallet.KeyPair{}, Slot: 1}
	for _, k := range g.AllKeyPairs {
		w.Keys[k.Address] = k
	}
	w.Users = []*wallet.KeyPair{g.User1, g.User2, g.User3, g.User4, g.User5, g.Pillar4, g.Pillar5, g.Pillar6, g.Pillar7, g.Pillar8, g.Spork}
	w.Net = newNet(w)
	r.Cleanup(w.Close)
	return w
}

// SetEpochDuration shortens epochs for the run (process global, restored at end).
func (w *World) SetEpochDuration(d time.Duration) {
	old := consensus.EpochDuration
	consensus.EpochDuration = d
	w.restore = append(w.restore, func() { consensus.EpochDuration = old })
}

// SetGlobal records a restore action for any other process global a run changes.
func (w *World) OnClose(f func()) { w.restore = append(w.restore, f) }

func (w *World) Close() {
	for _, n := range w.Nodes {
		if n.Up {
			n.Stop()
		}
	}
	for i := len(w.restore) - 1; i >= 0; i-- {
		w.restore[i]()
	}
	w.restore = nil
}

func (w *World) AddNode(name string, pillars []*wallet.KeyPair, consOnDisk bool) *simnode.Node {
	n := simnode.New(w.R, name, simnode.Config{Genesis: w.Gen, PillarKeys: pillars, ConsensusOnDisk: consOnDisk})
	n.MustOpen()
	n.OnMomentum = w.Net.gossipMomentum
	n.OnBlock = w.Net.gossipBlock
	w.Nodes = append(w.Nodes, n)
	return n
}

func (w *World) SlotTime(s int64) time.Time {
	return GenesisTime().Add(time.Duration(s*SlotSeconds) * time.Second)
}

// AdvanceTo moves the simulated clock to the start of slot s (never backwards).
func (w *World) AdvanceTo(s int64) {
	t := w.SlotTime(s)
	if d := t.Sub(time.Now()); d > 0 {
		time.Sleep(d)
	}
}

// StepSlot drives the next slot: the clock moves to the slot start and every
// live node that hosts the elected pillar (as that node sees the election) runs
// the real producer path. Returns the nodes that produced.
func (w *World) StepSlot() []*simnode.Node {
	s := w.Slot
	w.Slot++
	w.AdvanceTo(s)
	t := w.SlotTime(s)
	var produced []*simnode.Node
	for _, n := range w.Nodes {
		if !n.Up || len(n.Pillars) == 0 {
			continue
		}
		h0 := n.Height()
		ok, err := n.ProduceAt(t)
		if err != nil {
			w.R.Logf("slot %d node %s: election error %v", s, n.Name, err)
			continue
		}
		if ok {
			h1 := n.Height()
			w.R.Logf("slot %d node %s produced: height %d -> %d (%s)", s, n.Name, h0, h1, n.Frontier().Hash.String()[:8])
			if os.Getenv("VERIF_DUMP_LOG") != "" { // development aid (not part of the digest otherwise)
				for h := h0 + 1; h <= h1; h++ {
					if d := n.Detailed(h); d != nil {
						c := ""
						for _, b := range d.AccountBlocks {
							c += fmt.Sprintf(" %s/%d:%s", b.Address.String()[:8], b.Height, b.Hash.String()[:6])
						}
						w.R.Logf("  momentum %d ts %d content:%s", h, d.Momentum.TimestampUnix, c)
					}
				}
			}
			produced = append(produced, n)
		}
	}
	return produced
}

// SkipSlots lets time pass without any production (missed slots).
func (w *World) SkipSlots(k int64) {
	w.Slot += k
	w.AdvanceTo(w.Slot)
}

// ---- clients ----

type SendResult struct {
	Block *nom.AccountBlock
	Err   error
}

// Submit builds, signs and publishes a user block on node n the way a wallet
// does through the node (GenerateFromTemplate + broadcaster insert + gossip).
func (w *World) Submit(n *simnode.Node, template *nom.AccountBlock) (*nom.AccountBlock, error) {
	kp := w.Keys[template.Address]
	if kp == nil {
		return nil, fmt.Errorf("no key for %v", template.Address)
	}
	if w.AckDepth != nil && template.MomentumAcknowledged.IsZero() {
		if d := uint64(w.AckDepth()); d > 0 {
			fr := n.Height()
			target := uint64(1)
			if fr > d {
				target = fr - d
			}
			// never older than what the account's previous block acknowledged
			if prev, err := n.Chain.GetFrontierAccountStore(template.Address).Frontier(); err == nil && prev != nil && prev.MomentumAcknowledged.Height > target {
				target = prev.MomentumAcknowledged.Height
			}
			if m, err := n.Chain.GetFrontierMomentumStore().GetMomentumByHeight(target); err == nil && m != nil && target < fr {
				template.MomentumAcknowledged = m.Identifier()
				w.R.Probe("acknowledged-below-frontier")
			}
		}
	}
	if w.NonceNoise && template.Difficulty == 0 && w.R.T.Choose(6) == 0 {
		// unusual but legal: a nonce on a block that claims no proof of work (the nonce is a hashed field)
		copy(template.Nonce.Data[:], w.R.T.Bytes(8))
		w.R.Probe("block-with-nonce-but-no-difficulty")
	}
	tx, err := n.Sup.GenerateFromTemplate(template, kp.Signer)
	if err != nil {
		return nil, err
	}
	before := n.OwnBlockErrs
	n.CreateAccountBlock(tx)
	if n.OwnBlockErrs != before {
		return nil, fmt.Errorf("pool refused own block")
	}
	return tx.Block, nil
}

func (w *World) Send(n *simnode.Node, from, to types.Address, zts types.ZenonTokenStandard, amount *big.Int, data []byte) (*nom.AccountBlock, error) {
	return w.Submit(n, &nom.AccountBlock{BlockType: nom.BlockTypeUserSend, Address: from, ToAddress: to, TokenStandard: zts, Amount: amount, Data: data})
}

func (w *World) Receive(n *simnode.Node, who types.Address, from types.Hash) (*nom.AccountBlock, error) {
	return w.Submit(n, &nom.AccountBlock{BlockType: nom.BlockTypeUserReceive, Address: who, FromBlockHash: from})
}

// Unreceived lists confirmed sends waiting for a user account on node n.
func (w *World) Unreceived(n *simnode.Node, who types.Address, atMost uint64) []types.Hash {
	hs, err := n.Chain.GetFrontierMomentumStore().GetAccountMailbox(who).GetUnreceivedAccountBlockHashes(atMost)
	if err != nil {
		return nil
	}
	return hs
}

var _ = constants.MaxPlasmaForAccountBlock
