package nomsim

import (
	"sort"
	"crypto/sha256"
	"fmt"
	"math/big"
	"time"

	g "github.com/zenon-network/go-zenon/chain/genesis/mock"
	"github.com/zenon-network/go-zenon/chain/nom"
	"github.com/zenon-network/go-zenon/common/crypto"
	"github.com/zenon-network/go-zenon/common/types"
	"github.com/zenon-network/go-zenon/vm/constants"
	"github.com/zenon-network/go-zenon/vm/embedded/definition"

	"verif/sim/simnode"
	"verif/sim/tape"
)

// Flows are state-aware operations that are usually accepted and executed (the
// generic RandomCall mostly exercises validation and refunds). Each returns the
// accepted send block or nil.

type Flow struct {
	Name string
	Run  func(gn *Gen, n *simnode.Node) *nom.AccountBlock
}

func zx(v int64) *big.Int { return new(big.Int).Mul(big.NewInt(v), big.NewInt(g.Zexp)) }

func (gn *Gen) do(n *simnode.Node, key string, from, to types.Address, z types.ZenonTokenStandard, amt *big.Int, data []byte) *nom.AccountBlock {
	b, _, _ := gn.submitCall(n, key, from, to, z, amt, data)
	if b != nil {
		gn.Owner[b.Hash] = from
	}
	return b
}

// ownerOf returns the creator of an entry most of the time, someone else sometimes.
func (gn *Gen) ownerOf(id types.Hash) types.Address {
	if o, ok := gn.Owner[id]; ok && gn.W.R.T.Choose(6) != 0 {
		return o
	}
	return gn.user()
}

var Flows = []Flow{
	{"fuse", func(gn *Gen, n *simnode.Node) *nom.AccountBlock {
		t := gn.W.R.T
		from := gn.user()
		amt := zx(int64(10 + t.Choose(200)))
		if t.Choose(6) == 0 {
			amt = zx(int64(t.Choose(10))) // below minimum
		}
		return gn.do(n, "plasma.Fuse", from, types.PlasmaContract, types.QsrTokenStandard, amt, definition.ABIPlasma.PackMethodPanic(definition.FuseMethodName, gn.user()))
	}},
	{"cancel-fuse", func(gn *Gen, n *simnode.Node) *nom.AccountBlock {
		id := gn.someId(types.PlasmaContract)
		return gn.do(n, "plasma.CancelFuse", gn.ownerOf(id), types.PlasmaContract, types.ZnnTokenStandard, big.NewInt(0), definition.ABIPlasma.PackMethodPanic(definition.CancelFuseMethodName, id))
	}},
	{"stake", func(gn *Gen, n *simnode.Node) *nom.AccountBlock {
		t := gn.W.R.T
		dur := constants.StakeTimeUnitSec * int64(1+t.Choose(12))
		return gn.do(n, "stake.Stake", gn.user(), types.StakeContract, types.ZnnTokenStandard, zx(int64(1+t.Choose(300))), definition.ABIStake.PackMethodPanic(definition.StakeMethodName, dur))
	}},
	{"cancel-stake", func(gn *Gen, n *simnode.Node) *nom.AccountBlock {
		id := gn.someId(types.StakeContract)
		return gn.do(n, "stake.Cancel", gn.ownerOf(id), types.StakeContract, types.ZnnTokenStandard, big.NewInt(0), definition.ABIStake.PackMethodPanic(definition.CancelStakeMethodName, id))
	}},
	{"delegate", func(gn *Gen, n *simnode.Node) *nom.AccountBlock {
		name := gn.PillarNames[gn.W.R.T.Choose(len(gn.PillarNames))]
		return gn.do(n, "pillar.Delegate", gn.user(), types.PillarContract, types.ZnnTokenStandard, big.NewInt(0), definition.ABIPillars.PackMethodPanic(definition.DelegateMethodName, name))
	}},
	{"undelegate", func(gn *Gen, n *simnode.Node) *nom.AccountBlock {
		return gn.do(n, "pillar.Undelegate", gn.user(), types.PillarContract, types.ZnnTokenStandard, big.NewInt(0), definition.ABIPillars.PackMethodPanic(definition.UndelegateMethodName))
	}},
	{"deposit-qsr", func(gn *Gen, n *simnode.Node) *nom.AccountBlock {
		t := gn.W.R.T
		c := types.PillarContract
		amt := zx(int64(1000 * (1 + t.Choose(160))))
		if t.Bool() {
			c = types.SentinelContract
			amt = zx(int64(1000 * (1 + t.Choose(60))))
		}
		return gn.do(n, "common.DepositQsr", gn.richUser(), c, types.QsrTokenStandard, amt, definition.ABICommon.PackMethodPanic(definition.DepositQsrMethodName))
	}},
	{"withdraw-qsr", func(gn *Gen, n *simnode.Node) *nom.AccountBlock {
		c := types.PillarContract
		if gn.W.R.T.Bool() {
			c = types.SentinelContract
		}
		return gn.do(n, "common.WithdrawQsr", gn.richUser(), c, types.ZnnTokenStandard, big.NewInt(0), definition.ABICommon.PackMethodPanic(definition.WithdrawQsrMethodName))
	}},
	{"register-pillar", func(gn *Gen, n *simnode.Node) *nom.AccountBlock {
		t := gn.W.R.T
		from := gn.richUser()
		gn.seq++
		name := fmt.Sprintf("sim-pillar-%d", gn.seq)
		producer := from
		if t.Choose(4) == 0 {
			producer = gn.user()
		}
		b := gn.do(n, "pillar.Register", from, types.PillarContract, types.ZnnTokenStandard, new(big.Int).Set(constants.PillarStakeAmount),
			definition.ABIPillars.PackMethodPanic(definition.RegisterMethodName, name, producer, gn.user(), pct(t), pct(t)))
		if b != nil {
			gn.PillarNames = append(gn.PillarNames, name)
			gn.NameOwner[name] = from
		}
		return b
	}},
	{"revoke-pillar", func(gn *Gen, n *simnode.Node) *nom.AccountBlock {
		name := gn.PillarNames[gn.W.R.T.Choose(len(gn.PillarNames))]
		if name == g.Pillar1Name {
			// one producing pillar always stays: with no active pillar at all the election of the
			// pinned tree spins for ever (consensus/election_algorithm.go filterRandom), see DESIGN
			return nil
		}
		from, ok := gn.NameOwner[name]
		if !ok || gn.W.R.T.Choose(6) == 0 {
			from = gn.user()
		}
		return gn.do(n, "pillar.Revoke", from, types.PillarContract, types.ZnnTokenStandard, big.NewInt(0), definition.ABIPillars.PackMethodPanic(definition.RevokeMethodName, name))
	}},
	{"update-pillar", func(gn *Gen, n *simnode.Node) *nom.AccountBlock {
		t := gn.W.R.T
		name := gn.PillarNames[t.Choose(len(gn.PillarNames))]
		from, ok := gn.NameOwner[name]
		if !ok {
			from = gn.user()
		}
		return gn.do(n, "pillar.UpdatePillar", from, types.PillarContract, types.ZnnTokenStandard, big.NewInt(0),
			definition.ABIPillars.PackMethodPanic(definition.UpdatePillarMethodName, name, gn.user(), gn.user(), pct(t), pct(t)))
	}},
	{"register-sentinel", func(gn *Gen, n *simnode.Node) *nom.AccountBlock {
		return gn.do(n, "sentinel.Register", gn.richUser(), types.SentinelContract, types.ZnnTokenStandard, new(big.Int).Set(constants.SentinelZnnRegisterAmount),
			definition.ABISentinel.PackMethodPanic(definition.RegisterSentinelMethodName))
	}},
	{"revoke-sentinel", func(gn *Gen, n *simnode.Node) *nom.AccountBlock {
		return gn.do(n, "sentinel.Revoke", gn.richUser(), types.SentinelContract, types.ZnnTokenStandard, big.NewInt(0),
			definition.ABISentinel.PackMethodPanic(definition.RevokeSentinelMethodName))
	}},
	{"issue-token", func(gn *Gen, n *simnode.Node) *nom.AccountBlock {
		t := gn.W.R.T
		gn.seq++
		total := big.NewInt(int64(t.Choose(1000000)))
		max := new(big.Int).Add(total, big.NewInt(int64(t.Choose(1000000))))
		mintable := t.Bool()
		if !mintable {
			max = new(big.Int).Set(total)
		}
		if t.Choose(8) == 0 {
			max = new(big.Int).Set(bigBoundaries[t.Choose(len(bigBoundaries))])
		}
		if t.Choose(5) == 0 {
			// a token whose whole supply is a boundary value: amounts beyond 63 / 64 / 255 bits travel through
			// transfers, calls, refunds and burns
			total = new(big.Int).Set(bigBoundaries[t.Choose(len(bigBoundaries))])
			max = new(big.Int).Set(total)
			if mintable && t.Bool() {
				max = new(big.Int).Set(bigBoundaries[t.Choose(len(bigBoundaries))])
			}
			gn.W.R.Probe("issue-boundary-supply-attempted")
		}
		return gn.do(n, "token.IssueToken", gn.user(), types.TokenContract, types.ZnnTokenStandard, new(big.Int).Set(constants.TokenIssueAmount),
			definition.ABIToken.PackMethodPanic(definition.IssueMethodName, fmt.Sprintf("Tok%d", gn.seq), fmt.Sprintf("T%d", gn.seq%1000), "sim.test", total, max, uint8(t.Choose(19)), mintable, t.Bool(), t.Bool()))
	}},
	{"mint", func(gn *Gen, n *simnode.Node) *nom.AccountBlock {
		t := gn.W.R.T
		z := gn.token()
		from := gn.user()
		if ti := gn.tokenInfo(n, z); ti != nil && t.Choose(5) != 0 {
			from = ti.Owner
		}
		amt := big.NewInt(int64(t.Choose(100000)))
		if t.Choose(6) == 0 {
			amt = new(big.Int).Set(bigBoundaries[t.Choose(len(bigBoundaries))])
		}
		if gn.W.Keys[from] == nil {
			from = gn.user()
		}
		return gn.do(n, "token.Mint", from, types.TokenContract, types.ZnnTokenStandard, big.NewInt(0), definition.ABIToken.PackMethodPanic(definition.MintMethodName, z, amt, gn.anyAddress()))
	}},
	{"burn", func(gn *Gen, n *simnode.Node) *nom.AccountBlock {
		z := gn.token()
		from := gn.user()
		if ti := gn.tokenInfo(n, z); ti != nil && gn.W.R.T.Bool() && gn.W.Keys[ti.Owner] != nil {
			from = ti.Owner
		}
		return gn.do(n, "token.Burn", from, types.TokenContract, z, gn.amount(n, from, z), definition.ABIToken.PackMethodPanic(definition.BurnMethodName))
	}},
	{"update-token", func(gn *Gen, n *simnode.Node) *nom.AccountBlock {
		t := gn.W.R.T
		z := gn.token()
		from := gn.user()
		if ti := gn.tokenInfo(n, z); ti != nil && t.Choose(5) != 0 && gn.W.Keys[ti.Owner] != nil {
			from = ti.Owner
		}
		return gn.do(n, "token.UpdateToken", from, types.TokenContract, types.ZnnTokenStandard, big.NewInt(0), definition.ABIToken.PackMethodPanic(definition.UpdateTokenMethodName, z, gn.user(), t.Bool(), t.Bool()))
	}},
	{"update-contract", func(gn *Gen, n *simnode.Node) *nom.AccountBlock {
		cs := types.EmbeddedWUpdate
		c := cs[gn.W.R.T.Choose(len(cs))]
		return gn.do(n, "common.Update", gn.user(), c, types.ZnnTokenStandard, big.NewInt(0), definition.ABICommon.PackMethodPanic(definition.UpdateMethodName))
	}},
	{"collect-reward", func(gn *Gen, n *simnode.Node) *nom.AccountBlock {
		cs := []types.Address{types.PillarContract, types.SentinelContract, types.StakeContract, types.LiquidityContract}
		c := cs[gn.W.R.T.Choose(len(cs))]
		from := gn.user()
		if gn.W.R.T.Choose(3) == 0 {
			ks := MockPillars()
			from = ks[gn.W.R.T.Choose(len(ks))].Address
		}
		return gn.do(n, "common.CollectReward", from, c, types.ZnnTokenStandard, big.NewInt(0), definition.ABICommon.PackMethodPanic(definition.CollectRewardMethodName))
	}},
	{"donate", func(gn *Gen, n *simnode.Node) *nom.AccountBlock {
		c := types.AcceleratorContract
		if gn.W.R.T.Bool() {
			c = types.LiquidityContract
		}
		from := gn.user()
		z := gn.token()
		return gn.do(n, "common.Donate", from, c, z, gn.amount(n, from, z), definition.ABICommon.PackMethodPanic(definition.DonateMethodName))
	}},
	{"htlc-create", func(gn *Gen, n *simnode.Node) *nom.AccountBlock {
		t := gn.W.R.T
		pre := t.Bytes(1 + t.Choose(40))
		hashType := uint8(t.Choose(2))
		var lock []byte
		if hashType == definition.HashTypeSHA3 {
			lock = crypto.Hash(pre)
		} else {
			s := sha256.Sum256(pre)
			lock = s[:]
		}
		exp := time.Now().Unix() + int64(SlotSeconds*(1+t.Choose(40)))
		if t.Choose(8) == 0 {
			exp = time.Now().Unix() - 5
		}
		keyMax := uint8(pickInt(t, []int64{32, 255, int64(len(pre)), int64(len(pre)) - 1, 0}))
		from := gn.user()
		z := gn.token()
		amt := gn.amount(n, from, z)
		locked := gn.user()
		if t.Choose(5) == 0 {
			locked = gn.anyAddress() // also embedded contracts and addresses nobody holds a key for
		}
		b := gn.do(n, "htlc.Create", from, types.HtlcContract, z, amt, definition.ABIHtlc.PackMethodPanic(definition.CreateHtlcMethodName, locked, exp, hashType, keyMax, lock))
		if b != nil {
			gn.Preimages[b.Hash] = pre
		}
		return b
	}},
	{"htlc-unlock", func(gn *Gen, n *simnode.Node) *nom.AccountBlock {
		t := gn.W.R.T
		id := gn.someId(types.HtlcContract)
		pre := gn.Preimages[id]
		if pre == nil || t.Choose(6) == 0 {
			pre = t.Bytes(1 + t.Choose(64))
		}
		return gn.do(n, "htlc.Unlock", gn.user(), types.HtlcContract, types.ZnnTokenStandard, big.NewInt(0), definition.ABIHtlc.PackMethodPanic(definition.UnlockHtlcMethodName, id, pre))
	}},
	{"htlc-reclaim", func(gn *Gen, n *simnode.Node) *nom.AccountBlock {
		id := gn.someId(types.HtlcContract)
		return gn.do(n, "htlc.Reclaim", gn.ownerOf(id), types.HtlcContract, types.ZnnTokenStandard, big.NewInt(0), definition.ABIHtlc.PackMethodPanic(definition.ReclaimHtlcMethodName, id))
	}},
	{"htlc-proxy", func(gn *Gen, n *simnode.Node) *nom.AccountBlock {
		m := definition.DenyHtlcProxyUnlockMethodName
		if gn.W.R.T.Bool() {
			m = definition.AllowHtlcProxyUnlockMethodName
		}
		return gn.do(n, "htlc."+m, gn.user(), types.HtlcContract, types.ZnnTokenStandard, big.NewInt(0), definition.ABIHtlc.PackMethodPanic(m))
	}},
	{"liquidity-stake", func(gn *Gen, n *simnode.Node) *nom.AccountBlock {
		t := gn.W.R.T
		from := gn.user()
		z := gn.token()
		dur := constants.StakeTimeUnitSec * int64(1+t.Choose(12))
		return gn.do(n, "liquidity.LiquidityStake", from, types.LiquidityContract, z, gn.amount(n, from, z), definition.ABILiquidity.PackMethodPanic(definition.LiquidityStakeMethodName, dur))
	}},
	{"liquidity-cancel", func(gn *Gen, n *simnode.Node) *nom.AccountBlock {
		id := gn.someId(types.LiquidityContract)
		return gn.do(n, "liquidity.CancelLiquidityStake", gn.ownerOf(id), types.LiquidityContract, types.ZnnTokenStandard, big.NewInt(0), definition.ABILiquidity.PackMethodPanic(definition.CancelLiquidityStakeMethodName, id))
	}},
	{"accelerator-project", func(gn *Gen, n *simnode.Node) *nom.AccountBlock {
		t := gn.W.R.T
		gn.seq++
		return gn.do(n, "accelerator.CreateProject", gn.user(), types.AcceleratorContract, types.ZnnTokenStandard, new(big.Int).Set(constants.ProjectCreationAmount),
			definition.ABIAccelerator.PackMethodPanic(definition.CreateProjectMethodName, fmt.Sprintf("proj%d", gn.seq), "desc", "sim.test", zx(int64(1+t.Choose(5000))), zx(int64(1+t.Choose(50000)))))
	}},
	{"accelerator-vote", func(gn *Gen, n *simnode.Node) *nom.AccountBlock {
		t := gn.W.R.T
		id := gn.someId(types.AcceleratorContract)
		ks := MockPillars()
		k := ks[t.Choose(len(ks))]
		name := gn.PillarNames[t.Choose(3)]
		return gn.do(n, "accelerator.VoteByName", k.Address, types.AcceleratorContract, types.ZnnTokenStandard, big.NewInt(0),
			definition.ABIAccelerator.PackMethodPanic(definition.VoteByNameMethodName, id, name, uint8(t.Choose(4))))
	}},
	{"accelerator-phase", func(gn *Gen, n *simnode.Node) *nom.AccountBlock {
		t := gn.W.R.T
		id := gn.someId(types.AcceleratorContract)
		return gn.do(n, "accelerator.AddPhase", gn.ownerOf(id), types.AcceleratorContract, types.ZnnTokenStandard, big.NewInt(0),
			definition.ABIAccelerator.PackMethodPanic(definition.AddPhaseMethodName, id, "phase", "d", "sim.test", zx(int64(t.Choose(100))), zx(int64(t.Choose(1000)))))
	}},
}

func init() {
	// several calls on the SAME entity inside one slot, in a tape-chosen order: interactions between
	// calls that are received back to back against the same contract state
	Flows = append(Flows,
		Flow{"token-burst", func(gn *Gen, n *simnode.Node) *nom.AccountBlock {
			t := gn.W.R.T
			if len(gn.Tokens) == 0 {
				return nil
			}
			z := gn.Tokens[t.Choose(len(gn.Tokens))]
			ti := gn.tokenInfo(n, z)
			if ti == nil || gn.W.Keys[ti.Owner] == nil {
				return nil
			}
			var last *nom.AccountBlock
			k := 2 + t.Choose(3)
			for i := 0; i < k; i++ {
				switch t.Choose(4) {
				case 0:
					last = gn.do(n, "token.Mint", ti.Owner, types.TokenContract, types.ZnnTokenStandard, big.NewInt(0),
						definition.ABIToken.PackMethodPanic(definition.MintMethodName, z, big.NewInt(int64(1+t.Choose(1000))), gn.user()))
				case 1:
					last = gn.do(n, "token.UpdateToken", ti.Owner, types.TokenContract, types.ZnnTokenStandard, big.NewInt(0),
						definition.ABIToken.PackMethodPanic(definition.UpdateTokenMethodName, z, ti.Owner, ti.IsMintable || t.Bool(), t.Bool()))
				case 2:
					h := gn.user()
					if t.Bool() {
						h = ti.Owner
					}
					if bal := gn.balance(n, h, z); bal.Sign() > 0 {
						last = gn.do(n, "token.Burn", h, types.TokenContract, z, big.NewInt(1+int64(t.Choose(int(minInt64(bal.Int64(), 1000))))), definition.ABIToken.PackMethodPanic(definition.BurnMethodName))
					}
				case 3:
					if bal := gn.balance(n, ti.Owner, z); bal.Sign() > 0 {
						last = gn.do(n, "transfer", ti.Owner, gn.user(), z, big.NewInt(1), nil)
					}
				}
			}
			gn.W.R.Probe("token-burst")
			return last
		}},
		// a backer of a pillar moves most of its ZNN to a backer of another pillar: the ranking of the
		// pillars by weight (which the election uses) changes
		Flow{"swing-weight", func(gn *Gen, n *simnode.Node) *nom.AccountBlock {
			t := gn.W.R.T
			backers := []types.Address{g.User1.Address, g.User2.Address, g.User3.Address, g.User4.Address, g.User5.Address}
			from := backers[t.Choose(len(backers))]
			to := backers[t.Choose(len(backers))]
			bal := gn.balance(n, from, types.ZnnTokenStandard)
			if from == to || bal.Sign() <= 0 {
				return nil
			}
			amt := new(big.Int).Mul(bal, big.NewInt(int64(50+t.Choose(50))))
			amt.Div(amt, big.NewInt(100))
			gn.W.R.Probe("swing-weight")
			return gn.do(n, "transfer", from, to, types.ZnnTokenStandard, amt, nil)
		}},
		// a holder of at least 2^63 units of a user token moves boundary amounts through calls that fail at
		// receive time (refund path), succeed (burn), or simply change hands
		Flow{"huge-amount-call", func(gn *Gen, n *simnode.Node) *nom.AccountBlock {
			t := gn.W.R.T
			type holding struct {
				who types.Address
				z   types.ZenonTokenStandard
				bal *big.Int
			}
			var hs []holding
			for _, z := range gn.Tokens {
				if z == types.ZnnTokenStandard || z == types.QsrTokenStandard {
					continue
				}
				for _, u := range gn.W.Users {
					if bal := gn.balance(n, u.Address, z); bal.BitLen() >= 64 {
						hs = append(hs, holding{u.Address, z, bal})
					}
				}
			}
			if len(hs) == 0 {
				return nil
			}
			h := hs[t.Choose(len(hs))]
			amt := new(big.Int).Set(h.bal)
			if t.Choose(3) != 0 {
				var fit []*big.Int
				for _, b := range bigBoundaries {
					if b.BitLen() >= 64 && b.Cmp(h.bal) <= 0 {
						fit = append(fit, b)
					}
				}
				if len(fit) > 0 {
					amt = new(big.Int).Set(fit[t.Choose(len(fit))])
				}
			}
			gn.W.R.Probe("huge-amount-call")
			switch t.Choose(5) {
			case 0: // expired on arrival: fails at receive time, must be refunded
				lock := crypto.Hash([]byte("x"))
				return gn.do(n, "htlc.Create", h.who, types.HtlcContract, h.z, amt, definition.ABIHtlc.PackMethodPanic(definition.CreateHtlcMethodName, gn.user(), int64(simrtGenesis+5), uint8(0), uint8(32), lock))
			case 1: // burn: allowed for the owner or a burnable token, refunded otherwise
				return gn.do(n, "token.Burn", h.who, types.TokenContract, h.z, amt, definition.ABIToken.PackMethodPanic(definition.BurnMethodName))
			case 2:
				return gn.do(n, "liquidity.LiquidityStake", h.who, types.LiquidityContract, h.z, amt, definition.ABILiquidity.PackMethodPanic(definition.LiquidityStakeMethodName, constants.StakeTimeUnitSec))
			case 3:
				return gn.do(n, "liquidity.Donate", h.who, types.LiquidityContract, h.z, amt, definition.ABICommon.PackMethodPanic(definition.DonateMethodName))
			default: // changes hands: other users become holders (and burn as non-owners)
				return gn.do(n, "transfer", h.who, gn.user(), h.z, amt, nil)
			}
		}},
		// a rich user without a pillar deposits the QSR the next pillar costs and registers one in one go; one
		// with a pillar of its own (never the first genesis pillar) revokes it
		Flow{"pillar-lifecycle", func(gn *Gen, n *simnode.Node) *nom.AccountBlock {
			t := gn.W.R.T
			x := gn.richUser()
			names := make([]string, 0, len(gn.NameOwner))
			for name, owner := range gn.NameOwner {
				if owner == x && name != g.Pillar1Name {
					names = append(names, name)
				}
			}
			sort.Strings(names)
			st := n.Chain.GetFrontierMomentumStore().GetAccountStore(types.PillarContract).Storage()
			for _, name := range names {
				if pi, err := definition.GetPillarInfo(st, name); err == nil && pi != nil && pi.RevokeTime == 0 {
					return gn.do(n, "pillar.Revoke", x, types.PillarContract, types.ZnnTokenStandard, big.NewInt(0), definition.ABIPillars.PackMethodPanic(definition.RevokeMethodName, name))
				}
			}
			// generous deposit: base cost plus the increase for every pillar there is
			cnt := int64(len(gn.PillarNames) + 2)
			dep := new(big.Int).Add(constants.PillarQsrStakeBaseAmount, new(big.Int).Mul(constants.PillarQsrStakeIncreaseAmount, big.NewInt(cnt)))
			if bal := gn.balance(n, x, types.QsrTokenStandard); bal.Cmp(dep) < 0 {
				return nil
			}
			gn.do(n, "common.DepositQsr", x, types.PillarContract, types.QsrTokenStandard, dep, definition.ABICommon.PackMethodPanic(definition.DepositQsrMethodName))
			gn.seq++
			name := fmt.Sprintf("sim-pillar-%d", gn.seq)
			b := gn.do(n, "pillar.Register", x, types.PillarContract, types.ZnnTokenStandard, new(big.Int).Set(constants.PillarStakeAmount),
				definition.ABIPillars.PackMethodPanic(definition.RegisterMethodName, name, x, gn.user(), pct(t), pct(t)))
			if b != nil {
				gn.PillarNames = append(gn.PillarNames, name)
				gn.NameOwner[name] = x
				gn.W.R.Probe("pillar-lifecycle-register-sent")
			}
			return b
		}},
		// a rich user without a sentinel deposits and registers in one go; one with a sentinel revokes it
		Flow{"sentinel-lifecycle", func(gn *Gen, n *simnode.Node) *nom.AccountBlock {
			x := gn.richUser()
			info := definition.GetSentinelInfoByOwner(n.Chain.GetFrontierMomentumStore().GetAccountStore(types.SentinelContract).Storage(), x)
			if info == nil {
				gn.do(n, "common.DepositQsr", x, types.SentinelContract, types.QsrTokenStandard, new(big.Int).Set(constants.SentinelQsrDepositAmount), definition.ABICommon.PackMethodPanic(definition.DepositQsrMethodName))
				return gn.do(n, "sentinel.Register", x, types.SentinelContract, types.ZnnTokenStandard, new(big.Int).Set(constants.SentinelZnnRegisterAmount),
					definition.ABISentinel.PackMethodPanic(definition.RegisterSentinelMethodName))
			}
			if info.RevokeTimestamp == 0 {
				return gn.do(n, "sentinel.Revoke", x, types.SentinelContract, types.ZnnTokenStandard, big.NewInt(0), definition.ABISentinel.PackMethodPanic(definition.RevokeSentinelMethodName))
			}
			return nil
		}},
		Flow{"pillar-burst", func(gn *Gen, n *simnode.Node) *nom.AccountBlock {
			t := gn.W.R.T
			name := gn.PillarNames[t.Choose(len(gn.PillarNames))]
			owner, ok := gn.NameOwner[name]
			if !ok {
				return nil
			}
			var last *nom.AccountBlock
			for i := 0; i < 2+t.Choose(3); i++ {
				switch t.Choose(4) {
				case 0:
					last = gn.do(n, "pillar.UpdatePillar", owner, types.PillarContract, types.ZnnTokenStandard, big.NewInt(0),
						definition.ABIPillars.PackMethodPanic(definition.UpdatePillarMethodName, name, gn.user(), gn.user(), pct(t), pct(t)))
				case 1:
					last = gn.do(n, "pillar.Delegate", gn.user(), types.PillarContract, types.ZnnTokenStandard, big.NewInt(0), definition.ABIPillars.PackMethodPanic(definition.DelegateMethodName, name))
				case 2:
					if name == g.Pillar1Name {
						continue
					}
					last = gn.do(n, "pillar.Revoke", owner, types.PillarContract, types.ZnnTokenStandard, big.NewInt(0), definition.ABIPillars.PackMethodPanic(definition.RevokeMethodName, name))
				case 3:
					last = gn.do(n, "common.CollectReward", owner, types.PillarContract, types.ZnnTokenStandard, big.NewInt(0), definition.ABICommon.PackMethodPanic(definition.CollectRewardMethodName))
				}
			}
			return last
		}},
	)
}

// pct is a reward percentage: mostly 0..100, now and then beyond
func pct(t *tape.Tape) uint8 {
	if t.Choose(8) == 0 {
		return []uint8{101, 150, 255}[t.Choose(3)]
	}
	return uint8(t.Choose(101))
}

const simrtGenesis = 1000000000

func minInt64(a, b int64) int64 {
	if a < b {
		return a
	}
	return b
}

// richUser picks one of the accounts that can afford pillar/sentinel collateral.
func (gn *Gen) richUser() types.Address {
	rich := []types.Address{g.Pillar4.Address, g.Pillar5.Address, g.Pillar6.Address, g.Pillar7.Address, g.Pillar8.Address, g.Spork.Address, g.User1.Address}
	return rich[gn.W.R.T.Choose(len(rich))]
}

func (gn *Gen) tokenInfo(n *simnode.Node, z types.ZenonTokenStandard) *definition.TokenInfo {
	ti, err := definition.GetTokenInfo(n.Chain.GetFrontierMomentumStore().GetAccountStore(types.TokenContract).Storage(), z)
	if err != nil {
		return nil
	}
	return ti
}

// RandomFlow runs a tape-chosen flow.
func (gn *Gen) RandomFlow(n *simnode.Node) *nom.AccountBlock {
	f := Flows[gn.W.R.T.Choose(len(Flows))]
	return f.Run(gn, n)
}

func FlowByName(name string) *Flow {
	for i := range Flows {
		if Flows[i].Name == name {
			return &Flows[i]
		}
	}
	return nil
}
