package nomsim

import (
	"github.com/zenon-network/go-zenon/chain/genesis"
	g "github.com/zenon-network/go-zenon/chain/genesis/mock"
	"github.com/zenon-network/go-zenon/chain/nom"
	"github.com/zenon-network/go-zenon/common/types"
	"github.com/zenon-network/go-zenon/vm/embedded/definition"

	"verif/sim/simnode"
)

// SporkMode says how the three implemented sporks appear in the genesis config.
type SporkMode int

const (
	SporksAbsent   SporkMode = iota // mock genesis as is (origin rules, sporks can be created in-run under new ids)
	SporksDeclared                  // declared with the implemented ids, inactive: the spork key activates them in-run
	SporksActive                    // declared and enforced from height 1
)

var ImplementedSporks = []struct {
	Name string
	S    *types.ImplementedSpork
}{
	{"accelerator", types.AcceleratorSpork},
	{"htlc", types.HtlcSpork},
	{"bridge-liquidity", types.BridgeAndLiquiditySpork},
}

// MockGenesis returns a copy of the mock genesis config with the chosen spork
// declaration. The implemented spork ids are the compiled-in ones; no process
// global is patched.
func MockGenesis(mode SporkMode) *genesis.GenesisConfig {
	c := *g.EmbeddedGenesis
	if mode == SporksAbsent {
		return &c
	}
	sc := &genesis.SporkConfig{}
	for _, s := range ImplementedSporks {
		sp := &definition.Spork{Id: s.S.SporkId, Name: "spork-" + s.Name, Description: "declared in genesis"}
		if mode == SporksActive {
			sp.Activated = true
			sp.EnforcementHeight = 1
		}
		sc.Sporks = append(sc.Sporks, sp)
	}
	c.SporkConfig = sc
	return &c
}

// ActivateSpork sends the activation call for a declared spork from the spork key.
func (gn *Gen) ActivateSpork(n *simnode.Node, id types.Hash, from types.Address) *nom.AccountBlock {
	return gn.do(n, "spork.ActivateSpork", from, types.SporkContract, types.ZnnTokenStandard, nil, definition.ABISpork.PackMethodPanic(definition.SporkActivateMethodName, id))
}

func (gn *Gen) CreateSpork(n *simnode.Node, from types.Address, name string) *nom.AccountBlock {
	return gn.do(n, "spork.CreateSpork", from, types.SporkContract, types.ZnnTokenStandard, nil, definition.ABISpork.PackMethodPanic(definition.SporkCreateMethodName, name, "created in run"))
}
