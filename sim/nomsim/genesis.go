package nomsim

import (
	"fmt"
	"math/big"

	"github.com/zenon-network/go-zenon/chain/genesis"
	g "github.com/zenon-network/go-zenon/chain/genesis/mock"
	"github.com/zenon-network/go-zenon/chain/nom"
	"github.com/zenon-network/go-zenon/common/types"
	"github.com/zenon-network/go-zenon/vm/constants"
	"github.com/zenon-network/go-zenon/vm/embedded/definition"
	"github.com/zenon-network/go-zenon/wallet"

	"verif/sim/simnode"
)

// SporkMode says how the three implemented sporks appear in the genesis config.
type SporkMode int

const (
	SporksAbsent   SporkMode = iota // mock genesis as is (origin rules, sporks can be created in-run under new ids)
	SporksDeclared                  // declared with the implemented ids, inactive: the spork key activates them in-run
	SporksActive                    // declared and enforced from height 1
)

var ImplementedSporks = []struct {
	Name string
	S    *types.ImplementedSpork
}{
	{"accelerator", types.AcceleratorSpork},
	{"htlc", types.HtlcSpork},
	{"bridge-liquidity", types.BridgeAndLiquiditySpork},
}

// MockGenesis returns a copy of the mock genesis config with the chosen spork
// declaration. The implemented spork ids are the compiled-in ones; no process
// global is patched.
func MockGenesis(mode SporkMode) *genesis.GenesisConfig {
	c := *g.EmbeddedGenesis
	if mode == SporksAbsent {
		return &c
	}
	sc := &genesis.SporkConfig{}
	for _, s := range ImplementedSporks {
		sp := &definition.Spork{Id: s.S.SporkId, Name: "spork-" + s.Name, Description: "declared in genesis"}
		if mode == SporksActive {
			sp.Activated = true
			sp.EnforcementHeight = 1
		}
		sc.Sporks = append(sc.Sporks, sp)
	}
	c.SporkConfig = sc
	return &c
}

// TightCaps returns a copy of the config in which the maximum supply of ZNN and QSR lies only `room`
// base units above the genesis supply: the contracts' own mints (rewards, liquidity, bridge) soon do
// not fit under the cap any more.
func TightCaps(c *genesis.GenesisConfig, room int64) *genesis.GenesisConfig {
	out := *c
	tc := &genesis.TokenContractConfig{}
	for _, t := range c.TokenConfig.Tokens {
		cp := *t
		cp.TotalSupply = new(big.Int).Set(t.TotalSupply)
		cp.MaxSupply = new(big.Int).Add(t.TotalSupply, big.NewInt(room))
		tc.Tokens = append(tc.Tokens, &cp)
	}
	out.TokenConfig = tc
	return &out
}

// ActivateSpork sends the activation call for a declared spork from the spork key.
func (gn *Gen) ActivateSpork(n *simnode.Node, id types.Hash, from types.Address) *nom.AccountBlock {
	return gn.do(n, "spork.ActivateSpork", from, types.SporkContract, types.ZnnTokenStandard, nil, definition.ABISpork.PackMethodPanic(definition.SporkActivateMethodName, id))
}

func (gn *Gen) CreateSpork(n *simnode.Node, from types.Address, name string) *nom.AccountBlock {
	return gn.do(n, "spork.CreateSpork", from, types.SporkContract, types.ZnnTokenStandard, nil, definition.ABISpork.PackMethodPanic(definition.SporkCreateMethodName, name, "created in run"))
}

// ManyPillarsGenesis extends the mock genesis with extra registered pillars
// (keys derived from fixed entropy) so that elections with more pillars than
// slots, equal weights and zero-weight pillars occur. weights[i] is the ZNN
// balance (whole coins) the i-th extra pillar's own backer account holds.
func ManyPillarsGenesis(mode SporkMode, weights []int64) (*genesis.GenesisConfig, []*wallet.KeyPair) {
	c := MockGenesis(mode)
	pc := *c.PillarConfig
	pc.Pillars = append([]*definition.PillarInfo(nil), c.PillarConfig.Pillars...)
	pc.Delegations = append([]*definition.DelegationInfo(nil), c.PillarConfig.Delegations...)
	gb := &genesis.GenesisBlocksConfig{Blocks: append([]*genesis.GenesisBlockConfig(nil), c.GenesisBlocks.Blocks...)}
	tc := &genesis.TokenContractConfig{}
	for _, t := range c.TokenConfig.Tokens {
		cp := *t
		cp.TotalSupply = new(big.Int).Set(t.TotalSupply)
		tc.Tokens = append(tc.Tokens, &cp)
	}
	var keys []*wallet.KeyPair
	entropy := []byte{0x42, 0x23, 0x45, 0x67, 0x89, 0x01, 0x23, 0x45, 0x67, 0x89, 0x01, 0x23, 0x45, 0x67, 0x89, 0x77}
	extraZnn := new(big.Int)
	for i, wgt := range weights {
		kp, err := wallet.DeriveWithIndex(uint32(i+1), entropy)
		if err != nil {
			panic(err)
		}
		keys = append(keys, kp)
		name := fmt.Sprintf("SIM-extra-%02d", i)
		pc.Pillars = append(pc.Pillars, &definition.PillarInfo{Name: name, BlockProducingAddress: kp.Address, StakeAddress: kp.Address,
			RewardWithdrawAddress: kp.Address, Amount: new(big.Int).Set(constants.PillarStakeAmount), RegistrationTime: c.GenesisTimestampSec,
			GiveBlockRewardPercentage: 0, GiveDelegateRewardPercentage: 100, PillarType: definition.NormalPillarType})
		pc.Delegations = append(pc.Delegations, &definition.DelegationInfo{Name: name, Backer: kp.Address})
		bal := new(big.Int).Mul(big.NewInt(wgt), big.NewInt(g.Zexp))
		gb.Blocks = append(gb.Blocks, &genesis.GenesisBlockConfig{Address: kp.Address, BalanceList: map[types.ZenonTokenStandard]*big.Int{types.ZnnTokenStandard: bal}})
		extraZnn.Add(extraZnn, bal)
		extraZnn.Add(extraZnn, constants.PillarStakeAmount)
	}
	// the pillar contract holds the collateral of every registered pillar
	for i, b := range gb.Blocks {
		if b.Address == types.PillarContract {
			nb := &genesis.GenesisBlockConfig{Address: b.Address, BalanceList: map[types.ZenonTokenStandard]*big.Int{}}
			for z, v := range b.BalanceList {
				nb.BalanceList[z] = new(big.Int).Set(v)
			}
			add := new(big.Int).Mul(constants.PillarStakeAmount, big.NewInt(int64(len(weights))))
			nb.BalanceList[types.ZnnTokenStandard] = new(big.Int).Add(nb.BalanceList[types.ZnnTokenStandard], add)
			gb.Blocks[i] = nb
		}
	}
	for _, t := range tc.Tokens {
		if t.TokenStandard == types.ZnnTokenStandard {
			t.TotalSupply.Add(t.TotalSupply, extraZnn)
		}
	}
	c.PillarConfig = &pc
	c.GenesisBlocks = gb
	c.TokenConfig = tc
	return c, keys
}
