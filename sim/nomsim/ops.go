package nomsim

import (
	"bytes"
	"errors"
	"fmt"
	"math/big"
	"reflect"
	"strings"

	g "github.com/zenon-network/go-zenon/chain/genesis/mock"
	"github.com/zenon-network/go-zenon/chain/nom"
	"github.com/zenon-network/go-zenon/common/types"
	"github.com/zenon-network/go-zenon/vm/abi"
	"github.com/zenon-network/go-zenon/vm/constants"
	"github.com/zenon-network/go-zenon/vm/embedded/definition"

	"verif/sim/simnode"
)

type Contract struct {
	Name string
	Addr types.Address
	ABI  abi.ABIContract
}

var Contracts = []Contract{
	{"plasma", types.PlasmaContract, definition.ABIPlasma},
	{"pillar", types.PillarContract, definition.ABIPillars},
	{"token", types.TokenContract, definition.ABIToken},
	{"sentinel", types.SentinelContract, definition.ABISentinel},
	{"swap", types.SwapContract, definition.ABISwap},
	{"stake", types.StakeContract, definition.ABIStake},
	{"spork", types.SporkContract, definition.ABISpork},
	{"liquidity", types.LiquidityContract, definition.ABILiquidity},
	{"accelerator", types.AcceleratorContract, definition.ABIAccelerator},
	{"htlc", types.HtlcContract, definition.ABIHtlc},
	{"bridge", types.BridgeContract, definition.ABIBridge},
}

func ContractByAddr(a types.Address) *Contract {
	for i := range Contracts {
		if Contracts[i].Addr == a {
			return &Contracts[i]
		}
	}
	return nil
}

// MethodNames lists an ABI's methods in sorted order (map order must not leak
// into the run).
func MethodNames(a abi.ABIContract) []string {
	out := make([]string, 0, len(a.Methods))
	for n := range a.Methods {
		out = append(out, n)
	}
	sortStrings(out)
	return out
}

func sortStrings(s []string) {
	for i := 1; i < len(s); i++ {
		for j := i; j > 0 && s[j] < s[j-1]; j-- {
			s[j], s[j-1] = s[j-1], s[j]
		}
	}
}

// Gen produces client operations from the tape.
type Gen struct {
	W *World
	// Hashes seen per contract: hashes of sends addressed to it (entry ids are
	// the hash of the creating send in every embedded contract)
	Ids map[types.Address][]types.Hash
	// Tokens issued during the run (learned from the token contract)
	Tokens []types.ZenonTokenStandard
	// Sent counts submitted and accepted calls per "contract.method"
	Tried    map[string]int
	Accepted map[string]int
	// Names of pillars registered by the run
	// BigData makes every other transfer carry 6-16 KiB of data
	BigData     bool
	PillarNames []string
	Preimages   map[types.Hash][]byte // htlc id -> preimage
	Owner       map[types.Hash]types.Address
	NameOwner   map[string]types.Address
	seq         int
	Bridge      *BridgeState // bridge workload state, nil until EnableBridge (bridge_flows.go)
}

func NewGen(w *World) *Gen {
	return &Gen{W: w, Ids: map[types.Address][]types.Hash{}, Tried: map[string]int{}, Accepted: map[string]int{},
		PillarNames: []string{g.Pillar1Name, g.Pillar2Name, g.Pillar3Name}, Preimages: map[types.Hash][]byte{},
		Owner: map[types.Hash]types.Address{}, NameOwner: map[string]types.Address{g.Pillar1Name: g.Pillar1.Address, g.Pillar2Name: g.Pillar2.Address, g.Pillar3Name: g.Pillar3.Address}}
}

func (gn *Gen) T() *tapeT { return &tapeT{gn.W.R.T} }

func (gn *Gen) user() types.Address {
	return gn.W.Users[gn.W.R.T.Choose(len(gn.W.Users))].Address
}

func (gn *Gen) anyAddress() types.Address {
	t := gn.W.R.T
	switch t.Choose(6) {
	case 0, 1, 2:
		return gn.user()
	case 3:
		return Contracts[t.Choose(len(Contracts))].Addr
	case 4:
		return types.ZeroAddress
	default:
		var a types.Address
		copy(a[:], t.Bytes(types.AddressSize))
		a[0] = 0 // user prefix
		return a
	}
}

func (gn *Gen) token() types.ZenonTokenStandard {
	t := gn.W.R.T
	n := 3 + len(gn.Tokens)
	switch i := t.Choose(n + 1); {
	case i == 0 || i == n:
		return types.ZnnTokenStandard
	case i == 1:
		return types.QsrTokenStandard
	case i == 2:
		var z types.ZenonTokenStandard
		if t.Bool() {
			copy(z[:], t.Bytes(len(z)))
		}
		return z
	default:
		return gn.Tokens[i-3]
	}
}

func (gn *Gen) balance(n *simnode.Node, a types.Address, z types.ZenonTokenStandard) *big.Int {
	b, err := n.Chain.GetFrontierAccountStore(a).GetBalance(z)
	if err != nil || b == nil {
		return new(big.Int)
	}
	return b
}

var bigBoundaries = []*big.Int{
	big.NewInt(0), big.NewInt(1), big.NewInt(2),
	new(big.Int).Sub(new(big.Int).Lsh(big.NewInt(1), 63), big.NewInt(1)),
	new(big.Int).Lsh(big.NewInt(1), 63),
	new(big.Int).Sub(new(big.Int).Lsh(big.NewInt(1), 64), big.NewInt(1)),
	new(big.Int).Lsh(big.NewInt(1), 64),
	new(big.Int).Sub(new(big.Int).Lsh(big.NewInt(1), 255), big.NewInt(1)),
	new(big.Int).Lsh(big.NewInt(1), 255),
	new(big.Int).Sub(new(big.Int).Lsh(big.NewInt(1), 256), big.NewInt(1)),
}

// amount picks an amount class relative to the sender's balance.
func (gn *Gen) amount(n *simnode.Node, from types.Address, z types.ZenonTokenStandard) *big.Int {
	t := gn.W.R.T
	bal := gn.balance(n, from, z)
	switch t.Choose(10) {
	case 0:
		if t.Choose(3) == 0 {
			// a negative amount (only in-process callers and JSON can carry the sign)
			return big.NewInt(-int64(1 + t.Choose(1000000)))
		}
		return big.NewInt(0)
	case 1:
		return big.NewInt(1)
	case 2:
		return new(big.Int).Set(bal)
	case 3:
		return new(big.Int).Add(bal, big.NewInt(1))
	case 4:
		return new(big.Int).Set(bigBoundaries[t.Choose(len(bigBoundaries))])
	case 5, 6:
		return big.NewInt(int64(1+t.Choose(5000)) * g.Zexp)
	default:
		if bal.Sign() <= 0 {
			return big.NewInt(0)
		}
		// a random fraction of the balance
		f := big.NewInt(int64(1 + t.Choose(1000)))
		x := new(big.Int).Mul(bal, f)
		return x.Div(x, big.NewInt(4000))
	}
}

func (gn *Gen) someId(c types.Address) types.Hash {
	t := gn.W.R.T
	ids := gn.Ids[c]
	if len(ids) == 0 || t.Choose(8) == 0 {
		var h types.Hash
		if t.Bool() {
			copy(h[:], t.Bytes(types.HashSize))
		}
		return h
	}
	// bias toward recent ids
	if t.Bool() && len(ids) > 4 {
		return ids[len(ids)-1-t.Choose(4)]
	}
	return ids[t.Choose(len(ids))]
}

func (gn *Gen) str(max int) string {
	t := gn.W.R.T
	switch t.Choose(8) {
	case 0:
		return ""
	case 1:
		return strings.Repeat("a", max)
	case 2:
		return strings.Repeat("b", max+1)
	case 3:
		return "x\x00\xff\xfe é 漢"
	default:
		gn.seq++
		return fmt.Sprintf("v%d-%d", gn.seq, t.Choose(1000))
	}
}

// argFor builds a Go value of the reflect type the ABI packer expects.
func (gn *Gen) argFor(c *Contract, typ abi.Type, name string) any {
	t := gn.W.R.T
	switch typ.T {
	case abi.IntTy, abi.UintTy:
		switch typ.Kind {
		case reflect.Ptr: // *big.Int
			switch t.Choose(5) {
			case 0:
				return new(big.Int).Set(bigBoundaries[t.Choose(len(bigBoundaries))])
			default:
				return big.NewInt(int64(t.Choose(100000)) * int64(1+t.Choose(g.Zexp)))
			}
		case reflect.Uint8:
			return uint8(pickInt(t, []int64{0, 1, 2, 3, 50, 100, 101, 255}))
		case reflect.Uint16:
			return uint16(pickInt(t, []int64{0, 1, 2, 100, 65535}))
		case reflect.Uint32:
			return uint32(pickInt(t, []int64{0, 1, 2, 3, 10, 100, 10000, 10001, 1 << 31, 1<<32 - 1}))
		case reflect.Uint64:
			return uint64(pickInt(t, []int64{0, 1, 2, 10, 100, 1000, 1 << 40, -1}))
		case reflect.Int8:
			return int8(pickInt(t, []int64{0, 1, -1, 127, -128}))
		case reflect.Int16:
			return int16(pickInt(t, []int64{0, 1, -1}))
		case reflect.Int32:
			return int32(pickInt(t, []int64{0, 1, -1, 1<<31 - 1, -(1 << 31)}))
		case reflect.Int64:
			return pickInt(t, []int64{0, 1, -1, constants.StakeTimeUnitSec, constants.StakeTimeUnitSec * 2, constants.StakeTimeUnitSec * 12, constants.StakeTimeUnitSec*12 + 1,
				constants.StakeTimeUnitSec + 1, 1000000000 + 100, 1000000000 + 5000, 1<<63 - 1, -(1 << 63)})
		}
	case abi.BoolTy:
		return t.Bool()
	case abi.StringTy:
		if name == "name" && c.Addr == types.PillarContract && t.Choose(3) != 0 {
			return gn.PillarNames[t.Choose(len(gn.PillarNames))]
		}
		return gn.str(40)
	case abi.AddressTy:
		return gn.anyAddress()
	case abi.TokenStandardTy:
		return gn.token()
	case abi.HashTy:
		if c.Addr == types.SporkContract {
			// never the id of a run-created spork: activating an unimplemented
			// spork makes the node halt the process by design (C17 covers that
			// in a child process)
			if t.Bool() {
				return ImplementedSporks[t.Choose(len(ImplementedSporks))].S.SporkId
			}
			var h types.Hash
			copy(h[:], t.Bytes(types.HashSize))
			return h
		}
		return gn.someId(c.Addr)
	case abi.BytesTy:
		switch t.Choose(4) {
		case 0:
			return []byte{}
		case 1:
			return t.Bytes(32)
		case 2:
			return t.Bytes(1 + t.Choose(300))
		default:
			return t.Bytes(8)
		}
	case abi.FixedBytesTy:
		v := reflect.New(typ.Type).Elem()
		b := t.Bytes(typ.Size)
		for i := 0; i < typ.Size; i++ {
			v.Index(i).SetUint(uint64(b[i]))
		}
		return v.Interface()
	case abi.SliceTy:
		n := t.Choose(4)
		v := reflect.MakeSlice(typ.Type, 0, n)
		for i := 0; i < n; i++ {
			v = reflect.Append(v, reflect.ValueOf(gn.argFor(c, *typ.Elem, name)))
		}
		return v.Interface()
	case abi.ArrayTy:
		v := reflect.New(typ.Type).Elem()
		for i := 0; i < typ.Size; i++ {
			v.Index(i).Set(reflect.ValueOf(gn.argFor(c, *typ.Elem, name)))
		}
		return v.Interface()
	}
	return reflect.Zero(typ.Type).Interface()
}

type chooser interface{ Choose(int) int }

func pickInt(t chooser, vals []int64) int64 { return vals[t.Choose(len(vals))] }

type tapeT struct{ chooser }

// PackRandom packs tape-chosen arguments for a method of a contract.
func (gn *Gen) PackRandom(c *Contract, method string) ([]byte, error) {
	m := c.ABI.Methods[method]
	args := make([]any, 0, len(m.Inputs))
	for _, in := range m.Inputs {
		args = append(args, gn.argFor(c, in.Type, in.Name))
	}
	return c.ABI.PackMethod(method, args...)
}

// MutateData applies a byte-level mutation that may still unpack: dirty high
// padding bytes, trailing bytes, truncation, selector change.
func (gn *Gen) MutateData(data []byte) []byte {
	t := gn.W.R.T
	d := append([]byte(nil), data...)
	switch t.Choose(6) {
	case 0:
		if len(d) > 4 {
			words := (len(d) - 4) / 32
			if words > 0 {
				w := t.Choose(words)
				d[4+32*w+t.Choose(12)] ^= byte(1 + t.Choose(255)) // dirty padding of an int/address word
			}
		}
	case 1:
		d = append(d, t.Bytes(1+t.Choose(40))...)
	case 2:
		if len(d) > 4 {
			d = d[:4+t.Choose(len(d)-4)]
		}
	case 3:
		if len(d) > 0 {
			d[t.Choose(len(d))] ^= byte(1 << t.Choose(8))
		}
	case 4:
		if len(d) > 36 {
			// overwrite a word with a huge offset/length
			w := t.Choose((len(d) - 4) / 32)
			for i := 0; i < 32; i++ {
				d[4+32*w+i] = 0xff
			}
		}
	case 5:
		d = d[:min(len(d), 4)]
	}
	return d
}

// RandomCall submits a tape-chosen call to a tape-chosen embedded method.
func (gn *Gen) RandomCall(n *simnode.Node) (*nom.AccountBlock, string, error) {
	t := gn.W.R.T
	c := &Contracts[t.Choose(len(Contracts))]
	names := MethodNames(c.ABI)
	method := names[t.Choose(len(names))]
	return gn.Call(n, c, method)
}

func (gn *Gen) Call(n *simnode.Node, c *Contract, method string) (*nom.AccountBlock, string, error) {
	t := gn.W.R.T
	data, err := gn.PackRandom(c, method)
	key := c.Name + "." + method
	if err != nil {
		return nil, key, err
	}
	if t.Choose(8) == 0 {
		data = gn.MutateData(data)
		gn.W.R.Probe("call-data-mutated")
	}
	from := gn.user()
	if c.Addr == types.SporkContract && t.Choose(4) != 0 {
		from = g.Spork.Address
	}
	if gn.W.Admin != nil && (c.Addr == types.BridgeContract || c.Addr == types.LiquidityContract) && t.Choose(3) != 0 {
		from = *gn.W.Admin
	}
	z := gn.token()
	var amt *big.Int
	if t.Choose(3) == 0 {
		amt = big.NewInt(0)
		if t.Bool() {
			z = types.ZeroTokenStandard
		}
	} else {
		amt = gn.amount(n, from, z)
	}
	return gn.submitCall(n, key, from, c.Addr, z, amt, data)
}

var revokePillar1 = definition.ABIPillars.PackMethodPanic(definition.RevokeMethodName, g.Pillar1Name)
var errKeepOnePillar = errors.New("harness: the last producing pillar is not revoked")

func (gn *Gen) submitCall(n *simnode.Node, key string, from, to types.Address, z types.ZenonTokenStandard, amt *big.Int, data []byte) (*nom.AccountBlock, string, error) {
	gn.Tried[key]++
	if to == types.PillarContract && bytes.Equal(data, revokePillar1) {
		// one producing pillar always stays (see the revoke-pillar flow)
		return nil, key, errKeepOnePillar
	}
	b, err := gn.W.Send(n, from, to, z, amt, data)
	if err == nil {
		gn.Accepted[key]++
		gn.Ids[to] = append(gn.Ids[to], b.Hash)
		gn.W.R.Logf("op: %s from %s amount %v %s -> accepted %s", key, short(from.String()), amt, short(z.String()), short(b.Hash.String()))
	} else {
		gn.W.R.Logf("op: %s from %s amount %v %s -> refused: %s", key, short(from.String()), amt, short(z.String()), errStr(err))
	}
	return b, key, err
}

// Transfer sends between users (or to an arbitrary address).
func (gn *Gen) Transfer(n *simnode.Node) (*nom.AccountBlock, error) {
	t := gn.W.R.T
	from := gn.user()
	to := gn.anyAddress()
	if types.IsEmbeddedAddress(to) {
		to = gn.user()
	}
	z := gn.token()
	amt := gn.amount(n, from, z)
	var data []byte
	if t.Choose(5) == 0 {
		data = t.Bytes(t.Choose(200))
	}
	if gn.BigData && t.Choose(2) == 0 {
		// up to the protocol's maximum of 16 KiB of data (one tape draw: the content does not matter)
		data = bytes.Repeat([]byte{byte(t.Choose(256))}, constants.MaxDataLength-t.Choose(3)*5000)
		gn.W.R.Probe("transfer-with-big-data")
	}
	b, _, err := gn.submitCall(n, "transfer", from, to, z, amt, data)
	return b, err
}

// ReceiveSome lets users receive some of their pending sends.
func (gn *Gen) ReceiveSome(n *simnode.Node, max int) int {
	t := gn.W.R.T
	done := 0
	for i := 0; i < max; i++ {
		u := gn.user()
		hs := gn.W.Unreceived(n, u, 10)
		if len(hs) == 0 {
			continue
		}
		h := hs[t.Choose(len(hs))]
		gn.Tried["receive"]++
		b, err := gn.W.Receive(n, u, h)
		if err == nil {
			gn.Accepted["receive"]++
			done++
			gn.W.R.Logf("op: receive %s by %s -> %s", short(h.String()), short(u.String()), short(b.Hash.String()))
		} else {
			gn.W.R.Logf("op: receive %s by %s refused: %s", short(h.String()), short(u.String()), errStr(err))
		}
	}
	return done
}

// RefreshTokens learns the token standards recorded by the token contract.
func (gn *Gen) RefreshTokens(n *simnode.Node) {
	st := n.Chain.GetFrontierMomentumStore().GetAccountStore(types.TokenContract).Storage()
	toks, err := definition.GetTokenInfoList(st)
	if err != nil {
		return
	}
	gn.Tokens = gn.Tokens[:0]
	for _, tk := range toks {
		if tk.TokenStandard != types.ZnnTokenStandard && tk.TokenStandard != types.QsrTokenStandard {
			gn.Tokens = append(gn.Tokens, tk.TokenStandard)
		}
	}
}

func min(a, b int) int {
	if a < b {
		return a
	}
	return b
}
