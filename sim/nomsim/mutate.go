package nomsim

import (
	"math/big"

	"github.com/zenon-network/go-zenon/chain/nom"
	"github.com/zenon-network/go-zenon/common/types"
	"github.com/zenon-network/go-zenon/wallet"
)

// CloneMomentum deep-copies a momentum through its own serialisation.
func CloneMomentum(m *nom.Momentum) *nom.Momentum {
	b, err := m.Serialize()
	if err != nil {
		panic(err)
	}
	c, err := nom.DeserializeMomentum(b)
	if err != nil {
		panic(err)
	}
	return c
}

func CloneBlock(b *nom.AccountBlock) *nom.AccountBlock {
	raw, err := b.Serialize()
	if err != nil {
		panic(err)
	}
	c, err := nom.DeserializeAccountBlock(raw)
	if err != nil {
		panic(err)
	}
	return c
}

func CloneDetailed(d *nom.DetailedMomentum) *nom.DetailedMomentum {
	out := &nom.DetailedMomentum{Momentum: CloneMomentum(d.Momentum)}
	for _, b := range d.AccountBlocks {
		out.AccountBlocks = append(out.AccountBlocks, CloneBlock(b))
	}
	return out
}

func CloneBatch(batch []*nom.DetailedMomentum) []*nom.DetailedMomentum {
	out := make([]*nom.DetailedMomentum, len(batch))
	for i, d := range batch {
		out[i] = CloneDetailed(d)
	}
	return out
}

// ResignMomentum recomputes the hash and signs with kp.
func ResignMomentum(m *nom.Momentum, kp *wallet.KeyPair) {
	m.Hash = m.ComputeHash()
	m.Signature = kp.Sign(m.Hash.Bytes())
	m.PublicKey = append([]byte(nil), kp.Public...)
	// refresh cached producer/timestamp
	c := CloneMomentum(m)
	*m = *c
}

// MomentumMutation makes a delivered momentum definitely invalid (Sure) or
// possibly still valid.
type MomentumMutation struct {
	Name string
	Sure bool // the result can never be a valid momentum for the receiving chain
	// Apply may return false when the mutation is not applicable to this momentum
	Apply func(w *World, d *nom.DetailedMomentum) bool
}

func (w *World) producerKey(m *nom.Momentum) *wallet.KeyPair {
	return w.Keys[types.PubKeyToAddress(m.PublicKey)]
}

func (w *World) otherPillarKey(m *nom.Momentum) *wallet.KeyPair {
	own := types.PubKeyToAddress(m.PublicKey)
	ks := MockPillars()
	k := ks[w.R.T.Choose(len(ks))]
	if k.Address == own {
		k = ks[(w.R.T.Choose(len(ks)-1)+1+indexOf(ks, own))%len(ks)]
	}
	return k
}

func indexOf(ks []*wallet.KeyPair, a types.Address) int {
	for i, k := range ks {
		if k.Address == a {
			return i
		}
	}
	return 0
}

var MomentumMutations = []MomentumMutation{
	{"signature-trailing-bytes", true, func(w *World, d *nom.DetailedMomentum) bool {
		d.Momentum.Signature = append(append([]byte(nil), d.Momentum.Signature...), w.R.T.Bytes(1+w.R.T.Choose(8))...)
		return true
	}},
	{"signature-bit-flipped", true, func(w *World, d *nom.DetailedMomentum) bool {
		s := append([]byte(nil), d.Momentum.Signature...)
		s[w.R.T.Choose(len(s))] ^= byte(1 << w.R.T.Choose(8))
		d.Momentum.Signature = s
		return true
	}},
	{"signed-by-other-registered-pillar", true, func(w *World, d *nom.DetailedMomentum) bool {
		ResignMomentum(d.Momentum, w.otherPillarKey(d.Momentum))
		return true
	}},
	{"signed-by-user-key", true, func(w *World, d *nom.DetailedMomentum) bool {
		ResignMomentum(d.Momentum, w.Users[w.R.T.Choose(5)])
		return true
	}},
	{"changes-hash-altered-resigned", true, func(w *World, d *nom.DetailedMomentum) bool {
		kp := w.producerKey(d.Momentum)
		if kp == nil {
			return false
		}
		d.Momentum.ChangesHash[w.R.T.Choose(types.HashSize)] ^= 1
		ResignMomentum(d.Momentum, kp)
		return true
	}},
	{"hash-not-recomputed", true, func(w *World, d *nom.DetailedMomentum) bool {
		d.Momentum.Hash[w.R.T.Choose(types.HashSize)] ^= 1
		return true
	}},
	{"data-nonempty-resigned", true, func(w *World, d *nom.DetailedMomentum) bool {
		kp := w.producerKey(d.Momentum)
		if kp == nil {
			return false
		}
		d.Momentum.Data = []byte{1}
		ResignMomentum(d.Momentum, kp)
		return true
	}},
	{"version-2-resigned", true, func(w *World, d *nom.DetailedMomentum) bool {
		kp := w.producerKey(d.Momentum)
		if kp == nil {
			return false
		}
		d.Momentum.Version = 2
		ResignMomentum(d.Momentum, kp)
		return true
	}},
	{"chain-id-altered-resigned", true, func(w *World, d *nom.DetailedMomentum) bool {
		kp := w.producerKey(d.Momentum)
		if kp == nil {
			return false
		}
		d.Momentum.ChainIdentifier++
		ResignMomentum(d.Momentum, kp)
		return true
	}},
	{"account-block-dropped", true, func(w *World, d *nom.DetailedMomentum) bool {
		if len(d.AccountBlocks) == 0 {
			return false
		}
		i := w.R.T.Choose(len(d.AccountBlocks))
		d.AccountBlocks = append(append([]*nom.AccountBlock(nil), d.AccountBlocks[:i]...), d.AccountBlocks[i+1:]...)
		return true
	}},
	{"account-block-amount-altered", true, func(w *World, d *nom.DetailedMomentum) bool {
		for _, i := range perm(w, len(d.AccountBlocks)) {
			b := d.AccountBlocks[i]
			if b.BlockType == nom.BlockTypeUserSend {
				b.Amount = new(big.Int).Add(b.Amount, big.NewInt(1))
				return true
			}
		}
		return false
	}},
	{"content-header-dropped-resigned", true, func(w *World, d *nom.DetailedMomentum) bool {
		kp := w.producerKey(d.Momentum)
		if kp == nil || len(d.Momentum.Content) == 0 {
			return false
		}
		i := w.R.T.Choose(len(d.Momentum.Content))
		d.Momentum.Content = append(append(nom.MomentumContent(nil), d.Momentum.Content[:i]...), d.Momentum.Content[i+1:]...)
		ResignMomentum(d.Momentum, kp)
		return true
	}},
	{"timestamp-moved-back-resigned", false, func(w *World, d *nom.DetailedMomentum) bool {
		kp := w.producerKey(d.Momentum)
		if kp == nil {
			return false
		}
		// one slot is 10 s and honest predecessors are at least one slot older
		d.Momentum.TimestampUnix -= 10 * (1 + uint64(w.R.T.Choose(3)))
		ResignMomentum(d.Momentum, kp)
		// may still be valid if slots were missed and the same pillar owns the earlier slot
		return true
	}},
}

func perm(w *World, n int) []int {
	p := make([]int, n)
	for i := range p {
		p[i] = i
	}
	for i := n - 1; i > 0; i-- {
		j := w.R.T.Choose(i + 1)
		p[i], p[j] = p[j], p[i]
	}
	return p
}
