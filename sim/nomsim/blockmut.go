package nomsim

import (
	"math/big"

	"github.com/zenon-network/go-zenon/chain/nom"
	"github.com/zenon-network/go-zenon/common/types"
	"github.com/zenon-network/go-zenon/wallet"
)

// BlockMutation alters one field of an account block in place.
type BlockMutation struct {
	Name string
	// Covered: the field is part of the hash pre-image
	Covered bool
	Apply   func(w *World, b *nom.AccountBlock) bool
}

func flipHash(w *World, h *types.Hash) { h[w.R.T.Choose(types.HashSize)] ^= byte(1 << w.R.T.Choose(8)) }

var BlockMutations = []BlockMutation{
	{"version", true, func(w *World, b *nom.AccountBlock) bool { b.Version = uint64(w.R.T.Choose(4)) * 2; return true }},
	{"chain-id", true, func(w *World, b *nom.AccountBlock) bool {
		b.ChainIdentifier += uint64(1 + w.R.T.Choose(3))
		return true
	}},
	{"block-type", true, func(w *World, b *nom.AccountBlock) bool {
		o := b.BlockType
		b.BlockType = uint64(w.R.T.Choose(7))
		return b.BlockType != o
	}},
	{"hash", false, func(w *World, b *nom.AccountBlock) bool { flipHash(w, &b.Hash); return true }},
	{"previous-hash", true, func(w *World, b *nom.AccountBlock) bool { flipHash(w, &b.PreviousHash); return true }},
	{"height", true, func(w *World, b *nom.AccountBlock) bool {
		switch w.R.T.Choose(3) {
		case 0:
			b.Height++
		case 1:
			if b.Height == 0 {
				return false
			}
			b.Height--
		default:
			b.Height += 2 + uint64(w.R.T.Choose(1000))
		}
		return true
	}},
	{"momentum-acknowledged-hash", true, func(w *World, b *nom.AccountBlock) bool { flipHash(w, &b.MomentumAcknowledged.Hash); return true }},
	{"momentum-acknowledged-height", true, func(w *World, b *nom.AccountBlock) bool {
		if w.R.T.Bool() || b.MomentumAcknowledged.Height == 0 {
			b.MomentumAcknowledged.Height++
		} else {
			b.MomentumAcknowledged.Height--
		}
		return true
	}},
	{"momentum-acknowledged-other", true, func(w *World, b *nom.AccountBlock) bool {
		// another real momentum of the chain (older or newer)
		n := w.Nodes[0]
		h := n.Height()
		x := uint64(1 + w.R.T.Choose(int(h)))
		m, err := n.Bridge.GetBlockByNumber(x)
		if err != nil || m == nil || m.Identifier() == b.MomentumAcknowledged {
			return false
		}
		b.MomentumAcknowledged = m.Identifier()
		return true
	}},
	{"address", true, func(w *World, b *nom.AccountBlock) bool {
		o := b.Address
		if w.R.T.Bool() {
			b.Address = w.Users[w.R.T.Choose(len(w.Users))].Address
		} else {
			b.Address[1+w.R.T.Choose(19)] ^= 1
		}
		return b.Address != o
	}},
	{"to-address", true, func(w *World, b *nom.AccountBlock) bool {
		o := b.ToAddress
		b.ToAddress = w.Users[w.R.T.Choose(len(w.Users))].Address
		return b.ToAddress != o
	}},
	{"amount", true, func(w *World, b *nom.AccountBlock) bool {
		if b.Amount == nil {
			b.Amount = new(big.Int)
		}
		switch w.R.T.Choose(5) {
		case 0:
			b.Amount = new(big.Int).Add(b.Amount, big.NewInt(1))
		case 1:
			b.Amount = new(big.Int).Neg(new(big.Int).Add(b.Amount, big.NewInt(1)))
		case 2:
			b.Amount = new(big.Int).Lsh(big.NewInt(1), 255)
		case 3:
			b.Amount = new(big.Int).Sub(new(big.Int).Lsh(big.NewInt(1), 255), big.NewInt(1))
		default:
			b.Amount = new(big.Int).Mul(new(big.Int).Add(b.Amount, big.NewInt(1)), big.NewInt(1000000007))
		}
		return true
	}},
	// the hash (and with it the signature) covers the magnitude of the amount only
	{"amount-negated", false, func(w *World, b *nom.AccountBlock) bool {
		if b.Amount == nil || b.Amount.Sign() == 0 {
			return false
		}
		b.Amount = new(big.Int).Neg(b.Amount)
		return true
	}},
	{"negative-amount-without-token", true, func(w *World, b *nom.AccountBlock) bool {
		if !b.IsSendBlock() {
			return false
		}
		b.Amount = big.NewInt(-int64(1 + w.R.T.Choose(1000000)))
		b.TokenStandard = types.ZeroTokenStandard
		return true
	}},
	{"token-standard", true, func(w *World, b *nom.AccountBlock) bool {
		o := b.TokenStandard
		switch w.R.T.Choose(3) {
		case 0:
			b.TokenStandard = types.ZnnTokenStandard
		case 1:
			b.TokenStandard = types.QsrTokenStandard
		default:
			b.TokenStandard[w.R.T.Choose(len(b.TokenStandard))] ^= 1
		}
		return b.TokenStandard != o
	}},
	{"from-block-hash", true, func(w *World, b *nom.AccountBlock) bool { flipHash(w, &b.FromBlockHash); return true }},
	{"from-block-hash-other-send", true, func(w *World, b *nom.AccountBlock) bool {
		// the hash of some other real block of the ledger
		n := w.Nodes[0]
		u := w.Users[w.R.T.Choose(len(w.Users))].Address
		fr, err := n.Chain.GetFrontierAccountStore(u).Frontier()
		if err != nil || fr == nil || fr.Hash == b.FromBlockHash {
			return false
		}
		b.FromBlockHash = fr.Hash
		return true
	}},
	{"descendants-added", true, func(w *World, b *nom.AccountBlock) bool {
		b.DescendantBlocks = append(b.DescendantBlocks, &nom.AccountBlock{Version: 1, ChainIdentifier: b.ChainIdentifier, BlockType: nom.BlockTypeContractSend,
			Address: b.Address, ToAddress: w.Users[0].Address, Amount: big.NewInt(1), TokenStandard: types.ZnnTokenStandard, Height: b.Height, MomentumAcknowledged: b.MomentumAcknowledged})
		return true
	}},
	// a well-linked batch: the smuggled block takes the carrier's place in the account chain and the
	// carrier follows it, correctly hashed and (for users) signed by the owner
	{"descendants-smuggled-linked", true, func(w *World, b *nom.AccountBlock) bool {
		if len(b.DescendantBlocks) != 0 || b.Height == 0 {
			return false
		}
		d := &nom.AccountBlock{Version: 1, ChainIdentifier: b.ChainIdentifier, BlockType: nom.BlockTypeUserSend,
			Address: b.Address, ToAddress: w.Users[w.R.T.Choose(len(w.Users))].Address, Amount: big.NewInt(int64(1 + w.R.T.Choose(1000))),
			TokenStandard: types.ZnnTokenStandard, Height: b.Height, PreviousHash: b.PreviousHash, MomentumAcknowledged: b.MomentumAcknowledged}
		if types.IsEmbeddedAddress(b.Address) {
			d.BlockType = nom.BlockTypeContractSend
		}
		d.Hash = d.ComputeHash()
		b.DescendantBlocks = []*nom.AccountBlock{d}
		b.Height++
		b.PreviousHash = d.Hash
		b.Hash = b.ComputeHash()
		if k := w.Keys[b.Address]; k != nil {
			b.Signature = k.Sign(b.Hash.Bytes())
			b.PublicKey = append([]byte(nil), k.Public...)
		}
		return true
	}},
	{"descendants-dropped", true, func(w *World, b *nom.AccountBlock) bool {
		if len(b.DescendantBlocks) == 0 {
			return false
		}
		b.DescendantBlocks = b.DescendantBlocks[:len(b.DescendantBlocks)-1]
		return true
	}},
	{"descendant-amount", true, func(w *World, b *nom.AccountBlock) bool {
		if len(b.DescendantBlocks) == 0 {
			return false
		}
		d := b.DescendantBlocks[w.R.T.Choose(len(b.DescendantBlocks))]
		d.Amount = new(big.Int).Add(d.Amount, big.NewInt(1))
		return true
	}},
	{"data", true, func(w *World, b *nom.AccountBlock) bool {
		if len(b.Data) == 0 || w.R.T.Choose(3) == 0 {
			b.Data = append(append([]byte(nil), b.Data...), byte(w.R.T.Choose(256)))
		} else {
			d := append([]byte(nil), b.Data...)
			d[w.R.T.Choose(len(d))] ^= byte(1 << w.R.T.Choose(8))
			b.Data = d
		}
		return true
	}},
	{"fused-plasma", true, func(w *World, b *nom.AccountBlock) bool {
		switch w.R.T.Choose(3) {
		case 0:
			b.FusedPlasma++
		case 1:
			if b.FusedPlasma == 0 {
				return false
			}
			b.FusedPlasma--
		default:
			b.FusedPlasma = 0
		}
		return true
	}},
	{"difficulty", true, func(w *World, b *nom.AccountBlock) bool {
		b.Difficulty = []uint64{1, 1500, 31500000, 1 << 40, 1 << 63, 1<<64 - 1}[w.R.T.Choose(6)]
		return true
	}},
	{"nonce", true, func(w *World, b *nom.AccountBlock) bool { b.Nonce.Data[w.R.T.Choose(8)] ^= 1; return true }},
	{"base-plasma", false, func(w *World, b *nom.AccountBlock) bool { b.BasePlasma += uint64(1 + w.R.T.Choose(1000)); return true }},
	{"base-plasma-lower", false, func(w *World, b *nom.AccountBlock) bool {
		if b.BasePlasma < 2 {
			return false
		}
		b.BasePlasma = uint64(1 + w.R.T.Choose(int(b.BasePlasma-1)))
		return true
	}},
	{"total-plasma", false, func(w *World, b *nom.AccountBlock) bool { b.TotalPlasma += uint64(1 + w.R.T.Choose(1000)); return true }},
	{"changes-hash", false, func(w *World, b *nom.AccountBlock) bool { flipHash(w, &b.ChangesHash); return true }},
	{"public-key", false, func(w *World, b *nom.AccountBlock) bool {
		if len(b.PublicKey) == 0 {
			b.PublicKey = append([]byte(nil), w.Users[0].Public...)
			return true
		}
		switch w.R.T.Choose(3) {
		case 0:
			b.PublicKey = append([]byte(nil), w.Users[w.R.T.Choose(len(w.Users))].Public...)
		case 1:
			p := append([]byte(nil), b.PublicKey...)
			p[w.R.T.Choose(len(p))] ^= 1
			b.PublicKey = p
		default:
			b.PublicKey = nil
		}
		return true
	}},
	{"signature", false, func(w *World, b *nom.AccountBlock) bool {
		if len(b.Signature) == 0 {
			b.Signature = make([]byte, 64)
			return true
		}
		switch w.R.T.Choose(4) {
		case 3:
			b.Signature = append(append([]byte(nil), b.Signature...), w.R.T.Bytes(1+w.R.T.Choose(8))...)
		case 0:
			s := append([]byte(nil), b.Signature...)
			s[w.R.T.Choose(len(s))] ^= byte(1 << w.R.T.Choose(8))
			b.Signature = s
		case 1:
			b.Signature = b.Signature[:len(b.Signature)-1]
		default:
			b.Signature = nil
		}
		return true
	}},
}

// SignVariant says what happens to hash and signature after a mutation.
type SignVariant int

const (
	SignAsIs SignVariant = iota
	SignRehash
	SignRehashOwner
	SignRehashOther
)

var SignVariantNames = []string{"as-is", "rehashed", "rehashed-resigned-by-owner", "rehashed-resigned-by-other-key"}

// ApplySign re-derives hash/signature per variant. owner is the key of the
// ORIGINAL block's account.
func ApplySign(w *World, b *nom.AccountBlock, v SignVariant, owner *wallet.KeyPair) {
	switch v {
	case SignAsIs:
	case SignRehash:
		b.Hash = b.ComputeHash()
	case SignRehashOwner:
		b.Hash = b.ComputeHash()
		if owner != nil && !types.IsEmbeddedAddress(b.Address) {
			b.Signature = owner.Sign(b.Hash.Bytes())
			b.PublicKey = append([]byte(nil), owner.Public...)
		}
	case SignRehashOther:
		b.Hash = b.ComputeHash()
		if !types.IsEmbeddedAddress(b.Address) {
			k := w.Users[w.R.T.Choose(len(w.Users))]
			if owner != nil && k.Address == owner.Address {
				k = w.Users[(indexOf(w.Users, k.Address)+1)%len(w.Users)]
			}
			b.Signature = k.Sign(b.Hash.Bytes())
			b.PublicKey = append([]byte(nil), k.Public...)
		}
	}
}
