// Package simnode assembles a full go-zenon node out of the repository's real
// components (chain, LevelDB manager, consensus, supervisor, verifier, pillar
// managers, chain bridge) for use inside a simulated run. Only the transport is
// replaced: the node implements protocol.Broadcaster itself and hands what a
// real node would gossip to a callback owned by the simulator.
package simnode

import (
	"fmt"
	"io"
	"os"
	"path/filepath"
	"sort"
	"time"

	"github.com/inconshreveable/log15"
	"github.com/syndtr/goleveldb/leveldb"

	"github.com/zenon-network/go-zenon/chain"
	"github.com/zenon-network/go-zenon/chain/genesis"
	"github.com/zenon-network/go-zenon/chain/nom"
	"github.com/zenon-network/go-zenon/common"
	"github.com/zenon-network/go-zenon/common/db"
	"github.com/zenon-network/go-zenon/common/types"
	"github.com/zenon-network/go-zenon/consensus"
	"github.com/zenon-network/go-zenon/pillar"
	"github.com/zenon-network/go-zenon/protocol"
	"github.com/zenon-network/go-zenon/verifier"
	"github.com/zenon-network/go-zenon/vm"
	"github.com/zenon-network/go-zenon/wallet"

	"verif/sim/simrt"
)

// SimClock is installed as common.Clock: bubble time plus the skew of the node
// whose code is currently being driven.
type SimClock struct{ Skew time.Duration }

func (c *SimClock) Now() time.Time { return time.Now().Add(c.Skew) }

var Clock = &SimClock{}

var origStdout *os.File

// Quiet silences the repository's loggers and its direct prints to stdout.
func Quiet() {
	if os.Getenv("VERIF_REPO_LOGS") != "" {
		// debugging aid: let error-level repo logs through to stderr
		log15.Root().SetHandler(log15.LvlFilterHandler(map[string]log15.Lvl{"debug": log15.LvlDebug}[os.Getenv("VERIF_REPO_LOGS")]|log15.LvlError, log15.StderrHandler))
		common.Clock = Clock
		return
	}
	log15.Root().SetHandler(log15.DiscardHandler())
	for _, l := range []log15.Logger{common.ChainLogger, common.ConsensusLogger, common.NodeLogger, common.P2PLogger,
		common.PillarLogger, common.ProtocolLogger, common.FetcherLogger, common.DownloaderLogger, common.RPCLogger,
		common.VerifierLogger, common.ZenonLogger, common.VmLogger, common.SupervisorLogger, common.EmbeddedLogger, common.WalletLogger} {
		l.SetHandler(log15.DiscardHandler())
	}
	common.Clock = Clock
	if origStdout == nil && os.Getenv("VERIF_KEEP_STDOUT") == "" {
		origStdout = os.Stdout
		if f, err := os.OpenFile(os.DevNull, os.O_WRONLY, 0); err == nil {
			os.Stdout = f
		}
	}
}

// Out is where the harness prints (the real stdout).
func Out() io.Writer {
	if origStdout != nil {
		return origStdout
	}
	return os.Stdout
}

type Config struct {
	Genesis         *genesis.GenesisConfig
	PillarKeys      []*wallet.KeyPair // producing keys hosted on this node
	ConsensusOnDisk bool
}

type Node struct {
	Name string
	R    *simrt.Run
	Cfg  Config
	Dir  string
	CDir string

	Mgr     db.Manager
	Chain   chain.Chain
	Cons    consensus.Consensus
	Sup     *vm.Supervisor
	Ver     verifier.Verifier
	Bridge  protocol.ChainBridge
	Pillars []pillar.Manager
	cdb     *leveldb.DB

	Sync protocol.SyncState
	Skew time.Duration
	Up   bool

	// transport callbacks (may be nil)
	OnMomentum func(n *Node, m *nom.DetailedMomentum)
	OnBlock    func(n *Node, b *nom.AccountBlock)

	// LastOwnMomentumErr is the error of the last CreateMomentum insert (nil on success)
	LastOwnMomentumErr error
	// OwnMomentums counts the node's own momentums that were inserted; LastOwnMomentum is the latest
	OwnMomentums    int
	LastOwnMomentum *nom.Momentum
	OwnBlockErrs       int
}

func New(r *simrt.Run, name string, cfg Config) *Node {
	n := &Node{Name: name, R: r, Cfg: cfg, Sync: protocol.SyncDone}
	n.Dir = r.TempDir()
	if cfg.ConsensusOnDisk {
		n.CDir = r.TempDir()
	}
	r.Cleanup(func() {
		if n.Up {
			n.Stop()
		}
	})
	return n
}

// NewOnDir builds a node over an existing database directory (crash images).
func NewOnDir(r *simrt.Run, name string, cfg Config, dir string) *Node {
	n := &Node{Name: name, R: r, Cfg: cfg, Sync: protocol.SyncDone, Dir: dir}
	r.Cleanup(func() {
		if n.Up {
			n.Stop()
		}
	})
	return n
}

// Open builds fresh objects over the node's directory, exactly what znnd does at
// start (chain.Init runs the genesis compatibility check).
func (n *Node) Open() error {
	Quiet()
	n.Mgr = db.NewLevelDBManager(n.Dir)
	ch := chain.NewChain(n.Mgr, genesis.NewGenesis(n.Cfg.Genesis))
	var cdb db.DB
	if n.Cfg.ConsensusOnDisk {
		cdb, n.cdb = db.NewLevelDB(n.CDir)
	} else {
		cdb = db.NewMemDB()
	}
	cs := consensus.NewConsensus(cdb, ch, true)
	if err := ch.Init(); err != nil {
		n.Mgr.Stop()
		if n.cdb != nil {
			n.cdb.Close()
			n.cdb = nil
		}
		return err
	}
	if err := cs.Init(); err != nil {
		return err
	}
	ch.Start()
	cs.Start()
	n.Chain, n.Cons = ch, cs
	n.Sup = vm.NewSupervisor(ch, cs)
	n.Ver = verifier.NewVerifier(ch, cs)
	n.Bridge = protocol.NewChainBridge(ch, cs, n.Ver, n.Sup)
	n.Pillars = nil
	for _, k := range n.Cfg.PillarKeys {
		p := pillar.NewPillar(ch, cs, n)
		p.SetCoinBase(k)
		common.DealWithErr(p.Init())
		common.DealWithErr(p.Start())
		n.Pillars = append(n.Pillars, p)
	}
	n.Up = true
	return nil
}

func (n *Node) MustOpen() *Node {
	if err := n.Open(); err != nil {
		panic(fmt.Sprintf("node %s open: %v", n.Name, err))
	}
	return n
}

// Stop shuts the node down in the order zenon.Stop uses.
func (n *Node) Stop() {
	if !n.Up {
		return
	}
	n.Up = false
	for _, p := range n.Pillars {
		p.Stop()
	}
	n.Cons.Stop()
	n.Chain.Stop()
	if n.cdb != nil {
		n.cdb.Close()
		n.cdb = nil
	}
	n.Pillars = nil
}

// Restart = process exit at an event boundary followed by a new start on the
// same directory. dropConsensusCache simulates a lost consensus database.
func (n *Node) Restart(dropConsensusCache bool) error {
	n.Stop()
	if dropConsensusCache && n.CDir != "" {
		os.RemoveAll(n.CDir)
		os.MkdirAll(n.CDir, 0o700)
	}
	return n.Open()
}

// ---- protocol.Broadcaster ----

func (n *Node) SyncInfo() *protocol.SyncInfo {
	return &protocol.SyncInfo{State: n.Sync}
}

func (n *Node) CreateMomentum(mt *nom.MomentumTransaction) {
	insert := n.Chain.AcquireInsert("sim create-momentum")
	err := n.Chain.AddMomentumTransaction(insert, mt)
	insert.Unlock()
	n.LastOwnMomentumErr = err
	if err != nil {
		return
	}
	n.OwnMomentums++
	n.LastOwnMomentum = mt.Momentum
	store := n.Chain.GetFrontierMomentumStore()
	detailed, err := store.PrefetchMomentum(mt.Momentum)
	if err != nil {
		n.LastOwnMomentumErr = err
		return
	}
	if n.OnMomentum != nil {
		n.OnMomentum(n, detailed)
	}
}

func (n *Node) CreateAccountBlock(tx *nom.AccountBlockTransaction) {
	insert := n.Chain.AcquireInsert("sim create-account-block")
	err := n.Chain.AddAccountBlockTransaction(insert, tx)
	insert.Unlock()
	if err != nil {
		n.OwnBlockErrs++
		return
	}
	if n.OnBlock != nil {
		n.OnBlock(n, tx.Block)
	}
}

// ---- helpers ----

func (n *Node) Frontier() *nom.Momentum {
	m, err := n.Chain.GetFrontierMomentumStore().GetFrontierMomentum()
	common.DealWithErr(err)
	return m
}

func (n *Node) Height() uint64 { return n.Frontier().Height }

// Hosts reports whether the node hosts the producing key of addr.
func (n *Node) Hosts(addr types.Address) pillar.Manager {
	for _, p := range n.Pillars {
		if cb := p.GetCoinBase(); cb != nil && *cb == addr {
			return p
		}
	}
	return nil
}

// ProduceAt drives the slot starting at t on this node through the real pillar
// path (generate momentum, insert, contract auto-receives, contract updates).
// It returns false when the elected producer is not hosted here.
func (n *Node) ProduceAt(t time.Time) (bool, error) {
	expected, err := n.Cons.GetMomentumProducer(t)
	if err != nil {
		return false, err
	}
	p := n.Hosts(*expected)
	if p == nil {
		return false, nil
	}
	Clock.Skew = n.Skew
	defer func() { Clock.Skew = 0 }()
	task := p.Process(consensus.ProducerEvent{Producer: *expected, StartTime: t, EndTime: t.Add(10 * time.Second)})
	if task != nil {
		task.Wait()
	}
	return true, nil
}

// Detailed returns the momentum at height h with its account blocks, as a peer
// would serve it.
func (n *Node) Detailed(h uint64) *nom.DetailedMomentum {
	m, err := n.Bridge.GetBlockByNumber(h)
	if err != nil || m == nil {
		return nil
	}
	return n.Bridge.GetBlock(m.Hash)
}

func (n *Node) Batch(from, to uint64) []*nom.DetailedMomentum {
	var out []*nom.DetailedMomentum
	for h := from; h <= to; h++ {
		d := n.Detailed(h)
		if d == nil {
			break
		}
		out = append(out, d)
	}
	return out
}

// CopyDir copies a database directory (flat: goleveldb keeps no subdirectories).
func CopyDir(src, dst string) error {
	if err := os.MkdirAll(dst, 0o700); err != nil {
		return err
	}
	ents, err := os.ReadDir(src)
	if err != nil {
		return err
	}
	sort.Slice(ents, func(i, j int) bool { return ents[i].Name() < ents[j].Name() })
	for _, e := range ents {
		if e.IsDir() || e.Name() == "LOCK" {
			continue
		}
		b, err := os.ReadFile(filepath.Join(src, e.Name()))
		if err != nil {
			return err
		}
		if err := os.WriteFile(filepath.Join(dst, e.Name()), b, 0o600); err != nil {
			return err
		}
	}
	return nil
}
