// Package oracle holds reference computations written from the property
// statements. They read state back through exported stores and raw key iteration
// and never call the function they judge.
package oracle

import (
	"bytes"
	"crypto/sha256"
	"encoding/hex"
	"fmt"
	"math/big"
	"sort"

	"github.com/zenon-network/go-zenon/chain/nom"
	"github.com/zenon-network/go-zenon/chain/store"
	"github.com/zenon-network/go-zenon/common/db"
	"github.com/zenon-network/go-zenon/common/types"
	"github.com/zenon-network/go-zenon/vm/embedded/definition"
)

type KV struct{ K, V []byte }

// Dump reads every live key of a store view through its iterator. The store's
// convention is that a frontier iterator also yields deleted keys, with a nil
// value (tombstone) which every consumer treats as "absent"; those are skipped,
// so the dump is the logical content.
func Dump(d db.DB) []KV {
	var out []KV
	it := d.NewIterator(nil)
	defer it.Release()
	for it.Next() {
		v := it.Value()
		if v == nil {
			continue
		}
		out = append(out, KV{append([]byte(nil), it.Key()...), append([]byte{}, v...)})
	}
	return out
}

func Digest(kvs []KV) string {
	h := sha256.New()
	for _, kv := range kvs {
		fmt.Fprintf(h, "%d:", len(kv.K))
		h.Write(kv.K)
		fmt.Fprintf(h, "%d:", len(kv.V))
		h.Write(kv.V)
	}
	return hex.EncodeToString(h.Sum(nil)[:12])
}

// Diff describes the first few differences of two dumps (for violation detail).
func Diff(a, b []KV) string {
	am := map[string][]byte{}
	for _, kv := range a {
		am[string(kv.K)] = kv.V
	}
	bm := map[string][]byte{}
	for _, kv := range b {
		bm[string(kv.K)] = kv.V
	}
	var keys []string
	for k := range am {
		if v, ok := bm[k]; !ok || !bytes.Equal(v, am[k]) {
			keys = append(keys, k)
		}
	}
	for k := range bm {
		if _, ok := am[k]; !ok {
			keys = append(keys, k)
		}
	}
	sort.Strings(keys)
	s := fmt.Sprintf("%d differing keys (sizes %d vs %d)", len(keys), len(a), len(b))
	for i, k := range keys {
		if i >= 6 {
			break
		}
		s += fmt.Sprintf("\n  key=%x a=%s b=%s", k, valStr(am, k), valStr(bm, k))
	}
	return s
}

func valStr(m map[string][]byte, k string) string {
	v, ok := m[k]
	if !ok {
		return "<absent>"
	}
	x := hex.EncodeToString(v)
	if len(x) > 48 {
		x = x[:48] + "…"
	}
	return x
}

// DiffClass names the key class of the first differing key (discriminator).
func DiffClass(a, b []KV) string {
	am := map[string][]byte{}
	for _, kv := range a {
		am[string(kv.K)] = kv.V
	}
	bm := map[string][]byte{}
	for _, kv := range b {
		bm[string(kv.K)] = kv.V
	}
	var keys []string
	for k := range am {
		if v, ok := bm[k]; !ok || !bytes.Equal(v, am[k]) {
			keys = append(keys, k)
		}
	}
	for k := range bm {
		if _, ok := am[k]; !ok {
			keys = append(keys, k)
		}
	}
	if len(keys) == 0 {
		return "none"
	}
	sort.Strings(keys)
	return fmt.Sprintf("prefix%02x", keys[0][0])
}

// Accounts enumerates every address that owns at least one key in the account
// store key space of a momentum view (prefix 0x03 ‖ address).
func Accounts(d db.DB) []types.Address {
	seen := map[types.Address]bool{}
	var out []types.Address
	it := d.NewIterator([]byte{3})
	defer it.Release()
	for it.Next() {
		k := it.Key()
		if len(k) < 1+types.AddressSize {
			continue
		}
		var a types.Address
		copy(a[:], k[1:1+types.AddressSize])
		if !seen[a] {
			seen[a] = true
			out = append(out, a)
		}
	}
	return out
}

type Pending struct {
	Zts    types.ZenonTokenStandard
	Amount *big.Int
	To     types.Address
	From   types.Address
}

// ScanUnreceived walks every account chain of a momentum view and returns the
// send blocks that no block on any chain receives. It derives "received" from
// the FromBlockHash of the receive blocks it meets, not from the mailbox index.
func ScanUnreceived(ms store.Momentum, accounts []types.Address) (map[types.Hash]*Pending, error) {
	return ScanUnreceivedFn(accounts, ms.GetAccountStore)
}

// ScanUnreceivedFn is ScanUnreceived over an arbitrary account view (e.g. the
// unconfirmed-pool frontier of every account).
func ScanUnreceivedFn(accounts []types.Address, get func(types.Address) store.Account) (map[types.Hash]*Pending, error) {
	sends := map[types.Hash]*Pending{}
	received := map[types.Hash]int{}
	for _, a := range accounts {
		as := get(a)
		fr := as.Identifier()
		for h := uint64(1); h <= fr.Height; h++ {
			b, err := as.ByHeight(h)
			if err != nil {
				return nil, err
			}
			if b == nil {
				return nil, fmt.Errorf("account %v has no block at height %d below frontier %d", a, h, fr.Height)
			}
			if b.IsSendBlock() {
				sends[b.Hash] = &Pending{Zts: b.TokenStandard, Amount: new(big.Int).Set(b.Amount), To: b.ToAddress, From: b.Address}
			} else if b.BlockType == nom.BlockTypeUserReceive || b.BlockType == nom.BlockTypeContractReceive {
				received[b.FromBlockHash]++
			}
		}
	}
	for h, c := range received {
		if c > 1 {
			return nil, fmt.Errorf("send %v received %d times", h, c)
		}
		delete(sends, h)
	}
	return sends, nil
}

type Supply struct {
	Balances map[types.ZenonTokenStandard]*big.Int
	InFlight map[types.ZenonTokenStandard]*big.Int
	Tokens   map[types.ZenonTokenStandard]*definition.TokenInfo
}

func addTo(m map[types.ZenonTokenStandard]*big.Int, z types.ZenonTokenStandard, v *big.Int) {
	if m[z] == nil {
		m[z] = new(big.Int)
	}
	m[z].Add(m[z], v)
}

// Conservation evaluates C01's equation on one momentum view. raw must be the
// db.DB of the same view (for account enumeration).
func Conservation(ms store.Momentum, raw db.DB) (*Supply, error) {
	return ConservationFn(Accounts(raw), ms.GetAccountStore)
}

// ConservationFn evaluates the equation over an arbitrary per-account view.
func ConservationFn(accounts []types.Address, get func(types.Address) store.Account) (*Supply, error) {
	s := &Supply{Balances: map[types.ZenonTokenStandard]*big.Int{}, InFlight: map[types.ZenonTokenStandard]*big.Int{}, Tokens: map[types.ZenonTokenStandard]*definition.TokenInfo{}}
	for _, a := range accounts {
		bm, err := get(a).GetBalanceMap()
		if err != nil {
			return nil, err
		}
		for z, v := range bm {
			if v.Sign() < 0 {
				return s, fmt.Errorf("negative balance: account %v token %v balance %v", a, z, v)
			}
			addTo(s.Balances, z, v)
		}
	}
	pend, err := ScanUnreceivedFn(accounts, get)
	if err != nil {
		return s, err
	}
	for _, p := range pend {
		if p.Amount.Sign() < 0 {
			return s, fmt.Errorf("negative amount in flight")
		}
		addTo(s.InFlight, p.Zts, p.Amount)
	}
	toks, err := definition.GetTokenInfoList(get(types.TokenContract).Storage())
	if err != nil {
		return s, err
	}
	for _, t := range toks {
		s.Tokens[t.TokenStandard] = t
	}
	zero := new(big.Int)
	check := func(z types.ZenonTokenStandard) error {
		if z == types.ZeroTokenStandard {
			return nil
		}
		bal, inf := s.Balances[z], s.InFlight[z]
		if bal == nil {
			bal = zero
		}
		if inf == nil {
			inf = zero
		}
		sum := new(big.Int).Add(bal, inf)
		t := s.Tokens[z]
		if t == nil {
			if sum.Sign() != 0 {
				return fmt.Errorf("token %v is held (%v) but not recorded by the token contract", z, sum)
			}
			return nil
		}
		if sum.Cmp(t.TotalSupply) != 0 {
			return fmt.Errorf("token %v (%s): balances %v + in-flight %v = %v != recorded total supply %v", z, t.TokenSymbol, bal, inf, sum, t.TotalSupply)
		}
		if t.TotalSupply.Cmp(t.MaxSupply) > 0 {
			return fmt.Errorf("token %v: total supply %v exceeds max supply %v", z, t.TotalSupply, t.MaxSupply)
		}
		return nil
	}
	zs := map[types.ZenonTokenStandard]bool{}
	for z := range s.Balances {
		zs[z] = true
	}
	for z := range s.InFlight {
		zs[z] = true
	}
	for z := range s.Tokens {
		zs[z] = true
	}
	var order []types.ZenonTokenStandard
	for z := range zs {
		order = append(order, z)
	}
	sort.Slice(order, func(i, j int) bool { return bytes.Compare(order[i][:], order[j][:]) < 0 })
	for _, z := range order {
		if err := check(z); err != nil {
			return s, err
		}
	}
	return s, nil
}
