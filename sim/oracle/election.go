package oracle

import (
	"fmt"
	"math/big"
	"math/rand"
	"sort"
	"time"

	"github.com/zenon-network/go-zenon/chain/nom"
	"github.com/zenon-network/go-zenon/chain/store"
	"github.com/zenon-network/go-zenon/common/types"
	"github.com/zenon-network/go-zenon/vm/embedded/definition"

	"verif/sim/simnode"
)

// Protocol constants of the election (pinned).
const (
	SlotSeconds   = 10
	SlotsPerTick  = 30
	RandomSlots   = 15
	TickSeconds   = SlotSeconds * SlotsPerTick
	GenesisUnixTS = 1000000000
)

type refPillar struct {
	name      string
	producing types.Address
	weight    *big.Int
}

// ReferenceSchedule computes the ordered producer list of a tick from the
// ledger as of its proof momentum: weight of a registered, not revoked pillar
// = sum of the ZNN balances (read from the account stores of that view) of the
// accounts delegating to it; pillars ordered by weight descending then name;
// with at most 30 pillars the ordered list is repeated in the seeded
// permutation until 30 slots are filled, else the top 30 are permuted, the
// first 15 are taken, the other 15 join the rest, 15 of which are drawn by the
// permutation seeded with seed+1; the 30 are finally permuted with the seed.
// Seed = height of the proof momentum; permutations are math/rand's.
func ReferenceSchedule(ms store.Momentum) ([]types.Address, []string, error) {
	proof, err := ms.GetFrontierMomentum()
	if err != nil {
		return nil, nil, err
	}
	st := ms.GetAccountStore(types.PillarContract).Storage()
	pillars, err := definition.GetPillarsList(st, false, definition.AnyPillarType)
	if err != nil {
		return nil, nil, err
	}
	delegs, err := definition.GetDelegationsList(st)
	if err != nil {
		return nil, nil, err
	}
	var list []*refPillar
	byName := map[string]*refPillar{}
	for _, p := range pillars {
		if p.RevokeTime != 0 {
			continue
		}
		rp := &refPillar{name: p.Name, producing: p.BlockProducingAddress, weight: new(big.Int)}
		list = append(list, rp)
		byName[p.Name] = rp
	}
	for _, d := range delegs {
		rp := byName[d.Name]
		if rp == nil {
			continue
		}
		bal, err := ms.GetAccountStore(d.Backer).GetBalance(types.ZnnTokenStandard)
		if err != nil {
			return nil, nil, err
		}
		if bal != nil {
			rp.weight.Add(rp.weight, bal)
		}
	}
	order := func(l []*refPillar) {
		sort.SliceStable(l, func(i, j int) bool {
			if c := l[i].weight.Cmp(l[j].weight); c != 0 {
				return c > 0
			}
			return l[i].name < l[j].name
		})
	}
	order(list)
	if len(list) == 0 {
		return nil, nil, fmt.Errorf("no active pillar at proof momentum %d", proof.Height)
	}
	seed := int64(proof.Height)
	var chosen []*refPillar
	if len(list) <= SlotsPerTick {
		if len(list) == SlotsPerTick {
			// exactly 30: top/random split degenerates: first 15 of the permutation, then 15 drawn from the other 15
			chosen = splitSelect(list, nil, seed)
		} else {
			for len(chosen) < SlotsPerTick {
				for _, i := range rand.New(rand.NewSource(seed)).Perm(len(list)) {
					chosen = append(chosen, list[i])
				}
			}
			chosen = chosen[:SlotsPerTick]
		}
	} else {
		a := append([]*refPillar(nil), list[:SlotsPerTick]...)
		b := append([]*refPillar(nil), list[SlotsPerTick:]...)
		chosen = splitSelect(a, b, seed)
	}
	out := make([]types.Address, 0, SlotsPerTick)
	names := make([]string, 0, SlotsPerTick)
	for _, i := range rand.New(rand.NewSource(seed)).Perm(len(chosen)) {
		out = append(out, chosen[i].producing)
		names = append(names, chosen[i].name)
	}
	return out, names, nil
}

func splitSelect(a, b []*refPillar, seed int64) []*refPillar {
	var res []*refPillar
	top := rand.New(rand.NewSource(seed)).Perm(len(a))
	for i := 0; i < SlotsPerTick-RandomSlots; i++ {
		res = append(res, a[top[i]])
	}
	for i := SlotsPerTick - RandomSlots; i < SlotsPerTick; i++ {
		b = append(b, a[top[i]])
	}
	for _, i := range rand.New(rand.NewSource(seed + 1)).Perm(len(b))[:RandomSlots] {
		res = append(res, b[i])
	}
	return res
}

// ProofMomentum returns the proof momentum of the tick containing ts on node
// n's chain: the last momentum strictly before the end of tick-2 (the genesis
// momentum for ticks 0 and 1), found by walking the chain.
func ProofMomentum(n *simnode.Node, ts time.Time) (*nom.Momentum, error) {
	tick := (ts.Unix() - GenesisUnixTS) / TickSeconds
	var proofTime int64
	if tick < 2 {
		proofTime = GenesisUnixTS + 1
	} else {
		proofTime = GenesisUnixTS + (tick-1)*TickSeconds
	}
	st := n.Chain.GetFrontierMomentumStore()
	fr, err := st.GetFrontierMomentum()
	if err != nil {
		return nil, err
	}
	for h := fr.Height; h >= 1; h-- {
		m, err := st.GetMomentumByHeight(h)
		if err != nil || m == nil {
			return nil, fmt.Errorf("no momentum at height %d", h)
		}
		if int64(m.TimestampUnix) < proofTime {
			return m, nil
		}
	}
	return nil, fmt.Errorf("no momentum before %d", proofTime)
}

// ReferenceProducer is the pillar the reference election assigns to the slot
// starting at ts; ok=false when ts is not a slot start.
func ReferenceProducer(n *simnode.Node, ts time.Time) (types.Address, bool, error) {
	off := ts.Unix() - GenesisUnixTS
	if off < 0 || off%SlotSeconds != 0 || ts.Nanosecond() != 0 {
		return types.Address{}, false, nil
	}
	proof, err := ProofMomentum(n, ts)
	if err != nil {
		return types.Address{}, false, err
	}
	ms := n.Chain.GetMomentumStore(proof.Identifier())
	if ms == nil {
		return types.Address{}, false, fmt.Errorf("no view at proof momentum %d", proof.Height)
	}
	sched, _, err := ReferenceSchedule(ms)
	if err != nil {
		return types.Address{}, false, err
	}
	slot := (off % TickSeconds) / SlotSeconds
	return sched[slot], true, nil
}
