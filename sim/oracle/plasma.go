package oracle

import (
	"math/big"

	"github.com/zenon-network/go-zenon/chain/nom"
	"github.com/zenon-network/go-zenon/chain/store"
	"github.com/zenon-network/go-zenon/common/types"
	"github.com/zenon-network/go-zenon/vm/abi"
	"github.com/zenon-network/go-zenon/vm/embedded/definition"

	"verif/sim/golden"
	"verif/sim/simnode"
)

// FusedQsrFor sums, over every fusion entry recorded by the plasma contract in
// the given view, the amounts whose beneficiary is addr. It reads the entries,
// not the per-beneficiary total the implementation maintains.
func FusedQsrFor(ms store.Momentum, accounts []types.Address, addr types.Address) *big.Int {
	st := ms.GetAccountStore(types.PlasmaContract).Storage()
	sum := new(big.Int)
	for _, owner := range accounts {
		list, _, err := definition.GetFusionInfoListByOwner(st, owner)
		if err != nil {
			continue
		}
		for _, e := range list {
			if e.Beneficiary == addr {
				sum.Add(sum, e.Amount)
			}
		}
	}
	return sum
}

// RegimeAt names the method table in force in a momentum view.
func RegimeAt(ms store.Momentum) string {
	fr, err := ms.GetFrontierMomentum()
	if err != nil || fr == nil || fr.Height == 1 {
		return "origin"
	}
	active := map[types.Hash]bool{}
	st := ms.GetAccountStore(types.SporkContract).Storage()
	for _, id := range []types.Hash{types.AcceleratorSpork.SporkId, types.HtlcSpork.SporkId, types.BridgeAndLiquiditySpork.SporkId} {
		sp := definition.GetSporkInfoById(st, id)
		if sp != nil && sp.Activated && sp.EnforcementHeight <= fr.Height {
			active[id] = true
		}
	}
	return golden.Regime(active[types.AcceleratorSpork.SporkId], active[types.HtlcSpork.SporkId], active[types.BridgeAndLiquiditySpork.SporkId])
}

type ContractABI struct {
	Name string
	Addr types.Address
	ABI  abi.ABIContract
}

// GoldenBaseCost is the base plasma of a user block by the pinned protocol
// tables; ok=false when the tables give no cost (unknown method: the block
// must not be accepted at all).
func GoldenBaseCost(ms store.Momentum, b *nom.AccountBlock, contracts []ContractABI) (uint64, bool) {
	if b.BlockType == nom.BlockTypeUserReceive {
		return golden.BasePlasma, true
	}
	if b.ToAddress[0] != 1 {
		return uint64(golden.BasePlasma + golden.PlasmaPerDataByte*len(b.Data)), true
	}
	for _, c := range contracts {
		if c.Addr != b.ToAddress {
			continue
		}
		if len(b.Data) < 4 {
			return 0, false
		}
		m, err := c.ABI.MethodById(b.Data[:4])
		if err != nil {
			return 0, false
		}
		return golden.MethodPlasma(RegimeAt(ms), c.Name+"."+m.Name)
	}
	return 0, false
}

// UncommittedFused sums the fused plasma of the blocks on b's account chain,
// from its predecessor downwards, that are not confirmed as of the momentum b
// acknowledges (pooled blocks and blocks confirmed later).
func UncommittedFused(n *simnode.Node, b *nom.AccountBlock) (uint64, bool) {
	prev := types.HashHeight{Hash: b.PreviousHash, Height: b.Height - 1}
	if prev.Height == 0 {
		return 0, true
	}
	as := n.Chain.GetAccountStore(b.Address, prev)
	if as == nil {
		return 0, false
	}
	fs := n.Chain.GetFrontierMomentumStore()
	var sum uint64
	for h := prev.Height; h >= 1; h-- {
		ob, err := as.ByHeight(h)
		if err != nil || ob == nil {
			return 0, false
		}
		ch, err := fs.GetBlockConfirmationHeight(ob.Hash)
		if err != nil {
			return 0, false
		}
		if ch != 0 && ch <= b.MomentumAcknowledged.Height {
			break
		}
		sum += ob.FusedPlasma
	}
	return sum, true
}

// GenesisFusionOffset accounts for a property of genesis configs: fusion
// entries are stored under (owner, id), so config entries sharing owner and id
// (the mock genesis has several with the zero id) overwrite each other in the
// entry table while every one of them counts toward its beneficiary's total.
// The offset is, per beneficiary, what the config grants beyond the entries
// that survive; it can never be cancelled and stays constant.
func GenesisFusionOffset(fusions []*definition.FusionInfo) map[types.Address]*big.Int {
	type key struct {
		o  types.Address
		id types.Hash
	}
	total := map[types.Address]*big.Int{}
	last := map[key]*definition.FusionInfo{}
	for _, f := range fusions {
		if total[f.Beneficiary] == nil {
			total[f.Beneficiary] = new(big.Int)
		}
		total[f.Beneficiary].Add(total[f.Beneficiary], f.Amount)
		last[key{f.Owner, f.Id}] = f
	}
	for _, f := range last {
		total[f.Beneficiary].Sub(total[f.Beneficiary], f.Amount)
	}
	return total
}
