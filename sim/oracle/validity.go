package oracle

import (
	"bytes"
	"fmt"
	"math/big"

	"github.com/zenon-network/go-zenon/chain/nom"
	"github.com/zenon-network/go-zenon/common/types"

	"verif/sim/golden"
	"verif/sim/simnode"
)

// BlockInvalid evaluates, on node n's ledger, the necessary conditions the C03
// statement lists for an accepted account block. It returns "" when all hold,
// else the name of the first violated clause and a description. enforceFrom is
// the height from which a receive must be made by the addressee. regen, when
// not nil, regenerates the contract receive of a send on an independent node.
func BlockInvalid(n *simnode.Node, b *nom.AccountBlock, enforceFrom uint64, regen func(send *nom.AccountBlock) *nom.AccountBlock) (string, string) {
	isContract := b.Address[0] == 1
	// type matches the account kind
	switch b.BlockType {
	case nom.BlockTypeUserSend, nom.BlockTypeUserReceive:
		if isContract {
			return "type", "user block type on a contract account"
		}
	case nom.BlockTypeContractReceive:
		if !isContract {
			return "type", "contract block type on a user account"
		}
	default:
		return "type", fmt.Sprintf("block type %d is not acceptable from outside", b.BlockType)
	}
	if !isContract && len(b.DescendantBlocks) > 0 {
		return "descendants", "a user block carries descendant blocks (it would extend the chain by more than one height with unsigned blocks)"
	}
	// hash commits to content
	if golden.AccountBlockHash(b) != b.Hash {
		return "hash", "hash does not match the content"
	}
	// ownership
	if isContract {
		if len(b.PublicKey) != 0 || len(b.Signature) != 0 {
			return "signature", "contract block carries a key or signature"
		}
	} else {
		if !golden.SignatureOK(b.PublicKey, b.Hash[:], b.Signature) {
			return "signature", "signature does not verify under the public key"
		}
		if golden.AddressOf(b.PublicKey) != b.Address {
			return "owner", "public key does not own the account"
		}
	}
	// predecessor: confirmed frontier or a pooled block of the account
	first := b
	if len(b.DescendantBlocks) > 0 {
		first = b.DescendantBlocks[0]
	}
	prevHash, prevHeight := first.PreviousHash, first.Height-1
	if first.Height == 0 {
		return "height", "height 0"
	}
	// heights inside a batch are consecutive
	for i, d := range b.DescendantBlocks {
		if d.Height != first.Height+uint64(i) {
			return "height", "descendant heights are not consecutive"
		}
	}
	if len(b.DescendantBlocks) > 0 && b.Height != first.Height+uint64(len(b.DescendantBlocks)) {
		return "height", "receive block does not follow its descendants"
	}
	var pred *nom.AccountBlock
	if prevHeight == 0 {
		if !prevHash.IsZero() {
			return "previous", "height 1 with a previous hash"
		}
		fr, _ := n.Chain.GetFrontierMomentumStore().GetAccountStore(b.Address).Frontier()
		if fr != nil {
			// an account with confirmed blocks cannot restart at height 1
			return "previous", "height 1 on an account that already has confirmed blocks"
		}
	} else {
		confirmed, _ := n.Chain.GetFrontierMomentumStore().GetAccountStore(b.Address).Frontier()
		if confirmed != nil && confirmed.Height == prevHeight && confirmed.Hash == prevHash {
			pred = confirmed
		} else {
			for _, pb := range n.Chain.GetUncommittedAccountBlocksByAddress(b.Address) {
				if pb.Height == prevHeight && pb.Hash == prevHash {
					pred = pb
				}
			}
		}
		if pred == nil {
			return "previous", fmt.Sprintf("stated predecessor %v/%d is neither the confirmed frontier nor a pooled block of the account", prevHash, prevHeight)
		}
	}
	// acknowledged momentum on the node's chain
	ma, err := n.Chain.GetFrontierMomentumStore().GetMomentumByHeight(b.MomentumAcknowledged.Height)
	if err != nil || ma == nil || ma.Hash != b.MomentumAcknowledged.Hash {
		return "momentum-acknowledged", "acknowledged momentum is not on the node's chain"
	}
	if !isContract && pred != nil && pred.MomentumAcknowledged.Height > b.MomentumAcknowledged.Height {
		return "momentum-acknowledged", "acknowledges an older momentum than its predecessor"
	}
	preStore := n.Chain.GetAccountStore(b.Address, types.HashHeight{Hash: prevHash, Height: prevHeight})
	if b.BlockType == nom.BlockTypeUserSend {
		if b.Amount == nil || b.Amount.Sign() < 0 || b.Amount.BitLen() > 255 {
			return "amount", fmt.Sprintf("amount %v out of range", b.Amount)
		}
		if b.Amount.Sign() > 0 {
			if preStore == nil {
				return "previous", "no account state at the predecessor"
			}
			bal, err := preStore.GetBalance(b.TokenStandard)
			if err != nil || bal == nil {
				bal = new(big.Int)
			}
			if bal.Cmp(b.Amount) < 0 {
				return "balance", fmt.Sprintf("spends %v of %v but holds %v", b.Amount, b.TokenStandard, bal)
			}
		}
		return "", ""
	}
	// receive: references a confirmed, not yet received send, addressed to the receiver
	ms := n.Chain.GetMomentumStore(b.MomentumAcknowledged)
	if ms == nil {
		return "momentum-acknowledged", "no view at the acknowledged momentum"
	}
	send, err := ms.GetAccountBlockByHash(b.FromBlockHash)
	if err != nil || send == nil {
		return "from-block", "referenced send is not confirmed as of the acknowledged momentum"
	}
	if !send.IsSendBlock() {
		return "from-block-not-a-send", fmt.Sprintf("referenced block %v is not a send (type %d)", b.FromBlockHash, send.BlockType)
	}
	if n.Height() >= enforceFrom && send.ToAddress != b.Address {
		return "receiver", fmt.Sprintf("send is addressed to %v but received by %v", send.ToAddress, b.Address)
	}
	// not yet received on this account chain (up to the predecessor)
	if preStore != nil {
		for h := prevHeight; h >= 1; h-- {
			ob, err := preStore.ByHeight(h)
			if err != nil || ob == nil {
				break
			}
			if (ob.BlockType == nom.BlockTypeUserReceive || ob.BlockType == nom.BlockTypeContractReceive) && ob.FromBlockHash == b.FromBlockHash {
				return "already-received", fmt.Sprintf("send %v was already received at height %d of this account", b.FromBlockHash, h)
			}
		}
	}
	if isContract {
		ch, err := ms.GetBlockConfirmationHeight(b.FromBlockHash)
		if err != nil || ch != b.MomentumAcknowledged.Height {
			return "momentum-acknowledged", "contract receive does not acknowledge exactly the momentum that confirmed the send"
		}
		if regen != nil {
			exp := regen(send)
			if exp == nil {
				// the independent node holds no receive for this send and cannot generate one in its
				// current pool state (e.g. it lost its pool in a restart): nothing to compare with
				return "", ""
			}
			eb, _ := exp.Serialize()
			gb, _ := b.Serialize()
			if !bytes.Equal(eb, gb) {
				diff := BlockFieldDiff(exp, b)
				onlyUncovered := len(diff) > 0
				for _, f := range diff {
					if !uncoveredField[f] {
						onlyUncovered = false
					}
				}
				if onlyUncovered {
					return "regenerate-fields-outside-hash", fmt.Sprintf("contract receive differs from the regenerated one in fields the hash does not cover: %v", diff)
				}
				return "regenerate", fmt.Sprintf("contract receive differs from the one an independent node generates: %v", diff)
			}
		}
	}
	return "", ""
}

var uncoveredField = map[string]bool{"BasePlasma": true, "TotalPlasma": true, "ChangesHash": true, "PublicKey": true, "Signature": true,
	"desc.BasePlasma": true, "desc.TotalPlasma": true, "desc.ChangesHash": true, "desc.PublicKey": true, "desc.Signature": true}

// BlockFieldDiff names the fields in which two account blocks differ
// (descendant fields are prefixed "desc.").
func BlockFieldDiff(a, b *nom.AccountBlock) []string {
	var out []string
	add := func(prefix string, x, y *nom.AccountBlock) {
		c := func(name string, same bool) {
			if !same {
				out = append(out, prefix+name)
			}
		}
		c("Version", x.Version == y.Version)
		c("ChainIdentifier", x.ChainIdentifier == y.ChainIdentifier)
		c("BlockType", x.BlockType == y.BlockType)
		c("Hash", x.Hash == y.Hash)
		c("PreviousHash", x.PreviousHash == y.PreviousHash)
		c("Height", x.Height == y.Height)
		c("MomentumAcknowledged", x.MomentumAcknowledged == y.MomentumAcknowledged)
		c("Address", x.Address == y.Address)
		c("ToAddress", x.ToAddress == y.ToAddress)
		xa, ya := x.Amount, y.Amount
		if xa == nil {
			xa = new(big.Int)
		}
		if ya == nil {
			ya = new(big.Int)
		}
		c("Amount", xa.Cmp(ya) == 0)
		c("TokenStandard", x.TokenStandard == y.TokenStandard)
		c("FromBlockHash", x.FromBlockHash == y.FromBlockHash)
		c("Data", bytes.Equal(x.Data, y.Data))
		c("FusedPlasma", x.FusedPlasma == y.FusedPlasma)
		c("Difficulty", x.Difficulty == y.Difficulty)
		c("Nonce", x.Nonce == y.Nonce)
		c("BasePlasma", x.BasePlasma == y.BasePlasma)
		c("TotalPlasma", x.TotalPlasma == y.TotalPlasma)
		c("ChangesHash", x.ChangesHash == y.ChangesHash)
		c("PublicKey", bytes.Equal(x.PublicKey, y.PublicKey))
		c("Signature", bytes.Equal(x.Signature, y.Signature))
	}
	add("", a, b)
	if len(a.DescendantBlocks) != len(b.DescendantBlocks) {
		out = append(out, "DescendantCount")
	} else {
		for i := range a.DescendantBlocks {
			add("desc.", a.DescendantBlocks[i], b.DescendantBlocks[i])
		}
	}
	return out
}
