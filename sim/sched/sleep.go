package sched

import "time"

// sleepBubble lets 100 ms of simulated time pass (the polling interval of the
// code under test's task waiters).
func sleepBubble() { time.Sleep(100 * time.Millisecond) }
