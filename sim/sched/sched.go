// Package sched is the cooperative task scheduler for interleaving search.
// With the lock-yield overlay built in, every goroutine that is about to take
// an instrumented lock parks in the hook. The scheduler (the run's root
// goroutine) waits for quiescence with synctest.Wait, looks at the parked
// goroutines whose lock is free, lets the tape choose one, and wakes it. Between
// two quiescent points exactly one goroutine makes progress, so the sequence of
// (choice, site) pairs is the schedule: same tape, same interleaving.
package sched

import (
	"fmt"
	"runtime"
	"sort"
	"strconv"
	"strings"
	"sync"
	"sync/atomic"
	"testing/synctest"

	"github.com/zenon-network/go-zenon/verifrt"

	"verif/sim/simrt"
)

type parked struct {
	try  func() bool
	site string
	task string
	ch   chan struct{}
	seq  uint64
}

// goid extracts the current goroutine's id from its stack header; it is used
// only to give parked goroutines a stable task name, so that the order of the
// runnable set does not depend on which goroutine reached its yield first.
func goid() uint64 {
	var buf [64]byte
	n := runtime.Stack(buf[:], false)
	f := strings.Fields(string(buf[:n]))
	if len(f) < 2 {
		return 0
	}
	id, _ := strconv.ParseUint(f[1], 10, 64)
	return id
}

type Scheduler struct {
	R *simrt.Run

	mu     sync.Mutex
	list   []*parked
	seq    uint64
	active int
	wg     sync.WaitGroup

	Steps    int
	Trace    []string
	MaxSteps int
	// Deadlock is set when parked goroutines exist but none can take its lock
	Deadlock string
	// Filter, when set, limits preemption to the sites it accepts (coarser
	// granularity puts the rare windows within reach of a uniform choice)
	Filter func(site string) bool
	// Sticky is the percentage with which the task that ran last keeps running
	// when it is runnable (0 = uniform choice)
	Sticky   int
	lastTask string
	panics   []any
	names    map[uint64]string
	aborting atomic.Bool
}

func New(r *simrt.Run) *Scheduler {
	return &Scheduler{R: r, MaxSteps: 20000, names: map[uint64]string{}}
}

// Go starts a task. Tasks run real code; they are preempted only at instrumented lock sites.
func (s *Scheduler) Go(name string, f func()) {
	s.wg.Add(1)
	s.mu.Lock()
	s.active++
	s.mu.Unlock()
	go func() {
		defer func() {
			if p := recover(); p != nil {
				if _, ok := p.(DeadlockAbort); !ok {
					s.mu.Lock()
					s.panics = append(s.panics, fmt.Sprintf("task %s: %v", name, p))
					s.mu.Unlock()
				}
			}
			s.mu.Lock()
			s.active--
			s.mu.Unlock()
			s.wg.Done()
		}()
		s.mu.Lock()
		s.names[goid()] = name
		s.mu.Unlock()
		// every task starts parked so that the tape also decides who goes first
		s.hook(func() bool { return true }, "start:"+name)
		f()
	}()
}

func (s *Scheduler) hook(try func() bool, site string) {
	if s.Filter != nil && !strings.HasPrefix(site, "start:") && !s.Filter(site) {
		return
	}
	p := &parked{try: try, site: site, ch: make(chan struct{})}
	id := goid()
	s.mu.Lock()
	p.task = s.names[id]
	if p.task == "" {
		p.task = "helper" // goroutines spawned by the code under test (e.g. the pillar's task runner)
	}
	s.seq++
	p.seq = s.seq
	s.list = append(s.list, p)
	s.mu.Unlock()
	<-p.ch
	if s.aborting.Load() && p.task != "helper" {
		// a real deadlock was found: letting this task walk into sync.Mutex.Lock would freeze the bubble for
		// ever (a mutex wait is invisible to synctest); it unwinds instead, releasing what it holds
		panic(DeadlockAbort{})
	}
}

// DeadlockAbort unwinds the tasks of a schedule in which no parked task can ever take its lock.
type DeadlockAbort struct{}

// Run installs the hook, drives all tasks to completion and removes the hook.
// It returns the panics of tasks (as strings).
func (s *Scheduler) Run() []any {
	prev := verifrt.Hook
	verifrt.Hook = s.hook
	defer func() { verifrt.Hook = prev }()
	for {
		synctest.Wait()
		s.mu.Lock()
		if len(s.list) == 0 {
			done := s.active == 0
			s.mu.Unlock()
			if done {
				break
			}
			// tasks are blocked on something that is not an instrumented lock
			// (timers of the code under test): let simulated time pass
			s.R.Probe("sched-time-advance")
			s.mu.Lock()
			n := s.Steps
			s.mu.Unlock()
			if n > s.MaxSteps {
				s.Deadlock = "step budget exhausted while waiting for timers"
				break
			}
			s.Steps++
			sleepBubble()
			continue
		}
		// canonical order: by task name and site, not by arrival
		sort.SliceStable(s.list, func(i, j int) bool {
			if s.list[i].task != s.list[j].task {
				return s.list[i].task < s.list[j].task
			}
			return s.list[i].site < s.list[j].site
		})
		var runnable []int
		for i, p := range s.list {
			if p.try() {
				runnable = append(runnable, i)
			}
		}
		if len(runnable) == 0 {
			sites := ""
			for _, p := range s.list {
				sites += p.site + " "
			}
			s.mu.Unlock()
			// a lock may be held by a goroutine waiting for a timer
			s.Steps++
			if s.Steps > s.MaxSteps {
				s.Deadlock = "no parked goroutine can take its lock: " + sites
				break
			}
			sleepBubble()
			continue
		}
		k := -1
		if s.Sticky > 0 && len(runnable) > 1 {
			for _, i := range runnable {
				if s.list[i].task == s.lastTask && s.R.T.Prob(s.Sticky, 100) {
					k = i
					break
				}
			}
		}
		if k < 0 {
			k = runnable[s.R.T.Choose(len(runnable))]
		}
		p := s.list[k]
		s.lastTask = p.task
		s.list = append(s.list[:k], s.list[k+1:]...)
		s.Steps++
		if len(s.Trace) < 4000 {
			s.Trace = append(s.Trace, fmt.Sprintf("%s@%s", p.task, p.site))
		}
		s.mu.Unlock()
		close(p.ch)
		if s.Steps > s.MaxSteps {
			s.Deadlock = "step budget exhausted"
			break
		}
	}
	if s.Deadlock != "" {
		// release everything so that the run can end; after a real lock cycle the tasks unwind (see hook),
		// after an exhausted step budget they simply run on unscheduled
		if !strings.HasPrefix(s.Deadlock, "step budget") {
			s.aborting.Store(true)
		}
		verifrt.Hook = nil
		s.mu.Lock()
		for _, p := range s.list {
			close(p.ch)
		}
		s.list = nil
		s.mu.Unlock()
	}
	s.wg.Wait()
	s.mu.Lock()
	defer s.mu.Unlock()
	return s.panics
}
